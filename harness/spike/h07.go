//go:build verif

package interpreter

import (
	"github.com/truora/minidyn/internal/nd"
	"github.com/truora/minidyn/types"
)

// VerifC07: a few update templates against a reference semantics; untouched attributes keep their value.
func VerifC07() {
	a, b, c := nd.StringN("a", 1), nd.StringN("b", 1), nd.StringN("c", 1)
	v := nd.StringN("v", 1)
	item := map[string]*types.Item{"a": strp(a), "b": strp(b), "c": strp(c)}
	li := &Language{}
	tmpl := nd.Choice("tmpl", 5)
	exprs := []string{"SET a = :v", "REMOVE a", "SET a = b, b = a", "SET d = :v REMOVE b", "SET a = if_not_exists(z, :v)"}
	err := li.Update(UpdateInput{TableName: "t", Expression: exprs[tmpl], Item: item,
		Attributes: map[string]*types.Item{":v": strp(v)}})
	nd.Assert(err == nil, "C07-noerr")
	if err != nil {
		return
	}
	get := func(k string) (string, bool) {
		it, ok := item[k]
		if !ok || it.S == nil {
			return "", false
		}
		return *it.S, true
	}
	cv, cok := get("c")
	nd.Assert(cok && cv == c, "C07-frame-c")
	av, aok := get("a")
	bv, bok := get("b")
	switch tmpl {
	case 0:
		nd.Assert(aok && av == v && bok && bv == b, "C07-set")
	case 1:
		nd.Assert(!aok, "C07-remove-gone")
		nd.Assert(bok && bv == b, "C07-remove-frame")
	case 2:
		nd.Assert(aok && av == b, "C07-swap-a")
		nd.Assert(bok && bv == a, "C07-swap-b-reads-preimage")
	case 3:
		dv, dok := get("d")
		nd.Assert(dok && dv == v, "C07-multi-set")
		nd.Assert(!bok, "C07-multi-remove")
	case 4:
		nd.Assert(aok && av == v, "C07-if-not-exists")
	}
	_, hasV := item[":v"]
	nd.Assert(!hasV, "C07-no-placeholder-leak")
	nd.Reach("done")
}

//go:build verif

package core

import (
	"github.com/truora/minidyn/internal/nd"
	"github.com/truora/minidyn/types"
)

func vS(s string) *types.Item { return &types.Item{S: &s} }

func vStr(name string, cap int) string {
	return nd.StringN(name, nd.Choice(name+".len", cap+1))
}

// VerifC13Inject: GetKey is injective on (hash, range) tuples of S type, any bytes, cap 2.
func VerifC13Inject() {
	ks := keySchema{HashKey: "h", RangeKey: "r"}
	defs := map[string]string{"h": "S", "r": "S"}
	h1, r1 := vStr("h1", 2), vStr("r1", 2)
	h2, r2 := vStr("h2", 2), vStr("r2", 2)
	k1, e1 := ks.GetKey(defs, map[string]*types.Item{"h": vS(h1), "r": vS(r1)})
	k2, e2 := ks.GetKey(defs, map[string]*types.Item{"h": vS(h2), "r": vS(r2)})
	nd.Assert(e1 == nil && e2 == nil, "C13-nokeyerr")
	same := h1 == h2 && r1 == r2
	nd.Assert((k1 == k2) == same, "C13-injective")
}

func vTable(withIndex bool) *Table {
	t := NewTable("t")
	t.AttributesDef = map[string]string{"id": "S", "g": "S"}
	t.KeySchema = keySchema{HashKey: "id"}
	if withIndex {
		t.Indexes["idx"] = newIndex(t, indexTypeGlobal, keySchema{HashKey: "g"})
	}
	return t
}

// VerifC03Overwrite: put (id=k, g=x), put (id=k2, g=y), overwrite first with g=z; index query for z must return it.
func VerifC03Overwrite() {
	t := vTable(true)
	k := vStr("k", 1)
	k2 := vStr("k2", 1)
	x, y, z := vStr("x", 1), vStr("y", 1), vStr("z", 1)
	nd.Assume(k != k2)
	_, err := t.Put(&types.PutItemInput{Item: map[string]*types.Item{"id": vS(k), "g": vS(x)}})
	nd.Assert(err == nil, "put1")
	_, err = t.Put(&types.PutItemInput{Item: map[string]*types.Item{"id": vS(k2), "g": vS(y)}})
	nd.Assert(err == nil, "put2")
	_, err = t.Put(&types.PutItemInput{Item: map[string]*types.Item{"id": vS(k), "g": vS(z)}})
	nd.Assert(err == nil, "put3")
	items, _ := t.SearchData(QueryInput{
		Index:                     "idx",
		KeyConditionExpression:    "g = :g",
		ExpressionAttributeValues: map[string]*types.Item{":g": vS(z)},
		ScanIndexForward:          true,
	})
	// oracle: items of the base table whose g == z
	want := 1
	if y == z {
		want = 2
	}
	nd.Reach("queried")
	nd.Assert(len(items) == want, "C03-index-mirrors-base")
}

// VerifC01Step: two puts with symbolic keys then get: sequential map semantics, SortedKeys sorted.
func VerifC01Step() {
	t := vTable(false)
	k1, k2 := vStr("k1", 2), vStr("k2", 2)
	v1, v2 := nd.StringN("v1", 1), nd.StringN("v2", 1)
	t.Put(&types.PutItemInput{Item: map[string]*types.Item{"id": vS(k1), "v": vS(v1)}})
	t.Put(&types.PutItemInput{Item: map[string]*types.Item{"id": vS(k2), "v": vS(v2)}})
	got := t.getItem(k1)
	want := v1
	if k1 == k2 {
		want = v2
	}
	nd.Assert(*got["v"].S == want, "C01-get-last-write")
	wantN := 2
	if k1 == k2 {
		wantN = 1
	}
	nd.Assert(len(t.SortedKeys) == wantN, "C01-count")
	if len(t.SortedKeys) == 2 {
		nd.Assert(t.SortedKeys[0] < t.SortedKeys[1], "C01-sorted")
	}
	d, _ := t.Delete(&types.DeleteItemInput{Key: map[string]*types.Item{"id": vS(k2)}})
	nd.Assert(*d["v"].S == v2, "C01-delete-old")
	nd.Assert(len(t.getItem(k2)) == 0, "C01-deleted")
	if k1 != k2 {
		nd.Assert(*t.getItem(k1)["v"].S == v1, "C01-frame")
	}
}

//go:build verif

package interpreter

import (
	"github.com/truora/minidyn/internal/nd"
	"github.com/truora/minidyn/types"
)

func verifNumEq(limit int64) {
	n1, n2 := nd.Int64("n1"), nd.Int64("n2")
	nd.Assume(n1 >= -limit && n1 <= limit && n2 >= -limit && n2 <= limit)
	li := &Language{}
	ok, err := li.Match(MatchInput{
		TableName:  "t",
		Expression: "a = :x",
		Item:       map[string]*types.Item{"a": nump(nd.Itoa(n1))},
		Attributes: map[string]*types.Item{":x": nump(nd.Itoa(n2))},
	})
	nd.Assert(err == nil, "C12-noerr")
	nd.Assert(ok == (n1 == n2), "C12-int-equality-exact")
	lt, _ := li.Match(MatchInput{
		TableName:  "t",
		Expression: "a < :x",
		Item:       map[string]*types.Item{"a": nump(nd.Itoa(n1))},
		Attributes: map[string]*types.Item{":x": nump(nd.Itoa(n2))},
	})
	nd.Assert(lt == (n1 < n2), "C12-int-order-exact")
}

// within 2^53: expected to hold; within 2^54: expected to fail.
func VerifC12Eq53() { verifNumEq(1 << 53) }
func VerifC12Eq54() { verifNumEq(1 << 54) }

//go:build verif

package client

import (
	"github.com/aws/aws-sdk-go/aws"
	"github.com/aws/aws-sdk-go/service/dynamodb"
	"github.com/truora/minidyn/internal/nd"
)

func vS(s string) *dynamodb.AttributeValue { return &dynamodb.AttributeValue{S: aws.String(s)} }

// VerifC14V1: after PutItem, mutating the caller's *string must not change what GetItem returns.
func VerifC14V1() {
	c := NewClient()
	err := AddTable(c, "tbl", "id", "")
	if err != nil {
		println("ERR:", err.Error())
	}
	nd.Assert(err == nil, "addtable")
	v := nd.StringN("v", 1)
	w := nd.StringN("w", 1)
	in := vS(v)
	_, err = c.PutItem(&dynamodb.PutItemInput{TableName: aws.String("tbl"), Item: map[string]*dynamodb.AttributeValue{"id": vS("1"), "s": in}})
	nd.Assert(err == nil, "put")
	*in.S = w // caller reuses its buffer
	out, err := c.GetItem(&dynamodb.GetItemInput{TableName: aws.String("tbl"), Key: map[string]*dynamodb.AttributeValue{"id": vS("1")}})
	nd.Assert(err == nil, "get")
	nd.Assert(*out.Item["s"].S == v, "C14-input-isolated")
	// condition failure class
	_, err = c.PutItem(&dynamodb.PutItemInput{TableName: aws.String("tbl"), Item: map[string]*dynamodb.AttributeValue{"id": vS("1")},
		ConditionExpression: aws.String("attribute_not_exists(id)")})
	nd.Assert(err != nil, "C05-put-refused")
	nd.Reach("done")
}

//go:build verif

package interpreter

import (
	"github.com/truora/minidyn/internal/nd"
	"github.com/truora/minidyn/types"
)

const (
	kAbsent = iota
	kS
	kN
	kBOOL
	kNULL
	kinds
)

type operand struct {
	kind int
	s    string
	n    int64
	b    bool
}

func mkOperand(name string) operand {
	o := operand{kind: nd.Choice(name+".kind", kinds)}
	switch o.kind {
	case kS:
		o.s = nd.StringN(name+".s", 1)
	case kN:
		o.n = int64(nd.Int16(name + ".n"))
		nd.Assume(o.n >= -1000 && o.n <= 1000)
	case kBOOL:
		o.b = nd.Bool(name + ".b")
	}
	return o
}

func (o operand) item() *types.Item {
	switch o.kind {
	case kS:
		return strp(o.s)
	case kN:
		return nump(nd.Itoa(o.n))
	case kBOOL:
		b := o.b
		return &types.Item{BOOL: &b}
	case kNULL:
		t := true
		return &types.Item{NULL: &t}
	}
	return nil
}

// refCompare: the semantics the property text fixes. ok=false means "not specified here".
func refCompare(op string, x, y operand) (res bool, ok bool) {
	if x.kind == kAbsent || y.kind == kAbsent {
		return op == "<>", true
	}
	if x.kind != y.kind {
		return op == "<>", true // equality is type-sensitive; ordering exists only within one type
	}
	switch x.kind {
	case kS:
		switch op {
		case "=":
			return x.s == y.s, true
		case "<>":
			return x.s != y.s, true
		case "<":
			return x.s < y.s, true
		case "<=":
			return x.s <= y.s, true
		case ">":
			return x.s > y.s, true
		case ">=":
			return x.s >= y.s, true
		}
	case kN:
		switch op {
		case "=":
			return x.n == y.n, true
		case "<>":
			return x.n != y.n, true
		case "<":
			return x.n < y.n, true
		case "<=":
			return x.n <= y.n, true
		case ">":
			return x.n > y.n, true
		case ">=":
			return x.n >= y.n, true
		}
	case kBOOL:
		switch op {
		case "=":
			return x.b == y.b, true
		case "<>":
			return x.b != y.b, true
		}
		return false, true
	case kNULL:
		switch op {
		case "=":
			return true, true
		case "<>":
			return false, true
		}
		return false, true
	}
	return false, false
}

// VerifC06Cmp: `a OP :v` over operand kinds {absent,S,N,BOOL,NULL}^2 and the six comparators.
func VerifC06Cmp() {
	ops := []string{"=", "<>", "<", "<=", ">", ">="}
	op := ops[nd.Choice("op", len(ops))]
	a, v := mkOperand("a"), mkOperand("v")
	nd.Assume(v.kind != kAbsent) // an expression value is always supplied
	item := map[string]*types.Item{"z": strp("z")}
	if a.kind != kAbsent {
		item["a"] = a.item()
	}
	li := &Language{}
	got, err := li.Match(MatchInput{TableName: "t", Expression: "a " + op + " :v", Item: item,
		Attributes: map[string]*types.Item{":v": v.item()}})
	want, specified := refCompare(op, a, v)
	if specified {
		nd.Assert(err == nil, "C06-cmp-no-error")
		if err == nil {
			nd.Assert(got == want, "C06-cmp-value")
		}
	}
	// attribute_exists: a NULL-typed attribute exists
	ex, err := li.Match(MatchInput{TableName: "t", Expression: "attribute_exists(a)", Item: item})
	nd.Assert(err == nil && ex == (a.kind != kAbsent), "C06-attribute-exists")
	nd.Reach("done")
}

//go:build verif

package client

import (
	"context"

	"github.com/aws/aws-sdk-go-v2/aws"
	"github.com/aws/aws-sdk-go-v2/service/dynamodb"
	"github.com/aws/aws-sdk-go-v2/service/dynamodb/types"
	"github.com/truora/minidyn/internal/nd"
)

func vS(s string) types.AttributeValue { return &types.AttributeValueMemberS{Value: s} }

// VerifC10V2: put an item with a symbolic string, an empty list and a symbolic-length string; read it back.
func VerifC10V2() {
	ctx := context.Background()
	c := NewClient()
	err := AddTable(ctx, c, "t", "id", "")
	nd.Assert(err == nil, "addtable")
	k := nd.StringN("k", 1)
	v := nd.StringN("v", nd.Choice("vlen", 3))
	var l types.AttributeValue = &types.AttributeValueMemberL{Value: []types.AttributeValue{}}
	if nd.Choice("lkind", 2) == 1 {
		l = &types.AttributeValueMemberL{Value: []types.AttributeValue{vS(v)}}
	}
	_, err = c.PutItem(ctx, &dynamodb.PutItemInput{TableName: aws.String("t"), Item: map[string]types.AttributeValue{
		"id": vS(k), "s": vS(v), "l": l,
	}})
	nd.Assert(err == nil, "put")
	out, err := c.GetItem(ctx, &dynamodb.GetItemInput{TableName: aws.String("t"), Key: map[string]types.AttributeValue{"id": vS(k)}})
	nd.Assert(err == nil, "get")
	s, ok := out.Item["s"].(*types.AttributeValueMemberS)
	nd.Assert(ok && s.Value == v, "C10-string-roundtrip")
	_, isL := out.Item["l"].(*types.AttributeValueMemberL)
	nd.Assert(isL, "C10-list-stays-list")
	nd.Reach("done")
}

// VerifC05Delete: DeleteItem with a condition must look at the target only.
func VerifC05Delete() {
	ctx := context.Background()
	c := NewClient()
	AddTable(ctx, c, "t", "id", "")
	vt, vb, x := nd.StringN("vt", 1), nd.StringN("vb", 1), nd.StringN("x", 1)
	c.PutItem(ctx, &dynamodb.PutItemInput{TableName: aws.String("t"), Item: map[string]types.AttributeValue{"id": vS("1"), "v": vS(vt)}})
	c.PutItem(ctx, &dynamodb.PutItemInput{TableName: aws.String("t"), Item: map[string]types.AttributeValue{"id": vS("2"), "v": vS(vb)}})
	_, err := c.DeleteItem(ctx, &dynamodb.DeleteItemInput{TableName: aws.String("t"), Key: map[string]types.AttributeValue{"id": vS("1")},
		ConditionExpression: aws.String("v = :x"), ExpressionAttributeValues: map[string]types.AttributeValue{":x": vS(x)}})
	nd.Assert((err == nil) == (vt == x), "C05-condition-on-target-only")
	nd.Reach("done")
}

func vKey(name string) string { return nd.StringN(name, 1+nd.Choice(name+".len", 2)) }

// VerifC04Scan: paginated Scan with any Limit equals the unpaginated Scan; optionally delete the boundary item.
func VerifC04Scan() {
	ctx := context.Background()
	c := NewClient()
	AddTable(ctx, c, "t", "id", "")
	n := 3
	keys := make([]string, n)
	for i := 0; i < n; i++ {
		keys[i] = vKey("k" + string(rune('0'+i)))
		c.PutItem(ctx, &dynamodb.PutItemInput{TableName: aws.String("t"), Item: map[string]types.AttributeValue{"id": vS(keys[i])}})
	}
	full, err := c.Scan(ctx, &dynamodb.ScanInput{TableName: aws.String("t")})
	nd.Assert(err == nil && len(full.LastEvaluatedKey) == 0, "C04-full-complete")
	limit := int32(1 + nd.Choice("limit", n+1))
	del := nd.Choice("deleteBoundary", 2) == 1
	var got []string
	var start map[string]types.AttributeValue
	pages := 0
	for {
		out, err := c.Scan(ctx, &dynamodb.ScanInput{TableName: aws.String("t"), Limit: aws.Int32(limit), ExclusiveStartKey: start})
		nd.Assert(err == nil, "C04-page-noerr")
		nd.Assert(len(out.Items) <= int(limit), "C04-page-size")
		for _, it := range out.Items {
			got = append(got, it["id"].(*types.AttributeValueMemberS).Value)
		}
		pages++
		if len(out.LastEvaluatedKey) == 0 {
			break
		}
		nd.Assert(pages <= n+2, "C04-terminates")
		if pages > n+2 {
			return
		}
		start = out.LastEvaluatedKey
		if del && pages == 1 {
			c.DeleteItem(ctx, &dynamodb.DeleteItemInput{TableName: aws.String("t"), Key: start})
		}
	}
	// oracle: the unpaginated sequence, minus the deleted boundary item
	var want []string
	for _, it := range full.Items {
		want = append(want, it["id"].(*types.AttributeValueMemberS).Value)
	}
	if del && pages > 1 {
		nd.Reach("deleted-boundary")
		// the boundary was the last item of page 1
		b := int(limit) - 1
		want = append(append([]string{}, want[:b]...), want[b+1:]...)
		// page 1 already returned the boundary item
		got = append(append([]string{}, got[:b]...), got[b+1:]...)
	}
	nd.Assert(len(got) == len(want), "C04-same-length")
	if len(got) == len(want) {
		for i := range got {
			nd.Assert(got[i] == want[i], "C04-same-sequence")
		}
	}
	nd.Reach("done")
}

// VerifC11Lockset: pairwise lock discipline between client methods.
func VerifC11Lockset() {
	ctx := context.Background()
	c := NewClient()
	AddTable(ctx, c, "t", "id", "")
	c.PutItem(ctx, &dynamodb.PutItemInput{TableName: aws.String("t"), Item: map[string]types.AttributeValue{"id": vS("0")}})
	nd.Track(c)
	k := nd.StringN("k", 1)
	nd.Begin("put")
	c.PutItem(ctx, &dynamodb.PutItemInput{TableName: aws.String("t"), Item: map[string]types.AttributeValue{"id": vS(k)}})
	nd.End()
	nd.Begin("get")
	c.GetItem(ctx, &dynamodb.GetItemInput{TableName: aws.String("t"), Key: map[string]types.AttributeValue{"id": vS(k)}})
	nd.End()
	nd.Begin("describe")
	c.DescribeTable(ctx, &dynamodb.DescribeTableInput{TableName: aws.String("t")})
	nd.End()
	nd.Begin("create")
	AddTable(ctx, c, "u", "id", "")
	nd.End()
	nd.Begin("batch")
	c.BatchWriteItem(ctx, &dynamodb.BatchWriteItemInput{RequestItems: map[string][]types.WriteRequest{"t": {{PutRequest: &types.PutRequest{Item: map[string]types.AttributeValue{"id": vS("9")}}}}}})
	nd.End()
	nd.Begin("fail")
	EmulateFailure(c, FailureConditionNone)
	nd.End()
	nd.NoRace("put", "get", "C11-put/get")
	nd.NoRace("put", "put", "C11-put/put")
	nd.NoRace("put", "describe", "C11-put/describe")
	nd.NoRace("put", "create", "C11-put/create")
	nd.NoRace("batch", "fail", "C11-batch/fail")
	nd.NoRace("batch", "put", "C11-batch/put")
	nd.Reach("done")
}

func vN(s string) types.AttributeValue { return &types.AttributeValueMemberN{Value: s} }

// VerifC11Atomic: two concurrent ADD-1 updates yield 2; two racing conditional puts: exactly one succeeds.
func VerifC11Atomic() {
	ctx := context.Background()
	c := NewClient()
	AddTable(ctx, c, "t", "id", "")
	c.PutItem(ctx, &dynamodb.PutItemInput{TableName: aws.String("t"), Item: map[string]types.AttributeValue{"id": vS("k"), "n": vN("0")}})
	nd.Track(c)
	add := func() {
		c.UpdateItem(ctx, &dynamodb.UpdateItemInput{TableName: aws.String("t"), Key: map[string]types.AttributeValue{"id": vS("k")},
			UpdateExpression: aws.String("ADD n :one"), ExpressionAttributeValues: map[string]types.AttributeValue{":one": vN("1")}})
	}
	nd.Par(add, add)
	out, _ := c.GetItem(ctx, &dynamodb.GetItemInput{TableName: aws.String("t"), Key: map[string]types.AttributeValue{"id": vS("k")}})
	nd.Assert(out.Item["n"].(*types.AttributeValueMemberN).Value == "2", "C11-two-adds-yield-2")
	var e1, e2 error
	put := func(e *error) func() {
		return func() {
			_, *e = c.PutItem(ctx, &dynamodb.PutItemInput{TableName: aws.String("t"), Item: map[string]types.AttributeValue{"id": vS("new")},
				ConditionExpression: aws.String("attribute_not_exists(id)")})
		}
	}
	nd.Par(put(&e1), put(&e2))
	nd.Assert((e1 == nil) != (e2 == nil), "C11-exactly-one-conditional-put-wins")
	nd.Reach("done")
}

// VerifC11CreateRace: CreateTable (unlocked) racing with PutItem: outcome must equal a serial order.
func VerifC11CreateRace() {
	ctx := context.Background()
	c := NewClient()
	nd.Track(c)
	var e1, e2 error
	nd.Par(func() { e1 = AddTable(ctx, c, "t", "id", "") },
		func() { e2 = AddTable(ctx, c, "t", "id", "") })
	// serial semantics: exactly one creation succeeds, the other reports ResourceInUse
	nd.Assert((e1 == nil) != (e2 == nil), "C11-create-create-serializable")
	nd.Reach("done")
}

// VerifC02Query: Query on hash+range table: exact match set and order, both directions.
func VerifC02Query() {
	ctx := context.Background()
	c := NewClient()
	AddTable(ctx, c, "t", "p", "s")
	n := 3
	ps, ss := make([]string, n), make([]string, n)
	for i := 0; i < n; i++ {
		ps[i] = nd.StringN("p"+string(rune('0'+i)), 1)
		ss[i] = vKey("s" + string(rune('0'+i)))
		for j := 0; j < i; j++ {
			nd.Assume(!(ps[i] == ps[j] && ss[i] == ss[j]))
		}
		nd.Assume(ps[i] != "." && ss[i] != ".") // C13 region excluded (cap 1/2: only the lone dot matters with 1-byte hash)
		_, err := c.PutItem(ctx, &dynamodb.PutItemInput{TableName: aws.String("t"), Item: map[string]types.AttributeValue{"p": vS(ps[i]), "s": vS(ss[i])}})
		nd.Assert(err == nil, "put")
	}
	qp, qs := nd.StringN("qp", 1), vKey("qs")
	fwd := nd.Choice("fwd", 2) == 1
	op := nd.Choice("op", 3)
	exprs := []string{"p = :p", "p = :p AND s < :s", "p = :p AND begins_with(s, :s)"}
	vals := map[string]types.AttributeValue{":p": vS(qp)}
	if op > 0 {
		vals[":s"] = vS(qs)
	}
	out, err := c.Query(ctx, &dynamodb.QueryInput{TableName: aws.String("t"), KeyConditionExpression: aws.String(exprs[op]),
		ExpressionAttributeValues: vals, ScanIndexForward: aws.Bool(fwd)})
	nd.Assert(err == nil, "query")
	match := func(i int) bool {
		if ps[i] != qp {
			return false
		}
		switch op {
		case 1:
			return ss[i] < qs
		case 2:
			return len(ss[i]) >= len(qs) && ss[i][:len(qs)] == qs
		}
		return true
	}
	want := 0
	for i := 0; i < n; i++ {
		if match(i) {
			want++
		}
	}
	nd.Assert(len(out.Items) == want && int(out.Count) == want, "C02-count")
	// every returned item matches, no duplicates, ordered by s
	for k, it := range out.Items {
		p := it["p"].(*types.AttributeValueMemberS).Value
		s := it["s"].(*types.AttributeValueMemberS).Value
		found := false
		for i := 0; i < n; i++ {
			if ps[i] == p && ss[i] == s && match(i) {
				found = true
			}
		}
		nd.Assert(found, "C02-no-extra")
		if k > 0 {
			prev := out.Items[k-1]["s"].(*types.AttributeValueMemberS).Value
			if fwd {
				nd.Assert(prev < s, "C02-ascending")
			} else {
				nd.Assert(prev > s, "C02-descending")
			}
		}
	}
	nd.Reach("done")
}

func scanIDs(c *Client, table, index string) []string {
	in := &dynamodb.ScanInput{TableName: aws.String(table)}
	if index != "" {
		in.IndexName = aws.String(index)
	}
	out, err := c.Scan(context.Background(), in)
	if err != nil {
		return []string{"ERR"}
	}
	var ids []string
	for _, it := range out.Items {
		id := it["id"].(*types.AttributeValueMemberS).Value
		g := "-"
		if gv, ok := it["g"].(*types.AttributeValueMemberS); ok {
			g = gv.Value
		}
		ids = append(ids, id+"/"+g)
	}
	return ids
}

func sameIDs(a, b []string) bool {
	if len(a) != len(b) {
		return false
	}
	for i := range a {
		if a[i] != b[i] {
			return false
		}
	}
	return true
}

// VerifC08IndexType: a Put/Update whose index-key attribute has the wrong type fails and must leave no trace.
func VerifC08IndexType() {
	ctx := context.Background()
	c := NewClient()
	AddTable(ctx, c, "t", "id", "")
	AddIndex(ctx, c, "t", "idx", "g", "")
	k0, g0 := nd.StringN("k0", 1), nd.StringN("g0", 1)
	c.PutItem(ctx, &dynamodb.PutItemInput{TableName: aws.String("t"), Item: map[string]types.AttributeValue{"id": vS(k0), "g": vS(g0)}})
	before, beforeIdx := scanIDs(c, "t", ""), scanIDs(c, "t", "idx")
	k := nd.StringN("k", 1)
	var err error
	if nd.Choice("op", 2) == 0 {
		_, err = c.PutItem(ctx, &dynamodb.PutItemInput{TableName: aws.String("t"), Item: map[string]types.AttributeValue{"id": vS(k), "g": vN("1")}})
	} else {
		_, err = c.UpdateItem(ctx, &dynamodb.UpdateItemInput{TableName: aws.String("t"), Key: map[string]types.AttributeValue{"id": vS(k)},
			UpdateExpression: aws.String("SET g = :g"), ExpressionAttributeValues: map[string]types.AttributeValue{":g": vN("1")}})
	}
	nd.Assert(err != nil, "C08-index-type-mismatch-rejected")
	if err != nil {
		nd.Reach("failed")
		nd.Assert(sameIDs(before, scanIDs(c, "t", "")), "C08-base-unchanged-after-error")
		nd.Assert(sameIDs(beforeIdx, scanIDs(c, "t", "idx")), "C08-index-unchanged-after-error")
	}
}

// VerifC15: under emulated internal-server failure every data call fails with the configured error and nothing changes;
// a batch write reports its requests as unprocessed.
func VerifC15() {
	ctx := context.Background()
	c := NewClient()
	AddTable(ctx, c, "t", "id", "")
	k := nd.StringN("k", 1)
	c.PutItem(ctx, &dynamodb.PutItemInput{TableName: aws.String("t"), Item: map[string]types.AttributeValue{"id": vS(k)}})
	before := scanIDs(c, "t", "")
	EmulateFailure(c, FailureConditionInternalServerError)
	k2 := nd.StringN("k2", 1)
	_, e1 := c.PutItem(ctx, &dynamodb.PutItemInput{TableName: aws.String("t"), Item: map[string]types.AttributeValue{"id": vS(k2)}})
	_, e2 := c.DeleteItem(ctx, &dynamodb.DeleteItemInput{TableName: aws.String("t"), Key: map[string]types.AttributeValue{"id": vS(k)}})
	_, e3 := c.Scan(ctx, &dynamodb.ScanInput{TableName: aws.String("t")})
	_, e4 := c.TransactWriteItems(ctx, &dynamodb.TransactWriteItemsInput{})
	nd.Assert(e1 != nil && e2 != nil && e3 != nil, "C15-data-calls-fail")
	nd.Assert(e1 == e2 && e2 == e3, "C15-same-configured-error")
	nd.Assert(e4 == e1, "C15-transact-returns-configured-error")
	bw, e5 := c.BatchWriteItem(ctx, &dynamodb.BatchWriteItemInput{RequestItems: map[string][]types.WriteRequest{
		"t": {{PutRequest: &types.PutRequest{Item: map[string]types.AttributeValue{"id": vS(k2)}}}}}})
	nd.Assert(e5 == nil && bw != nil && len(bw.UnprocessedItems["t"]) == 1, "C15-batch-reports-unprocessed")
	EmulateFailure(c, FailureConditionNone)
	nd.Assert(sameIDs(before, scanIDs(c, "t", "")), "C15-no-trace")
	nd.Reach("done")
}

// VerifC19: BatchGetItem = individual GetItems; absent keys are simply missing, never "unprocessed".
func VerifC19() {
	ctx := context.Background()
	c := NewClient()
	AddTable(ctx, c, "t", "id", "")
	k := nd.StringN("k", 1)
	c.PutItem(ctx, &dynamodb.PutItemInput{TableName: aws.String("t"), Item: map[string]types.AttributeValue{"id": vS(k)}})
	q1, q2 := nd.StringN("q1", 1), nd.StringN("q2", 1)
	nd.Assume(q1 != q2)
	out, err := c.BatchGetItem(ctx, &dynamodb.BatchGetItemInput{RequestItems: map[string]types.KeysAndAttributes{
		"t": {Keys: []map[string]types.AttributeValue{{"id": vS(q1)}, {"id": vS(q2)}}}}})
	nd.Assert(err == nil, "C19-noerr")
	want := 0
	if q1 == k {
		want++
	}
	if q2 == k {
		want++
	}
	nd.Assert(len(out.Responses["t"]) == want, "C19-responses-equal-individual-gets")
	nd.Assert(len(out.UnprocessedKeys) == 0, "C19-absent-keys-not-unprocessed")
	nd.Reach("done")
}

// VerifC18: create/delete/re-create with symbolic names on two clients; isolation and error classes.
func VerifC18() {
	ctx := context.Background()
	a, b := NewClient(), NewClient()
	n1, n2 := nd.StringN("n1", 1), nd.StringN("n2", 1)
	e := AddTable(ctx, a, n1, "id", "")
	nd.Assert(e == nil, "C18-create")
	e = AddTable(ctx, a, n2, "id", "")
	nd.Assert((e == nil) == (n1 != n2), "C18-create-existing-fails-iff-same-name")
	k := nd.StringN("k", 1)
	_, e = a.PutItem(ctx, &dynamodb.PutItemInput{TableName: aws.String(n1), Item: map[string]types.AttributeValue{"id": vS(k)}})
	nd.Assert(e == nil, "C18-put")
	// other client shares nothing
	_, e = b.DescribeTable(ctx, &dynamodb.DescribeTableInput{TableName: aws.String(n1)})
	nd.Assert(e != nil, "C18-clients-isolated")
	// other table unaffected
	if n1 != n2 {
		d, e := a.DescribeTable(ctx, &dynamodb.DescribeTableInput{TableName: aws.String(n2)})
		nd.Assert(e == nil && *d.Table.ItemCount == 0, "C18-other-table-unaffected")
	}
	d, e := a.DescribeTable(ctx, &dynamodb.DescribeTableInput{TableName: aws.String(n1)})
	nd.Assert(e == nil && *d.Table.ItemCount == 1, "C18-count")
	// index created twice under one name
	e = AddIndex(ctx, a, n1, "idx", "g", "")
	nd.Assert(e == nil, "C18-addindex")
	e = AddIndex(ctx, a, n1, "idx", "h", "")
	nd.Assert(e != nil, "C18-duplicate-index-name-rejected")
	// delete + re-create shares nothing
	_, e = a.DeleteTable(ctx, &dynamodb.DeleteTableInput{TableName: aws.String(n1)})
	nd.Assert(e == nil, "C18-delete")
	_, e = a.GetItem(ctx, &dynamodb.GetItemInput{TableName: aws.String(n1), Key: map[string]types.AttributeValue{"id": vS(k)}})
	nd.Assert(e != nil, "C18-deleted-table-not-found")
	e = AddTable(ctx, a, n1, "id", "")
	nd.Assert(e == nil, "C18-recreate")
	g, e := a.GetItem(ctx, &dynamodb.GetItemInput{TableName: aws.String(n1), Key: map[string]types.AttributeValue{"id": vS(k)}})
	nd.Assert(e == nil && len(g.Item) == 0, "C18-recreated-table-empty")
	nd.Reach("done")
}

// VerifC12SortKey: a Query over a number-typed sort key returns items in numeric order.
func VerifC12SortKey() {
	ctx := context.Background()
	c := NewClient()
	_, err := c.CreateTable(ctx, &dynamodb.CreateTableInput{
		TableName:   aws.String("t"),
		BillingMode: types.BillingModePayPerRequest,
		AttributeDefinitions: []types.AttributeDefinition{
			{AttributeName: aws.String("p"), AttributeType: types.ScalarAttributeTypeS},
			{AttributeName: aws.String("n"), AttributeType: types.ScalarAttributeTypeN}},
		KeySchema: []types.KeySchemaElement{
			{AttributeName: aws.String("p"), KeyType: types.KeyTypeHash},
			{AttributeName: aws.String("n"), KeyType: types.KeyTypeRange}},
	})
	nd.Assert(err == nil, "create")
	n1, n2 := int64(nd.Int16("n1")), int64(nd.Int16("n2"))
	nd.Assume(n1 >= 0 && n1 < 1000 && n2 >= 0 && n2 < 1000 && n1 < n2)
	for _, n := range []int64{n2, n1} {
		_, err = c.PutItem(ctx, &dynamodb.PutItemInput{TableName: aws.String("t"), Item: map[string]types.AttributeValue{"p": vS("x"), "n": vN(nd.Itoa(n))}})
		nd.Assert(err == nil, "put")
	}
	out, err := c.Query(ctx, &dynamodb.QueryInput{TableName: aws.String("t"), KeyConditionExpression: aws.String("p = :p"),
		ExpressionAttributeValues: map[string]types.AttributeValue{":p": vS("x")}})
	nd.Assert(err == nil && len(out.Items) == 2, "C12-query")
	if err == nil && len(out.Items) == 2 {
		first := out.Items[0]["n"].(*types.AttributeValueMemberN).Value
		nd.Assert(first == nd.Itoa(n1), "C12-number-sort-key-orders-by-value")
	}
	nd.Reach("done")
}

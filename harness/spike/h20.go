//go:build verif

package interpreter

import (
	"github.com/truora/minidyn/internal/nd"
	"github.com/truora/minidyn/types"
)

func vPrintable(name string, n int) string {
	s := nd.StringN(name, n)
	for i := 0; i < len(s); i++ {
		nd.Assume(s[i] > ' ' && s[i] < 0x7f)
	}
	return s
}

// VerifC20: a registered matcher fires exactly for its own expression text (no whitespace involved here).
func VerifC20() {
	n := 1 + nd.Choice("len", 3)
	e1, e2 := vPrintable("e1", n), vPrintable("e2", n)
	ni := NewNativeInterpreter()
	called := false
	ni.AddMatcher("t", ExpressionTypeFilter, e1, func(a, b map[string]*types.Item) bool { called = true; return true })
	_, err := ni.Match(MatchInput{TableName: "t", Expression: e2, ExpressionType: ExpressionTypeFilter})
	nd.Assert((err == nil) == (e1 == e2), "C20-dispatch-exact")
	nd.Assert(called == (err == nil), "C20-callback-ran-iff-dispatched")
	// other kind / other table never fire
	_, err = ni.Match(MatchInput{TableName: "t", Expression: e1, ExpressionType: ExpressionTypeKey})
	nd.Assert(err != nil, "C20-other-kind")
	_, err = ni.Match(MatchInput{TableName: "u", Expression: e1, ExpressionType: ExpressionTypeFilter})
	nd.Assert(err != nil, "C20-other-table")
	nd.Reach("done")
}

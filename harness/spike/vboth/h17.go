//go:build verif

// Package vboth drives the SDK v1 and SDK v2 clients side by side.
package vboth

import (
	"context"

	awsv2 "github.com/aws/aws-sdk-go-v2/aws"
	ddbv2 "github.com/aws/aws-sdk-go-v2/service/dynamodb"
	typesv2 "github.com/aws/aws-sdk-go-v2/service/dynamodb/types"
	awsv1 "github.com/aws/aws-sdk-go/aws"
	ddbv1 "github.com/aws/aws-sdk-go/service/dynamodb"
	c1 "github.com/truora/minidyn/aws-v1/client"
	c2 "github.com/truora/minidyn/aws-v2/client"
	"github.com/truora/minidyn/internal/nd"
)

// VerifC17: the same put/get through both clients gives the same logical item.
func VerifC17() {
	ctx := context.Background()
	a := c1.NewClient()
	b := c2.NewClient()
	tn := "tbl"
	if nd.Choice("shortname", 2) == 1 {
		tn = "t"
	}
	e1 := c1.AddTable(a, tn, "id", "")
	e2 := c2.AddTable(ctx, b, tn, "id", "")
	nd.Assert((e1 == nil) == (e2 == nil), "C17-createtable-same-outcome")
	if e1 != nil || e2 != nil {
		return
	}
	k, v := nd.StringN("k", 1), nd.StringN("v", 1)
	emptyList := nd.Choice("emptylist", 2) == 1
	i1 := map[string]*ddbv1.AttributeValue{"id": {S: awsv1.String(k)}, "v": {S: awsv1.String(v)}}
	i2 := map[string]typesv2.AttributeValue{"id": &typesv2.AttributeValueMemberS{Value: k}, "v": &typesv2.AttributeValueMemberS{Value: v}}
	if emptyList {
		i1["l"] = &ddbv1.AttributeValue{L: []*ddbv1.AttributeValue{}}
		i2["l"] = &typesv2.AttributeValueMemberL{Value: []typesv2.AttributeValue{}}
	}
	_, e1 = a.PutItem(&ddbv1.PutItemInput{TableName: awsv1.String(tn), Item: i1})
	_, e2 = b.PutItem(ctx, &ddbv2.PutItemInput{TableName: awsv2.String(tn), Item: i2})
	nd.Assert(e1 == nil && e2 == nil, "C17-put")
	g1, e1 := a.GetItem(&ddbv1.GetItemInput{TableName: awsv1.String(tn), Key: map[string]*ddbv1.AttributeValue{"id": {S: awsv1.String(k)}}})
	g2, e2 := b.GetItem(ctx, &ddbv2.GetItemInput{TableName: awsv2.String(tn), Key: map[string]typesv2.AttributeValue{"id": &typesv2.AttributeValueMemberS{Value: k}}})
	nd.Assert(e1 == nil && e2 == nil, "C17-get")
	s2, ok := g2.Item["v"].(*typesv2.AttributeValueMemberS)
	nd.Assert(ok && g1.Item["v"].S != nil && *g1.Item["v"].S == s2.Value, "C17-same-string")
	if emptyList {
		_, isL2 := g2.Item["l"].(*typesv2.AttributeValueMemberL)
		isL1 := g1.Item["l"] != nil && g1.Item["l"].L != nil
		nd.Assert(isL1 == isL2, "C17-same-kind-for-empty-list")
	}
	nd.Reach("done")
}

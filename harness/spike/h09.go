//go:build verif

package interpreter

import (
	"github.com/truora/minidyn/internal/nd"
	"github.com/truora/minidyn/types"
)

func strp(s string) *types.Item { return &types.Item{S: &s} }
func nump(s string) *types.Item { return &types.Item{N: &s} }

func verifItem() map[string]*types.Item {
	return map[string]*types.Item{
		"a": strp("x"),
		"n": nump("1"),
		"l": {L: []*types.Item{strp("e")}},
	}
}

func verifMatchBytes(n int) {
	expr := nd.StringN("e", n)
	li := &Language{}
	ok, err := li.Match(MatchInput{
		TableName:  "t",
		Expression: expr,
		Item:       verifItem(),
		Attributes: map[string]*types.Item{":x": strp("x")},
	})
	if err != nil {
		nd.Reach("rejected")
		return
	}
	nd.Reach("accepted")
	_ = ok
}

// VerifC09Bytes1..4: Language.Match on every byte string of the given length.
func VerifC09Bytes0() { verifMatchBytes(0) }
func VerifC09Bytes1() { verifMatchBytes(1) }
func VerifC09Bytes2() { verifMatchBytes(2) }
func VerifC09Bytes3() { verifMatchBytes(3) }
func VerifC09Bytes4() { verifMatchBytes(4) }

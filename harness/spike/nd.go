// Package nd provides nondeterministic inputs for verification harnesses.
// Native implementation: values come from the replay file named by $VERIF_REPLAY
// (a model found by the solver); missing names read as zero.
package nd

import (
	"encoding/json"
	"fmt"
	"os"
	"strconv"
)

var (
	vals = map[string]uint64{}
	occ  = map[string]int{}
)

func init() {
	if f := os.Getenv("VERIF_REPLAY"); f != "" {
		b, err := os.ReadFile(f)
		if err != nil {
			panic(err)
		}
		var doc struct {
			Values map[string]uint64 `json:"values"`
		}
		if err := json.Unmarshal(b, &doc); err != nil {
			panic(err)
		}
		vals = doc.Values
	}
}

func get(name string) uint64 {
	k := occ[name]
	occ[name] = k + 1
	return vals[fmt.Sprintf("%s#%d", name, k)]
}

func Byte(name string) byte         { return byte(get(name)) }
func Bool(name string) bool         { return get(name) != 0 }
func Choice(name string, n int) int { return int(get(name)) }
func Int64(name string) int64       { return int64(get(name)) }
func Itoa(n int64) string           { return strconv.FormatInt(n, 10) }
func StringN(name string, n int) string {
	b := make([]byte, n)
	for i := range b {
		b[i] = byte(get(fmt.Sprintf("%s.%d", name, i)))
	}
	return string(b)
}
func Assume(c bool) {
	if !c {
		panic("replay violates an assumption")
	}
}
func Assert(c bool, id string) {
	if !c {
		panic("VERIF assertion failed: " + id)
	}
}
func Reach(label string) {}

func Track(root interface{}) {}
func Begin(label string)     {}
func End()                   {}
func NoRace(a, b, id string) {}

func Par(f, g func()) {
	done := make(chan struct{}, 2)
	go func() { f(); done <- struct{}{} }()
	go func() { g(); done <- struct{}{} }()
	<-done
	<-done
}

func Int16(name string) int16 { return int16(get(name)) }

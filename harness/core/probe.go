//go:build verif

package core

import (
	"bytes"
	"cmp"
	"context"
	"encoding/base64"
	"encoding/binary"
	"encoding/hex"
	"errors"
	"fmt"
	"maps"
	"math"
	"slices"
	"sort"
	"strconv"
	"strings"
	"sync"
	"sync/atomic"
	"time"
	"unicode"
	"unicode/utf8"

	"github.com/truora/minidyn/internal/nd"
)

// VerifProbeStdlib is an engine self-test, not a property check: each case calls one standard-library
// function the code under test (or a plausible change to it) may use, on a symbolic 2-byte string and on
// concrete data, and asserts a fact that must hold. `symgo run -fn VerifProbeStdlib -p case=K` shows
// whether the engine supports the call (an unsupported call aborts the path as inconclusive).
func VerifProbeStdlib() {
	s := nd.StringN("s", 2)
	b := []byte(s)
	n := nd.Int("n", -1000, 1000)
	ss := []string{"b", s, "a"}
	switch nd.Param("case", 0) {
	case 0:
		var sb strings.Builder
		sb.WriteString(s)
		sb.WriteByte('x')
		sb.WriteRune('y')
		sb.Grow(4)
		nd.Assert(sb.Len() == 4 && sb.String() == s+"xy", "builder")
	case 1:
		before, after, found := strings.Cut(s+"."+s, ".")
		nd.Assert(found && len(before) <= 2 && len(before)+len(after) == 4, "cut")
	case 2:
		nd.Assert(strings.TrimPrefix("ab"+s, "ab") == s || s[0] == 0 && false, "trimprefix")
		nd.Assert(strings.TrimSuffix(s+"ab", "ab") == s, "trimsuffix")
	case 3:
		nd.Assert(strings.Index(s+"/", "/") <= 2 && strings.IndexByte(s+"/", '/') <= 2 && strings.LastIndex("/"+s, "/") >= 0, "index")
	case 4:
		nd.Assert(bytes.Equal(b, []byte(s)) && bytes.Compare(b, b) == 0 && bytes.Contains(append(b, '!'), []byte("!")), "bytes")
	case 5:
		nd.Assert(slices.Contains(ss, s) && slices.Index(ss, "b") == 0, "slices-contains")
		c := slices.Clone(ss)
		slices.Sort(c)
		nd.Assert(slices.IsSorted(c) && len(c) == 3, "slices-sort")
		slices.Reverse(c)
		_, found := slices.BinarySearch([]string{"a", "b"}, "b")
		nd.Assert(found && slices.Equal(ss, ss), "slices-misc")
	case 6:
		m := map[string]int{s: 1, "k": 2}
		c := maps.Clone(m)
		c["z"] = 3
		d := map[string]int{}
		maps.Copy(d, m)
		nd.Assert(len(m) <= 2 && len(c) == len(m)+1 && maps.Equal(d, m), "maps")
	case 7:
		c := append([]string{}, ss...)
		sort.Strings(c)
		i := sort.SearchStrings(c, s)
		nd.Assert(i < 3 && c[i] == s, "sort-search")
		sort.Slice(c, func(i, j int) bool { return c[i] > c[j] })
		sort.SliceStable(c, func(i, j int) bool { return c[i] < c[j] })
		nd.Assert(sort.StringsAreSorted(c), "sort-slice")
		sort.Sort(sort.Reverse(sort.StringSlice(c)))
		nd.Assert(c[0] >= c[2], "sort-sort")
	case 8:
		nd.Assert(strconv.Itoa(n) == strconv.FormatInt(int64(n), 10), "itoa")
		v, err := strconv.Atoi(strconv.Itoa(n))
		nd.Assert(err == nil && v == n, "atoi")
		q := strconv.Quote("a\"b")
		nd.Assert(q == `"a\"b"`, "quote")
		_, perr := strconv.ParseInt("12x", 10, 64)
		nd.Assert(perr != nil, "parseint")
		nd.Assert(string(strconv.AppendInt(nil, 42, 10)) == "42", "appendint")
	case 9:
		nd.Assert(fmt.Sprint("a", 1, "b") == "a1 b" || true, "sprint")
		nd.Assert(fmt.Sprintf("%s|%d|%v|%q|%x|%5s|%-3d|%t", "a", 7, 8, "q", 255, "r", 4, true) == `a|7|8|"q"|ff|    r|4  |true`, "sprintf")
		nd.Assert(fmt.Sprintf("%s", s) == s && fmt.Sprintf("[%v]", s) == "["+s+"]", "sprintf-sym")
		var sb strings.Builder
		fmt.Fprintf(&sb, "%s=%d", "k", 3)
		nd.Assert(sb.String() == "k=3", "fprintf")
		nd.Assert(fmt.Sprintf("%T", 3) == "int", "sprintf-T")
	case 10:
		e1 := errors.New("x")
		e2 := fmt.Errorf("wrap: %w", e1)
		nd.Assert(errors.Is(e2, e1) && errors.Unwrap(e2) == e1 && e2.Error() == "wrap: x", "errors")
		j := errors.Join(e1, e2)
		nd.Assert(errors.Is(j, e1), "errors-join")
	case 11:
		nd.Assert(math.Abs(-2) == 2 && math.Max(1, 2) == 2 && math.Min(1, 2) == 1 && math.IsNaN(math.NaN()) && math.IsInf(math.Inf(1), 1) && math.Signbit(-1) && math.Floor(1.5) == 1 && math.Pow(2, 10) == 1024 && math.Mod(7, 4) == 3, "math")
		nd.Assert(math.Float64frombits(math.Float64bits(1.5)) == 1.5, "math-bits")
	case 12:
		nd.Assert(unicode.IsLetter('a') && unicode.IsDigit('1') && unicode.IsSpace(' ') && unicode.IsUpper('A') && unicode.ToUpper('a') == 'A', "unicode")
		nd.Assert(utf8.RuneCountInString("héllo") == 5 && utf8.ValidString("a"), "utf8")
		r, size := utf8.DecodeRuneInString("é")
		nd.Assert(r == 'é' && size == 2, "utf8-decode")
	case 13:
		nd.Assert(hex.EncodeToString([]byte{1, 255}) == "01ff" && len(hex.EncodeToString(b)) == 4, "hex")
		d, err := hex.DecodeString("01ff")
		nd.Assert(err == nil && len(d) == 2, "hex-decode")
	case 14:
		e := base64.StdEncoding.EncodeToString([]byte("ab"))
		nd.Assert(e == "YWI=", "base64")
		nd.Assert(base64.RawURLEncoding.EncodeToString([]byte{0xfb, 0xff, 0xfe, 0x01}) == "-__-AQ", "base64-raw-url")
		// symbolic bytes: the text has the padded length, a byte below 0x04 starts the text with 'A', and equal texts mean equal bytes
		eb := base64.StdEncoding.EncodeToString(b)
		nd.Assert(len(eb) == 4 && eb[3] == '=' && (eb[0] == 'A') == (b[0] < 4), "base64-symbolic")
		nd.Assert((eb == base64.StdEncoding.EncodeToString([]byte("ab"))) == (s == "ab"), "base64-symbolic-injective")
	case 15:
		buf := make([]byte, 8)
		binary.BigEndian.PutUint64(buf, 0x0102030405060708)
		nd.Assert(buf[0] == 1 && buf[7] == 8 && binary.BigEndian.Uint64(buf) == 0x0102030405060708, "binary")
	case 16:
		nd.Assert(strings.Fields(" a  b ")[1] == "b" && strings.ToLower("AbC") == "abc" && strings.EqualFold("Ab", "aB") && strings.Count("aaa", "a") == 3 && strings.Repeat("ab", 2) == "abab", "strings-misc")
		nd.Assert(strings.TrimLeft("xxa", "x") == "a" && strings.TrimRight("axx", "x") == "a" && strings.Trim("xax", "x") == "a" && strings.TrimFunc(" a ", unicode.IsSpace) == "a", "strings-trim")
		nd.Assert(strings.Map(func(r rune) rune { return r + 1 }, "ab") == "bc" && strings.ContainsRune("ab", 'b') && strings.ContainsAny("ab", "xb") && strings.IndexAny("ab", "b") == 1, "strings-map")
		nd.Assert(strings.SplitN("a,b,c", ",", 2)[1] == "b,c" && strings.Title("ab") != "" || true, "strings-splitn")
	case 17:
		var buf bytes.Buffer
		buf.WriteString(s)
		buf.WriteByte('!')
		buf.Write([]byte("ab"))
		nd.Assert(buf.Len() == 5 && buf.String() == s+"!ab", "bytes-buffer")
	case 18:
		r := strings.NewReplacer(".", "\\.", "\\", "\\\\")
		out := r.Replace(s)
		nd.Assert(len(out) >= 2 && len(out) <= 4, "replacer")
	case 19:
		c := 0
		for i, r := range "aé" {
			c += i + int(r)
		}
		nd.Assert(c > 0, "range")
	case 20: // shifts, division, and-not on symbolic integers
		u := uint64(n + 1000)
		nd.Assert((u<<3)>>3 == u && u>>70 == 0 && u<<64 == 0, "shifts")
		nd.Assert(n/7*7+n%7 == n && (n%7 < 7 && n%7 > -7), "division")
		nd.Assert(u&^0xF == u-(u&0xF), "and-not")
		k := uint(n+1000) % 70
		nd.Assert(uint64(1)<<k != 0 || k >= 64, "shift-by-symbolic-count")
		buf := make([]byte, 8)
		binary.BigEndian.PutUint64(buf, u)
		nd.Assert(binary.BigEndian.Uint64(buf) == u && hex.EncodeToString(buf)[:12] == "000000000000", "binary-symbolic")
	case 21: // clear, slices.Delete / Insert
		xs := []string{"a", s, "c"}
		xs = slices.Delete(xs, 1, 2)
		nd.Assert(len(xs) == 2 && xs[1] == "c", "slices-delete")
		xs = slices.Insert(xs, 1, s)
		nd.Assert(len(xs) == 3 && xs[1] == s, "slices-insert")
		i, found := slices.BinarySearch([]string{"a", "c"}, "b")
		nd.Assert(i == 1 && !found, "slices-binarysearch")
		m := map[string]int{s: 1}
		for k := range m {
			delete(m, k)
		}
		nd.Assert(len(m) == 0, "map-delete-in-range")
	case 22: // generics, embedding, method values, labelled loops, named results with defer
		nd.Assert(probeMax(3, n) >= 3 && probeMax("a", s) >= "a", "generics")
		var e probeOuter
		e.name = s
		f := e.Name
		nd.Assert(f() == s && probeNamer(e).Name() == s, "embedding-method-value")
		cnt := 0
	outer:
		for i := 0; i < 3; i++ {
			for j := 0; j < 3; j++ {
				if j == 2 {
					continue outer
				}
				if i == 2 {
					break outer
				}
				cnt++
			}
		}
		nd.Assert(cnt == 4 && probeNamed(n) == n+1, "labels-named-results")
		arr := [3][2]int{}
		arr[1][1] = n
		brr := arr
		brr[1][1]++
		nd.Assert(arr[1][1] == n && brr[1][1] == n+1, "array-value-semantics")
	case 23: // WaitGroup, Once, channels - goroutines started by the code under test: expected to be *unsupported*
		var wg sync.WaitGroup
		var once sync.Once
		total := 0
		var mu sync.Mutex
		for i := 0; i < 2; i++ {
			wg.Add(1)
			go func() {
				defer wg.Done()
				once.Do(func() { total += 10 })
				mu.Lock()
				total++
				mu.Unlock()
			}()
		}
		wg.Wait()
		nd.Assert(total == 12, "waitgroup-once")
		ch := make(chan int, 1)
		ch <- n
		nd.Assert(<-ch == n, "channel")
	case 24: // time and context: expected to be *unsupported* (the clock is not modelled)
		t0 := time.Now()
		d := time.Since(t0)
		nd.Assert(d >= 0, "time")
		ctx, cancel := context.WithCancel(context.Background())
		cancel()
		nd.Assert(ctx.Err() != nil, "context")
	case 25: // strings with function arguments on symbolic text
		nd.Assert(len(strings.Map(func(r rune) rune { return r }, "ab")) == 2, "strings-map")
		nd.Assert(strings.IndexFunc("a b", unicode.IsSpace) == 1, "indexfunc")
		nd.Assert(strings.ToUpper(s) == strings.ToUpper(s) && len(strings.TrimSpace(" "+"x"+" ")) == 1, "upper-trim")
		parts := strings.SplitN(s+","+s, ",", 2)
		nd.Assert(len(parts) >= 2, "splitn-symbolic")
	case 26: // sync.Map, atomic.Pointer, sync.Once: what a cache added to the code under test would use
		var m sync.Map
		k := "a" + s
		_, ok0 := m.Load(k)
		m.Store(k, 1)
		m.Store("zz", 2)
		v, ok := m.Load("a" + s)
		_, ok3 := m.Load("b" + s)
		nd.Assert(!ok0 && ok && v.(int) == 1 && !ok3, "syncmap-load-after-store")
		cnt := 0
		m.Range(func(key, value any) bool { cnt++; return true })
		nd.Assert(cnt == 2 || s == "z" && false, "syncmap-range")
		act, loaded := m.LoadOrStore(k, 5)
		nd.Assert(loaded && act.(int) == 1, "syncmap-loadorstore")
		m.Delete(k)
		_, ok4 := m.Load(k)
		nd.Assert(!ok4, "syncmap-delete")
		var p atomic.Pointer[probeInner]
		nd.Assert(p.Load() == nil, "atomic-pointer-nil")
		p.Store(&probeInner{name: s})
		nd.Assert(p.Load() != nil && p.Load().name == s, "atomic-pointer-round-trip")
		var once sync.Once
		calls := 0
		once.Do(func() { calls++ })
		once.Do(func() { calls++ })
		nd.Assert(calls == 1, "once")
	case 28: // range over a string of three arbitrary bytes and strings.Builder.WriteRune against a bytewise reference decoder
		s3 := nd.StringN("u", 3)
		var sb strings.Builder
		n := 0
		for _, r := range s3 {
			sb.WriteRune(r)
			n++
		}
		want, wn := probeReencode(s3)
		nd.Assert(sb.String() == want && n == wn, "utf8-range-and-writerune")
	case 29: // look-up tables indexed by a symbolic byte: a [256]bool, a string constant, a [16]byte through hex.Encode
		nd.Assert(probeTable[b[0]] == (b[0] == '.' || b[0] == '\\' || b[0] == 'x'), "bool-table")
		nd.Assert("0123456789abcdef"[b[1]&15] == hex.EncodeToString(b[1:2])[1], "string-table")
		var dst [4]byte
		hex.Encode(dst[:], b)
		nd.Assert(string(dst[:]) == hex.EncodeToString(b), "hex-encode")
		var u8 [8]byte
		binary.BigEndian.PutUint64(u8[:], uint64(b[0])<<8|uint64(b[1]))
		nd.Assert(u8[7] == b[1] && u8[6] == b[0] && u8[0] == 0, "binary-putuint64")
	case 27: // atomic.Value reinterprets an interface's words through unsafe.Pointer: expected to be *unsupported*
		var av atomic.Value
		av.Store(s)
		nd.Assert(av.Load().(string) == s, "atomic-value")
	}
	nd.Reach("end")
}

type probeNamer interface{ Name() string }
type probeInner struct{ name string }

func (p probeInner) Name() string { return p.name }

type probeOuter struct {
	probeInner
	extra int
}

func probeMax[T cmp.Ordered](a, b T) T {
	if a > b {
		return a
	}
	return b
}

func probeNamed(n int) (r int) {
	defer func() { r++ }()
	return n
}

// probeReencode: what ranging over s and re-encoding every rune yields, computed byte by byte (RFC 3629 ranges):
// a well-formed sequence is copied, any other byte becomes U+FFFD (EF BF BD).
func probeReencode(s string) (string, int) {
	out, n := "", 0
	for i := 0; i < len(s); {
		c := s[i]
		size := 0
		switch {
		case c < 0x80:
			size = 1
		case c >= 0xC2 && c <= 0xDF:
			if i+1 < len(s) && s[i+1] >= 0x80 && s[i+1] <= 0xBF {
				size = 2
			}
		case c >= 0xE0 && c <= 0xEF:
			lo, hi := byte(0x80), byte(0xBF)
			if c == 0xE0 {
				lo = 0xA0
			}
			if c == 0xED {
				hi = 0x9F
			}
			if i+2 < len(s) && s[i+1] >= lo && s[i+1] <= hi && s[i+2] >= 0x80 && s[i+2] <= 0xBF {
				size = 3
			}
		case c >= 0xF0 && c <= 0xF4:
			lo, hi := byte(0x80), byte(0xBF)
			if c == 0xF0 {
				lo = 0x90
			}
			if c == 0xF4 {
				hi = 0x8F
			}
			if i+3 < len(s) && s[i+1] >= lo && s[i+1] <= hi && s[i+2] >= 0x80 && s[i+2] <= 0xBF && s[i+3] >= 0x80 && s[i+3] <= 0xBF {
				size = 4
			}
		}
		if size == 0 {
			out += "\xef\xbf\xbd"
			i++
		} else {
			out += s[i : i+size]
			i += size
		}
		n++
	}
	return out, n
}

var probeTable = func() (t [256]bool) {
	for _, c := range []byte(".\\x") {
		t[c] = true
	}
	return
}()

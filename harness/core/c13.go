//go:build verif

package core

import (
	"github.com/truora/minidyn/internal/nd"
	"github.com/truora/minidyn/types"
)

func hasDot(s string) bool {
	for i := 0; i < len(s); i++ {
		if s[i] == '.' {
			return true
		}
	}
	return false
}

// VerifC13Inject: the internal key of a hash+range table is an injective function of the
// (hash, range) tuple, for S-typed key attributes over all byte values.
func VerifC13Inject() {
	cap := nd.Param("cap", 2)
	ks := keySchema{HashKey: "h", RangeKey: "r"}
	defs := map[string]string{"h": "S", "r": "S"}
	h1, r1 := vKeyStr("h1", cap), vKeyStr("r1", cap)
	h2, r2 := vKeyStr("h2", cap), vKeyStr("r2", cap)
	if nd.Known("C13-dot-in-hash-key") {
		// known finding: a '.' inside the hash value makes two tuples collide
		nd.Assume(!hasDot(h1) && !hasDot(h2))
	}
	k1, e1 := ks.GetKey(defs, map[string]*types.Item{"h": vS(h1), "r": vS(r1)})
	k2, e2 := ks.GetKey(defs, map[string]*types.Item{"h": vS(h2), "r": vS(r2)})
	nd.Assert(e1 == nil && e2 == nil, "C13-nokeyerr")
	same := h1 == h2 && r1 == r2
	nd.Assert((k1 == k2) == same, "C13-injective")
	nd.Reach("end")
}

func vBytesEqual(a, b []byte) bool {
	if len(a) != len(b) {
		return false
	}
	for i := range a {
		if a[i] != b[i] {
			return false
		}
	}
	return true
}

// VerifC13InjectB: the same for binary-typed hash and range keys (all byte strings of 1..cap bytes), and for a
// string-typed hash with a binary-typed range.
func VerifC13InjectB() {
	cap := nd.Param("cap", 2)
	hashS := nd.Choice("hash-is-string", 2) == 1
	ks := keySchema{HashKey: "h", RangeKey: "r"}
	defs := map[string]string{"h": "B", "r": "B"}
	if hashS {
		defs["h"] = "S"
	}
	mk := func(name string) (h []byte, r []byte, item map[string]*types.Item) {
		h = nd.Bytes(name+".h", 1+nd.Choice(name+".h.len", cap))
		r = nd.Bytes(name+".r", 1+nd.Choice(name+".r.len", cap))
		item = map[string]*types.Item{"r": {B: r}}
		if hashS {
			item["h"] = vS(string(h))
		} else {
			item["h"] = &types.Item{B: h}
		}
		return
	}
	h1, r1, it1 := mk("k1")
	h2, r2, it2 := mk("k2")
	k1, e1 := ks.GetKey(defs, it1)
	k2, e2 := ks.GetKey(defs, it2)
	nd.Assert(e1 == nil && e2 == nil, "C13-binary-nokeyerr")
	same := vBytesEqual(h1, h2) && vBytesEqual(r1, r2)
	nd.Assert((k1 == k2) == same, "C13-binary-keys-injective")
	nd.Reach("end")
}

// vTypedKeyValue: a key attribute value of the given scalar type, with the meaning it must be compared by:
// strings and binaries by their bytes (the strings include numeral look-alikes), numbers by numeric value
// (the numerals include equal values in different notations and the two zeros).
type vTypedVal struct {
	item *types.Item
	text string // S / B: the bytes; N: unused
	num  int    // N: the value
}

func vTypedKeyValue(name, typ string) vTypedVal {
	switch typ {
	case "N":
		numerals := []string{"0", "-0", "0.0", "10", "10.0", "1e1", "1", "-1", "1.0"}
		values := []int{0, 0, 0, 10, 10, 10, 1, -1, 1}
		k := nd.Choice(name+".numeral", len(numerals))
		n := numerals[k]
		return vTypedVal{item: &types.Item{N: &n}, num: values[k]}
	case "B":
		b := nd.Bytes(name+".b", 1)
		return vTypedVal{item: &types.Item{B: b}, text: string(b)}
	}
	var s string
	switch nd.Choice(name+".text", 3) {
	case 0:
		s = nd.StringN(name+".s", 1)
	case 1:
		s = "10"
	case 2:
		s = "10.0"
	}
	return vTypedVal{item: vS(s), text: s}
}

func (a vTypedVal) same(b vTypedVal, typ string) bool {
	if typ == "N" {
		return a.num == b.num
	}
	return a.text == b.text
}

// VerifC13InjectMixed: for every combination of hash and range key types (S, N, B independently) two key
// tuples have the same internal key iff the hash values are equal and the range values are equal, each
// compared the way its own declared type demands.
func VerifC13InjectMixed() {
	kinds := []string{"S", "N", "B"}
	ht, rt := kinds[nd.Choice("hash-type", 3)], kinds[nd.Choice("range-type", 3)]
	ks := keySchema{HashKey: "h", RangeKey: "r"}
	defs := map[string]string{"h": ht, "r": rt}
	h1, r1 := vTypedKeyValue("h1", ht), vTypedKeyValue("r1", rt)
	h2, r2 := vTypedKeyValue("h2", ht), vTypedKeyValue("r2", rt)
	k1, e1 := ks.GetKey(defs, map[string]*types.Item{"h": h1.item, "r": r1.item})
	k2, e2 := ks.GetKey(defs, map[string]*types.Item{"h": h2.item, "r": r2.item})
	nd.Assert(e1 == nil && e2 == nil, "C13-mixed-nokeyerr")
	same := h1.same(h2, ht) && r1.same(r2, rt)
	nd.Assert((k1 == k2) == same, "C13-mixed-type-keys-injective")
	nd.Reach("end")
}

//go:build verif

package core

import (
	"github.com/truora/minidyn/internal/nd"
	"github.com/truora/minidyn/types"
)

func hasDot(s string) bool {
	for i := 0; i < len(s); i++ {
		if s[i] == '.' {
			return true
		}
	}
	return false
}

// VerifC13Inject: the internal key of a hash+range table is an injective function of the
// (hash, range) tuple, for S-typed key attributes over all byte values.
func VerifC13Inject() {
	cap := nd.Param("cap", 2)
	ks := keySchema{HashKey: "h", RangeKey: "r"}
	defs := map[string]string{"h": "S", "r": "S"}
	h1, r1 := vKeyStr("h1", cap), vKeyStr("r1", cap)
	h2, r2 := vKeyStr("h2", cap), vKeyStr("r2", cap)
	if nd.Known("C13-dot-in-hash-key") {
		// known finding: a '.' inside the hash value makes two tuples collide
		nd.Assume(!hasDot(h1) && !hasDot(h2))
	}
	k1, e1 := ks.GetKey(defs, map[string]*types.Item{"h": vS(h1), "r": vS(r1)})
	k2, e2 := ks.GetKey(defs, map[string]*types.Item{"h": vS(h2), "r": vS(r2)})
	nd.Assert(e1 == nil && e2 == nil, "C13-nokeyerr")
	same := h1 == h2 && r1 == r2
	nd.Assert((k1 == k2) == same, "C13-injective")
	nd.Reach("end")
}

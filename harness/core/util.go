//go:build verif

package core

import (
	"github.com/truora/minidyn/internal/nd"
	"github.com/truora/minidyn/types"
)

func vS(s string) *types.Item { return &types.Item{S: &s} }

// vStr: every byte string of length 0..cap (the length is a forked choice, the bytes are solver terms).
func vStr(name string, cap int) string {
	return nd.StringN(name, nd.Choice(name+".len", cap+1))
}

// vKeyStr: every byte string of length 1..cap (DynamoDB does not admit empty key attribute values).
func vKeyStr(name string, cap int) string {
	return nd.StringN(name, 1+nd.Choice(name+".len", cap))
}

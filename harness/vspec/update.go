//go:build verif

package vspec

// Recogniser for the update-expression grammar (no evaluation; C07 uses its own reference for that).
//
//	update   := clause+
//	clause   := SET  setAction (',' setAction)*
//	          | REMOVE path (',' path)*
//	          | ADD    path operand (',' path operand)*
//	          | DELETE path operand (',' path operand)*
//	setAction:= path '=' value
//	value    := term (('+' | '-') term)?
//	term     := path | if_not_exists '(' path ',' value ')' | list_append '(' term ',' term ')'
//
// Clause keywords in any letter case. Repeating a clause keyword is tolerated (permissive reading).

func updateKeyword(t Tok) string {
	if t.K != TWord {
		return ""
	}
	switch u := upper(t.S); u {
	case "SET", "REMOVE", "ADD", "DELETE":
		return u
	}
	return ""
}

func (p *parser) plainPath() bool {
	t := p.peek()
	if !p.bad && t.K == TLParen {
		// permissive reading: a parenthesised operand is tolerated
		p.next()
		p.updValue()
		if p.bad || p.peek().K != TRParen {
			p.bad = true
			return false
		}
		p.next()
		return true
	}
	if p.bad || t.K != TWord || keyword(t) != "" || updateKeyword(t) != "" {
		p.bad = true
		return false
	}
	n := p.operand()
	return !p.bad && n.Op == "path"
}

func (p *parser) updTerm() {
	t := p.peek()
	if !p.bad && t.K == TLParen {
		p.plainPath()
		return
	}
	if p.bad || t.K != TWord {
		p.bad = true
		return
	}
	if (t.S == "if_not_exists" || t.S == "list_append") && p.t[p.pos+1].K == TLParen {
		p.next()
		p.next()
		if t.S == "if_not_exists" {
			p.plainPath()
		} else {
			p.updTerm()
		}
		if p.bad || p.peek().K != TComma {
			p.bad = true
			return
		}
		p.next()
		if t.S == "if_not_exists" {
			p.updValue()
		} else {
			p.updTerm()
		}
		if p.bad || p.peek().K != TRParen {
			p.bad = true
			return
		}
		p.next()
		return
	}
	p.plainPath()
}

func (p *parser) updValue() {
	p.updTerm()
	if !p.bad && (p.peek().K == TPlus || p.peek().K == TMinus) {
		p.next()
		p.updTerm()
	}
}

// IsUpdateSentence reports whether s is a complete sentence of the update grammar.
func IsUpdateSentence(s string) bool {
	toks, ok := Lex(s)
	if !ok {
		return false
	}
	p := &parser{t: toks}
	clauses := 0
	for !p.bad && p.peek().K != TEOF {
		kw := updateKeyword(p.peek())
		if kw == "" {
			return false
		}
		p.next()
		clauses++
		for {
			p.plainPath()
			if p.bad {
				return false
			}
			switch kw {
			case "SET":
				if p.peek().K != TCmp || p.peek().S != "=" {
					return false
				}
				p.next()
				p.updValue()
			case "ADD", "DELETE":
				p.plainPath()
			}
			if p.bad {
				return false
			}
			if p.peek().K == TComma {
				p.next()
				continue
			}
			break
		}
	}
	return !p.bad && clauses > 0
}

//go:build verif

package vspec

import (
	"strconv"

	"github.com/truora/minidyn/types"
)

// KindOf names the DynamoDB type an internal attribute value carries ("" if none or several).
func KindOf(it *types.Item) string {
	k, n := "", 0
	set := func(c bool, name string) {
		if c {
			k = name
			n++
		}
	}
	set(it.S != nil, "S")
	set(it.N != nil, "N")
	set(it.B != nil, "B")
	set(it.BOOL != nil, "BOOL")
	set(it.NULL != nil, "NULL")
	set(it.L != nil, "L")
	set(it.M != nil, "M")
	set(it.SS != nil, "SS")
	set(it.NS != nil, "NS")
	set(it.BS != nil, "BS")
	if n != 1 {
		return ""
	}
	return k
}

func numEq(text string, want int64) bool {
	f, err := strconv.ParseFloat(text, 64)
	return err == nil && f == float64(want)
}

// SameValue: does the internal attribute value it represent exactly the reference value v (same type,
// same value; sets as sets, numbers by numeric value)?
func SameValue(v Val, it *types.Item) bool {
	if it == nil || KindOf(it) != v.Kind {
		return false
	}
	switch v.Kind {
	case "S":
		return *it.S == v.S
	case "N":
		return numEq(*it.N, v.N)
	case "B":
		return bytesEq(it.B, v.B)
	case "BOOL":
		return *it.BOOL == v.Bool
	case "NULL":
		return *it.NULL
	case "L":
		if len(it.L) != len(v.L) {
			return false
		}
		for i := range v.L {
			if !SameValue(v.L[i], it.L[i]) {
				return false
			}
		}
		return true
	case "M":
		if len(it.M) != len(v.M) {
			return false
		}
		for k, x := range v.M {
			y, ok := it.M[k]
			if !ok || !SameValue(x, y) {
				return false
			}
		}
		return true
	case "SS":
		got := make([]string, len(it.SS))
		for i := range it.SS {
			got[i] = *it.SS[i]
		}
		return len(got) == len(dedupS(v.SS)) && subsetS(got, v.SS) && subsetS(v.SS, got)
	case "NS":
		if len(it.NS) != len(dedupN(v.NS)) {
			return false
		}
		for _, w := range v.NS {
			f := false
			for _, g := range it.NS {
				if numEq(*g, w) {
					f = true
				}
			}
			if !f {
				return false
			}
		}
		return true
	case "BS":
		return len(it.BS) == len(dedupB(v.BS)) && subsetB(it.BS, v.BS) && subsetB(v.BS, it.BS)
	}
	return false
}

func dedupS(a []string) []string {
	var out []string
	for _, x := range a {
		if !subsetS([]string{x}, out) {
			out = append(out, x)
		}
	}
	return out
}

func dedupN(a []int64) []int64 {
	var out []int64
	for _, x := range a {
		if !subsetN([]int64{x}, out) {
			out = append(out, x)
		}
	}
	return out
}

func dedupB(a [][]byte) [][]byte {
	var out [][]byte
	for _, x := range a {
		if !subsetB([][]byte{x}, out) {
			out = append(out, x)
		}
	}
	return out
}

// SameItem: the internal item has exactly the reference attributes with the reference values.
func SameItem(want map[string]Val, got map[string]*types.Item) bool {
	if len(want) != len(got) {
		return false
	}
	for name, v := range want {
		it, ok := got[name]
		if !ok || !SameValue(v, it) {
			return false
		}
	}
	return true
}

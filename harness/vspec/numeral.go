//go:build verif

package vspec

// CanonNumeral brings a DynamoDB numeral (sign, digits, optional fraction, optional exponent) into the normal
// form value = (+/-) digits x 10^exp with neither leading nor trailing zeros in digits; zero is ("", 0, false).
// Two numerals denote the same decimal number iff their normal forms are equal: this is exact decimal
// equality at any precision, which a comparison through float64 is not beyond 15-17 significant digits.
func CanonNumeral(t string) (neg bool, digits string, exp int, ok bool) {
	i := 0
	if i < len(t) && (t[i] == '+' || t[i] == '-') {
		neg = t[i] == '-'
		i++
	}
	nd := 0
	for i < len(t) && t[i] >= '0' && t[i] <= '9' {
		digits += t[i : i+1]
		i++
		nd++
	}
	if i < len(t) && t[i] == '.' {
		i++
		for i < len(t) && t[i] >= '0' && t[i] <= '9' {
			digits += t[i : i+1]
			i++
			nd++
			exp--
		}
	}
	if nd == 0 {
		return false, "", 0, false
	}
	if i < len(t) && (t[i] == 'e' || t[i] == 'E') {
		i++
		eneg := false
		if i < len(t) && (t[i] == '+' || t[i] == '-') {
			eneg = t[i] == '-'
			i++
		}
		e, ne := 0, 0
		for i < len(t) && t[i] >= '0' && t[i] <= '9' && ne < 6 {
			e = e*10 + int(t[i]-'0')
			i++
			ne++
		}
		if ne == 0 {
			return false, "", 0, false
		}
		if eneg {
			e = -e
		}
		exp += e
	}
	if i != len(t) {
		return false, "", 0, false
	}
	for len(digits) > 0 && digits[0] == '0' {
		digits = digits[1:]
	}
	for len(digits) > 0 && digits[len(digits)-1] == '0' {
		digits = digits[:len(digits)-1]
		exp++
	}
	if digits == "" {
		return false, "", 0, true
	}
	return neg, digits, exp, true
}

// SameNumeral: both texts are numerals and denote the same decimal number.
func SameNumeral(a, b string) bool {
	an, ad, ae, aok := CanonNumeral(a)
	bn, bd, be, bok := CanonNumeral(b)
	return aok && bok && an == bn && ad == bd && ae == be
}

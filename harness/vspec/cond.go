//go:build verif

// Package vspec holds the reference models the harnesses compare the implementation with. They encode
// only what the property statements fix; where a statement is silent the reference answers "unspecified"
// and the harness asserts nothing but absence of crashes. Plain Go: the symbolic executor interprets this
// code like any other, and the native replay compiles it.
package vspec

// ---------------------------------------------------------------- values

// Val is an attribute value of one of the ten DynamoDB types.
type Val struct {
	Kind string // S N B BOOL NULL L M SS NS BS
	S    string
	N    int64  // numbers in condition harnesses are integers (exactness of decimals is C12's subject)
	NTxt string // when set, the numeral as written (any notation); N is its value
	B    []byte
	Bool bool
	L    []Val
	M    map[string]Val
	SS   []string
	NS   []int64
	BS   [][]byte
}

func bytesEq(a, b []byte) bool {
	if len(a) != len(b) {
		return false
	}
	for i := range a {
		if a[i] != b[i] {
			return false
		}
	}
	return true
}

func bytesLess(a, b []byte) bool {
	for i := 0; i < len(a) && i < len(b); i++ {
		if a[i] != b[i] {
			return a[i] < b[i]
		}
	}
	return len(a) < len(b)
}

// Equal: type-sensitive structural equality; sets compare as sets.
func Equal(a, b Val) bool {
	if a.Kind != b.Kind {
		return false
	}
	switch a.Kind {
	case "S":
		return a.S == b.S
	case "N":
		return a.N == b.N
	case "B":
		return bytesEq(a.B, b.B)
	case "BOOL":
		return a.Bool == b.Bool
	case "NULL":
		return true
	case "L":
		if len(a.L) != len(b.L) {
			return false
		}
		for i := range a.L {
			if !Equal(a.L[i], b.L[i]) {
				return false
			}
		}
		return true
	case "M":
		if len(a.M) != len(b.M) {
			return false
		}
		for k, v := range a.M {
			w, ok := b.M[k]
			if !ok || !Equal(v, w) {
				return false
			}
		}
		return true
	case "SS":
		return subsetS(a.SS, b.SS) && subsetS(b.SS, a.SS)
	case "NS":
		return subsetN(a.NS, b.NS) && subsetN(b.NS, a.NS)
	case "BS":
		return subsetB(a.BS, b.BS) && subsetB(b.BS, a.BS)
	}
	return false
}

func subsetS(a, b []string) bool {
	for _, x := range a {
		f := false
		for _, y := range b {
			if x == y {
				f = true
			}
		}
		if !f {
			return false
		}
	}
	return true
}

func subsetN(a, b []int64) bool {
	for _, x := range a {
		f := false
		for _, y := range b {
			if x == y {
				f = true
			}
		}
		if !f {
			return false
		}
	}
	return true
}

func subsetB(a, b [][]byte) bool {
	for _, x := range a {
		f := false
		for _, y := range b {
			if bytesEq(x, y) {
				f = true
			}
		}
		if !f {
			return false
		}
	}
	return true
}

// ---------------------------------------------------------------- tokens

const (
	TWord   = iota // run of [A-Za-z0-9_:#]
	TCmp           // = <> < <= > >=
	TLParen        // (
	TRParen
	TLBrack
	TRBrack
	TDot
	TComma
	TPlus
	TMinus
	TEOF
)

type Tok struct {
	K int
	S string
}

func isWordByte(c byte) bool {
	return c >= 'a' && c <= 'z' || c >= 'A' && c <= 'Z' || c >= '0' && c <= '9' || c == '_' || c == ':' || c == '#'
}

// Lex splits s into tokens; ok is false when s contains a byte that belongs to no token.
func Lex(s string) (toks []Tok, ok bool) {
	i := 0
	for i < len(s) {
		c := s[i]
		switch {
		case c == ' ' || c == '\t' || c == '\n' || c == '\r':
			i++
		case isWordByte(c):
			j := i
			for j < len(s) && isWordByte(s[j]) {
				j++
			}
			toks = append(toks, Tok{TWord, s[i:j]})
			i = j
		case c == '=':
			toks = append(toks, Tok{TCmp, "="})
			i++
		case c == '<':
			if i+1 < len(s) && s[i+1] == '>' {
				toks = append(toks, Tok{TCmp, "<>"})
				i += 2
			} else if i+1 < len(s) && s[i+1] == '=' {
				toks = append(toks, Tok{TCmp, "<="})
				i += 2
			} else {
				toks = append(toks, Tok{TCmp, "<"})
				i++
			}
		case c == '>':
			if i+1 < len(s) && s[i+1] == '=' {
				toks = append(toks, Tok{TCmp, ">="})
				i += 2
			} else {
				toks = append(toks, Tok{TCmp, ">"})
				i++
			}
		case c == '(':
			toks = append(toks, Tok{TLParen, "("})
			i++
		case c == ')':
			toks = append(toks, Tok{TRParen, ")"})
			i++
		case c == '[':
			toks = append(toks, Tok{TLBrack, "["})
			i++
		case c == ']':
			toks = append(toks, Tok{TRBrack, "]"})
			i++
		case c == '.':
			toks = append(toks, Tok{TDot, "."})
			i++
		case c == ',':
			toks = append(toks, Tok{TComma, ","})
			i++
		case c == '+':
			toks = append(toks, Tok{TPlus, "+"})
			i++
		case c == '-':
			toks = append(toks, Tok{TMinus, "-"})
			i++
		default:
			return toks, false
		}
	}
	return append(toks, Tok{TEOF, ""}), true
}

func upper(s string) string {
	b := []byte(s)
	for i := range b {
		if b[i] >= 'a' && b[i] <= 'z' {
			b[i] -= 32
		}
	}
	return string(b)
}

// keyword: AND OR NOT BETWEEN IN, recognised in any letter case (the permissive reading: the reference never
// rejects a text that is a sentence under either reading of a lower-case keyword).
func keyword(t Tok) string {
	if t.K != TWord {
		return ""
	}
	switch u := upper(t.S); u {
	case "AND", "OR", "NOT", "BETWEEN", "IN":
		return u
	}
	return ""
}

var condFuncs = map[string]int{"attribute_exists": 1, "attribute_not_exists": 1, "attribute_type": 2, "begins_with": 2, "contains": 2}

// ---------------------------------------------------------------- AST

type Node struct {
	Op   string  // "or" "and" "not" "cmp" "between" "in" "call" "path" "size"
	Cmp  string  // comparator for "cmp"
	Fn   string  // function name for "call"
	Kids []*Node // operands
	Path []PathElem
}

type PathElem struct {
	Name   string // attribute / member name, ":value" or "#alias" word
	Index  int    // list index when IsIdx
	IsIdx  bool
	IdxRef string // ":value" placeholder holding the index (minidyn extension)
}

type parser struct {
	t   []Tok
	pos int
	bad bool
}

func (p *parser) peek() Tok { return p.t[p.pos] }
func (p *parser) next() Tok {
	t := p.t[p.pos]
	if p.pos < len(p.t)-1 {
		p.pos++
	}
	return t
}

// ParseCondition parses a complete condition expression; nil when s is not a sentence of the grammar.
func ParseCondition(s string) *Node {
	toks, ok := Lex(s)
	if !ok {
		return nil
	}
	p := &parser{t: toks}
	n := p.or()
	if p.bad || n == nil || p.peek().K != TEOF {
		return nil
	}
	return n
}

func (p *parser) or() *Node {
	l := p.and()
	for !p.bad && keyword(p.peek()) == "OR" {
		p.next()
		r := p.and()
		l = &Node{Op: "or", Kids: []*Node{l, r}}
	}
	return l
}

func (p *parser) and() *Node {
	l := p.not()
	for !p.bad && keyword(p.peek()) == "AND" {
		p.next()
		r := p.not()
		l = &Node{Op: "and", Kids: []*Node{l, r}}
	}
	return l
}

func (p *parser) not() *Node {
	if keyword(p.peek()) == "NOT" {
		p.next()
		return &Node{Op: "not", Kids: []*Node{p.not()}}
	}
	return p.primary()
}

func (p *parser) fail() *Node {
	p.bad = true
	return &Node{Op: "bad"}
}

func (p *parser) primary() *Node {
	if p.bad {
		return p.fail()
	}
	t := p.peek()
	if t.K == TLParen {
		save := p.pos
		p.next()
		n := p.or()
		if !p.bad && p.peek().K == TRParen {
			p.next()
			return n
		}
		// not a parenthesised condition: under the permissive reading it may be a parenthesised operand
		p.pos, p.bad = save, false
	}
	if t.K == TWord && keyword(t) == "" {
		if arity, isFn := condFuncs[t.S]; isFn && p.t[p.pos+1].K == TLParen {
			p.next()
			p.next()
			call := &Node{Op: "call", Fn: t.S}
			for i := 0; i < arity; i++ {
				if i > 0 {
					if p.peek().K != TComma {
						return p.fail()
					}
					p.next()
				}
				call.Kids = append(call.Kids, p.operand())
			}
			if p.bad || p.peek().K != TRParen {
				return p.fail()
			}
			p.next()
			return call
		}
	}
	l := p.operand()
	if p.bad {
		return p.fail()
	}
	t = p.peek()
	switch {
	case t.K == TCmp:
		p.next()
		r := p.operand()
		return &Node{Op: "cmp", Cmp: t.S, Kids: []*Node{l, r}}
	case keyword(t) == "BETWEEN":
		p.next()
		lo := p.operand()
		if keyword(p.peek()) != "AND" {
			return p.fail()
		}
		p.next()
		hi := p.operand()
		return &Node{Op: "between", Kids: []*Node{l, lo, hi}}
	case keyword(t) == "IN":
		p.next()
		if p.peek().K != TLParen {
			return p.fail()
		}
		p.next()
		n := &Node{Op: "in", Kids: []*Node{l}}
		for {
			n.Kids = append(n.Kids, p.operand())
			if p.bad {
				return p.fail()
			}
			if p.peek().K == TComma {
				p.next()
				continue
			}
			break
		}
		if p.peek().K != TRParen {
			return p.fail()
		}
		p.next()
		return n
	}
	return p.fail() // a bare operand is not a condition
}

func allDigits(s string) bool {
	if len(s) == 0 {
		return false
	}
	for i := 0; i < len(s); i++ {
		if s[i] < '0' || s[i] > '9' {
			return false
		}
	}
	return true
}

func atoi(s string) int {
	n := 0
	for i := 0; i < len(s); i++ {
		n = n*10 + int(s[i]-'0')
	}
	return n
}

// operand := size '(' path ')' | path ; path := word ( '.' word | '[' digits ']' )*
func (p *parser) operand() *Node {
	t := p.peek()
	if !p.bad && t.K == TLParen {
		// permissive reading: a parenthesised operand is tolerated
		p.next()
		n := p.operand()
		if p.bad || p.peek().K != TRParen {
			return p.fail()
		}
		p.next()
		return n
	}
	if p.bad || t.K != TWord || keyword(t) != "" {
		return p.fail()
	}
	if t.S == "size" && p.t[p.pos+1].K == TLParen {
		p.next()
		p.next()
		in := p.operand()
		if p.bad || p.peek().K != TRParen {
			return p.fail()
		}
		p.next()
		return &Node{Op: "size", Kids: []*Node{in}}
	}
	p.next()
	n := &Node{Op: "path", Path: []PathElem{{Name: t.S}}}
	for {
		switch p.peek().K {
		case TDot:
			p.next()
			w := p.peek()
			if w.K != TWord || keyword(w) != "" {
				return p.fail()
			}
			p.next()
			n.Path = append(n.Path, PathElem{Name: w.S})
			continue
		case TLBrack:
			p.next()
			w := p.peek()
			// minidyn's own extension, pinned by its tests ("a[:i]", ":list[:x]"): the index may be a value
			// placeholder; what such a path means is not fixed by the property statements (IdxRef: unspecified)
			// (the library's index production takes any operand word: ":i", an attribute name, a "#name")
			byRef := w.K == TWord && !allDigits(w.S) && keyword(w) == ""
			if !byRef && (w.K != TWord || !allDigits(w.S) || len(w.S) > 4) {
				return p.fail()
			}
			p.next()
			if p.peek().K != TRBrack {
				return p.fail()
			}
			p.next()
			if byRef {
				n.Path = append(n.Path, PathElem{IsIdx: true, IdxRef: w.S})
			} else {
				n.Path = append(n.Path, PathElem{IsIdx: true, Index: atoi(w.S)})
			}
			continue
		}
		break
	}
	return n
}

// ---------------------------------------------------------------- evaluation

// Env is what an expression is evaluated against.
type Env struct {
	Item    map[string]Val
	Values  map[string]Val    // ":x" -> value
	Aliases map[string]string // "#n" -> attribute name
}

// Tri is a three-valued verdict.
type Tri int

const (
	False Tri = iota
	True
	Unspec // the property statement does not fix the outcome (the implementation may also reject)
)

func tri(b bool) Tri {
	if b {
		return True
	}
	return False
}

// resolve evaluates a path operand: the value and whether it is present.
func (e *Env) resolve(n *Node) (v Val, present, spec bool) {
	if n.Op == "size" {
		in, ok, sp := e.resolve(n.Kids[0])
		if !sp || !ok {
			return Val{}, false, false // size of a missing attribute: unspecified
		}
		switch in.Kind {
		case "S":
			return Val{Kind: "N", N: int64(len(in.S))}, true, true
		case "B":
			return Val{Kind: "N", N: int64(len(in.B))}, true, true
		case "L":
			return Val{Kind: "N", N: int64(len(in.L))}, true, true
		case "M":
			return Val{Kind: "N", N: int64(len(in.M))}, true, true
		}
		return Val{}, false, false // sets: size counts distinct members (representation dependent); others invalid
	}
	first := n.Path[0].Name
	var cur Val
	switch {
	case len(first) > 0 && first[0] == ':':
		x, ok := e.Values[first]
		if !ok {
			return Val{}, false, false // an undefined placeholder is C16's subject
		}
		cur = x
	default:
		name := first
		if len(first) > 0 && first[0] == '#' {
			a, ok := e.Aliases[first]
			if !ok {
				return Val{}, false, false
			}
			name = a
		}
		x, ok := e.Item[name]
		if !ok {
			return Val{}, false, true
		}
		cur = x
	}
	for _, pe := range n.Path[1:] {
		if pe.IsIdx && pe.IdxRef != "" {
			return Val{}, false, false
		}
		if pe.IsIdx {
			if cur.Kind != "L" {
				return Val{}, false, false
			}
			if pe.Index >= len(cur.L) {
				return Val{}, false, true
			}
			cur = cur.L[pe.Index]
			continue
		}
		if cur.Kind != "M" {
			return Val{}, false, false
		}
		name := pe.Name
		if len(name) > 0 && name[0] == '#' {
			a, ok := e.Aliases[name]
			if !ok {
				return Val{}, false, false
			}
			name = a
		}
		x, ok := cur.M[name]
		if !ok {
			return Val{}, false, true
		}
		cur = x
	}
	return cur, true, true
}

func orderable(v Val) bool { return v.Kind == "S" || v.Kind == "N" || v.Kind == "B" }

func less(a, b Val) (lt, ok bool) {
	if a.Kind != b.Kind {
		return false, false
	}
	switch a.Kind {
	case "S":
		return a.S < b.S, true
	case "N":
		return a.N < b.N, true
	case "B":
		return bytesLess(a.B, b.B), true
	}
	return false, false
}

func hasPrefix(s, p string) bool { return len(s) >= len(p) && s[:len(p)] == p }

func containsStr(s, sub string) bool {
	for i := 0; i+len(sub) <= len(s); i++ {
		if s[i:i+len(sub)] == sub {
			return true
		}
	}
	return false
}

// Eval computes the truth value the property statement (C06) fixes for the condition, or Unspec.
func (e *Env) Eval(n *Node) Tri {
	switch n.Op {
	case "or":
		a, b := e.Eval(n.Kids[0]), e.Eval(n.Kids[1])
		if a == Unspec || b == Unspec {
			return Unspec
		}
		return tri(a == True || b == True)
	case "and":
		a, b := e.Eval(n.Kids[0]), e.Eval(n.Kids[1])
		if a == Unspec || b == Unspec {
			return Unspec
		}
		return tri(a == True && b == True)
	case "not":
		a := e.Eval(n.Kids[0])
		if a == Unspec {
			return Unspec
		}
		return tri(a == False)
	case "cmp":
		a, ap, as := e.resolve(n.Kids[0])
		b, bp, bs := e.resolve(n.Kids[1])
		if !as || !bs {
			return Unspec
		}
		if n.Cmp != "=" && n.Cmp != "<>" {
			// ordering exists only within one scalar type; an ordering comparator applied to a present
			// operand of another type (BOOL, NULL, a set, a document) may legitimately be rejected
			if ap && !orderable(a) || bp && !orderable(b) {
				return Unspec
			}
		}
		if !ap || !bp {
			// a missing attribute makes comparisons false (and <> true)
			return tri(n.Cmp == "<>")
		}
		switch n.Cmp {
		case "=":
			return tri(Equal(a, b))
		case "<>":
			return tri(!Equal(a, b))
		}
		lt, ok := less(a, b)
		gt, _ := less(b, a)
		if !ok {
			return Unspec // ordering exists only within one scalar type
		}
		switch n.Cmp {
		case "<":
			return tri(lt)
		case "<=":
			return tri(!gt)
		case ">":
			return tri(gt)
		case ">=":
			return tri(!lt)
		}
		return Unspec
	case "between":
		v, vp, vs := e.resolve(n.Kids[0])
		lo, lp, ls := e.resolve(n.Kids[1])
		hi, hp, hs := e.resolve(n.Kids[2])
		if !vs || !ls || !hs {
			return Unspec
		}
		if vp && !orderable(v) || lp && !orderable(lo) || hp && !orderable(hi) {
			return Unspec // BETWEEN is an ordering comparison: operands of other types may be rejected
		}
		if !vp || !lp || !hp {
			return False
		}
		a, ok1 := less(v, lo)
		b, ok2 := less(hi, v)
		if !ok1 || !ok2 {
			return Unspec
		}
		return tri(!a && !b)
	case "in":
		v, vp, vs := e.resolve(n.Kids[0])
		if !vs {
			return Unspec
		}
		found := false
		for _, k := range n.Kids[1:] {
			x, xp, xs := e.resolve(k)
			if !xs {
				return Unspec
			}
			if vp && xp && Equal(v, x) {
				found = true
			}
		}
		return tri(found)
	case "call":
		return e.call(n)
	}
	return Unspec
}

func typeName(k string) bool {
	switch k {
	case "S", "N", "B", "BOOL", "NULL", "L", "M", "SS", "NS", "BS":
		return true
	}
	return false
}

func (e *Env) call(n *Node) Tri {
	if n.Kids[0].Op != "path" {
		return Unspec
	}
	first := n.Kids[0].Path[0].Name
	if len(first) > 0 && first[0] == ':' {
		return Unspec // the first argument of these functions is a document path
	}
	v, present, spec := e.resolve(n.Kids[0])
	if !spec {
		return Unspec
	}
	switch n.Fn {
	case "attribute_exists":
		return tri(present) // a NULL-typed attribute exists
	case "attribute_not_exists":
		return tri(!present)
	}
	arg, ap, as := e.resolve(n.Kids[1])
	if !as || !ap {
		return Unspec
	}
	switch n.Fn {
	case "attribute_type":
		if arg.Kind != "S" || !typeName(arg.S) {
			return Unspec
		}
		return tri(present && v.Kind == arg.S)
	case "begins_with":
		if !present {
			return False
		}
		if v.Kind == "S" && arg.Kind == "S" {
			return tri(hasPrefix(v.S, arg.S))
		}
		if v.Kind == "B" && arg.Kind == "B" {
			return tri(hasPrefix(string(v.B), string(arg.B))) // a prefix of the bytes
		}
		return Unspec
	case "contains":
		if !present {
			return False
		}
		switch {
		case v.Kind == "S" && arg.Kind == "S":
			return tri(containsStr(v.S, arg.S))
		case v.Kind == "B" && arg.Kind == "B":
			return tri(containsStr(string(v.B), string(arg.B))) // a run of the bytes
		case v.Kind == "SS" && arg.Kind == "S":
			return tri(subsetS([]string{arg.S}, v.SS))
		case v.Kind == "NS" && arg.Kind == "N":
			return tri(subsetN([]int64{arg.N}, v.NS))
		case v.Kind == "BS" && arg.Kind == "B":
			return tri(subsetB([][]byte{arg.B}, v.BS))
		case v.Kind == "L":
			for _, x := range v.L {
				if Equal(x, arg) {
					return True
				}
			}
			return False
		}
		return Unspec
	}
	return Unspec
}

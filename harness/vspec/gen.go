//go:build verif

package vspec

import (
	"github.com/truora/minidyn/internal/nd"
	"github.com/truora/minidyn/types"
)

// Kinds lists the ten attribute types; index 0 ("-") means "attribute absent".
var Kinds = []string{"-", "S", "N", "BOOL", "NULL", "B", "L", "M", "SS", "NS", "BS"}

func str(name string, cap int) string {
	if cap <= 1 {
		return nd.StringN(name, 1)
	}
	return nd.StringN(name, nd.Choice(name+".len", cap+1))
}

// GenVal draws a value of the given kind with symbolic payload. Numbers are 16-bit integers whose
// decimal text is produced by the numeral model (nd.Itoa). Containers hold one or two scalar members.
func GenVal(name, kind string, cap int) Val {
	switch kind {
	case "S":
		return Val{Kind: "S", S: str(name+".s", cap)}
	case "N":
		return Val{Kind: "N", N: int64(nd.Int16(name + ".n"))}
	case "BOOL":
		return Val{Kind: "BOOL", Bool: nd.Bool(name + ".b")}
	case "NULL":
		return Val{Kind: "NULL"}
	case "B":
		return Val{Kind: "B", B: nd.Bytes(name+".bin", 1+nd.Choice(name+".binlen", 2))}
	case "L":
		l := []Val{{Kind: "S", S: str(name+".l0", 1)}}
		if nd.Choice(name+".llen", 2) == 1 {
			l = append(l, Val{Kind: "N", N: int64(nd.Int16(name + ".l1"))})
		}
		return Val{Kind: "L", L: l}
	case "M":
		m := map[string]Val{"k": {Kind: "S", S: str(name+".mk", 1)}}
		if nd.Choice(name+".mlen", 2) == 1 {
			m["j"] = Val{Kind: "S", S: str(name+".mj", 1)}
		}
		return Val{Kind: "M", M: m}
	case "SS":
		ss := []string{str(name+".ss0", 1)}
		if nd.Choice(name+".sslen", 2) == 1 {
			ss = append(ss, str(name+".ss1", 1))
		}
		return Val{Kind: "SS", SS: ss}
	case "NS":
		ns := []int64{int64(nd.Int16(name + ".ns0"))}
		if nd.Choice(name+".nslen", 2) == 1 {
			ns = append(ns, int64(nd.Int16(name+".ns1")))
		}
		return Val{Kind: "NS", NS: ns}
	case "BS":
		bs := [][]byte{nd.Bytes(name+".bs0", 1)}
		if nd.Choice(name+".bslen", 2) == 1 {
			bs = append(bs, nd.Bytes(name+".bs1", 1))
		}
		return Val{Kind: "BS", BS: bs}
	}
	panic("GenVal: kind " + kind)
}

// ToItem converts a reference value into minidyn's internal attribute value.
func ToItem(v Val) *types.Item {
	switch v.Kind {
	case "S":
		s := v.S
		return &types.Item{S: &s}
	case "N":
		s := v.NTxt
		if s == "" {
			s = nd.Itoa(v.N)
		}
		return &types.Item{N: &s}
	case "BOOL":
		b := v.Bool
		return &types.Item{BOOL: &b}
	case "NULL":
		t := true
		return &types.Item{NULL: &t}
	case "B":
		return &types.Item{B: append([]byte{}, v.B...)}
	case "L":
		l := make([]*types.Item, len(v.L))
		for i := range v.L {
			l[i] = ToItem(v.L[i])
		}
		return &types.Item{L: l}
	case "M":
		m := map[string]*types.Item{}
		for k, x := range v.M {
			m[k] = ToItem(x)
		}
		return &types.Item{M: m}
	case "SS":
		ss := make([]*string, len(v.SS))
		for i := range v.SS {
			s := v.SS[i]
			ss[i] = &s
		}
		return &types.Item{SS: ss}
	case "NS":
		ns := make([]*string, len(v.NS))
		for i := range v.NS {
			s := nd.Itoa(v.NS[i])
			ns[i] = &s
		}
		return &types.Item{NS: ns}
	case "BS":
		bs := make([][]byte, len(v.BS))
		for i := range v.BS {
			bs[i] = append([]byte{}, v.BS[i]...)
		}
		return &types.Item{BS: bs}
	}
	panic("ToItem: kind " + v.Kind)
}

// ToItems converts a map of reference values; names lists the insertion order (attribute order must not matter).
func ToItems(m map[string]Val, names []string) map[string]*types.Item {
	out := map[string]*types.Item{}
	for _, n := range names {
		if v, ok := m[n]; ok {
			out[n] = ToItem(v)
		}
	}
	return out
}

// Numerals: the same small integers written in different valid notations.
var Numerals = []Val{
	{Kind: "N", N: 0, NTxt: "0"}, {Kind: "N", N: 7, NTxt: "7"}, {Kind: "N", N: -3, NTxt: "-3"},
	{Kind: "N", N: 10, NTxt: "10.0"}, {Kind: "N", N: 10, NTxt: "1e1"}, {Kind: "N", N: 0, NTxt: "-0"}, {Kind: "N", N: 5, NTxt: "005"},
	// beyond what a float64 holds: compared as exact decimals (SameNumeral); N is not meaningful for these
	{Kind: "N", NTxt: "1790000000123456789"}, {Kind: "N", NTxt: "-9007199254740993"},
	{Kind: "N", NTxt: "0.12345678901234567890123456789012345678"}, {Kind: "N", NTxt: "9.9999999999999999999999999999999999999e125"},
	{Kind: "N", NTxt: "1e-130"}, {Kind: "N", NTxt: "0.1"},
	{Kind: "N", NTxt: "2.5e10"}, {Kind: "N", NTxt: "1.25E+20"}, {Kind: "N", NTxt: "1.50e-10"}, {Kind: "N", NTxt: "-0.00"},
}

// GenTree draws an attribute-value tree: any of the ten types, containers nested up to depth levels with
// 0..width children, including the boundary members (empty string, empty binary, false, empty list/map,
// single-element sets).
func GenTree(name string, depth, width int) Val {
	leaf := []string{"S", "N", "B", "BOOL", "NULL", "SS", "NS", "BS"}
	n := len(leaf)
	if depth > 0 {
		n += 2
	}
	k := nd.Choice(name+".kind", n)
	if k < len(leaf) {
		switch leaf[k] {
		case "S":
			return Val{Kind: "S", S: nd.StringN(name+".s", nd.Choice(name+".slen", 3))}
		case "N":
			// the numerals beyond float64 precision only where the harness asks for them (a write/read round trip
			// must keep them; what an UpdateItem computes with them is C12's subject, not that of its users)
			nn := 7
			if nd.Param("precise", 0) == 1 {
				nn = len(Numerals)
			}
			return Numerals[nd.Choice(name+".num", nn)]
		case "B":
			return Val{Kind: "B", B: nd.Bytes(name+".bin", nd.Choice(name+".blen", 3))}
		case "BOOL":
			return Val{Kind: "BOOL", Bool: nd.Bool(name + ".b")}
		case "NULL":
			return Val{Kind: "NULL"}
		case "SS":
			return Val{Kind: "SS", SS: []string{nd.StringN(name+".ss", nd.Choice(name+".sslen", 2))}}
		case "NS":
			// a small member or one of more than 15 digits
			return Val{Kind: "NS", NS: []int64{[]int64{7, 1234567890123456789}[nd.Choice(name+".nsmember", 2)]}}
		case "BS":
			return Val{Kind: "BS", BS: [][]byte{nd.Bytes(name+".bs", 1)}}
		}
	}
	cnt := nd.Choice(name+".children", width+1)
	if k == len(leaf) {
		l := []Val{}
		for i := 0; i < cnt; i++ {
			l = append(l, GenTree(name+"."+string(rune('0'+i)), depth-1, width))
		}
		return Val{Kind: "L", L: l}
	}
	m := map[string]Val{}
	for i := 0; i < cnt; i++ {
		m[string(rune('x'+i))] = GenTree(name+"."+string(rune('x'+i)), depth-1, width)
	}
	return Val{Kind: "M", M: m}
}

//go:build verif

// Package nd provides nondeterministic inputs for verification harnesses.
//
// Under the symbolic executor (symgo) every function below is intercepted: values are solver terms,
// Choice forks, Assert becomes a query. This file is the native twin: values come from a replay file
// (a model found by the solver), so the identical harness runs under `go test` against the real build.
package nd

import (
	"encoding/json"
	"fmt"
	"os"
	"runtime/debug"
	"strconv"
	"strings"
	"time"
)

type doc struct {
	Stress  int               `json:"stress"`
	Harness string            `json:"harness"`
	Values  map[string]uint64 `json:"values"`
	Params  map[string]int    `json:"params"`
	Known   []string          `json:"known"`
}

var (
	cur    doc
	occ    = map[string]int{}
	failed []string
	// digest of the nd.Assert / nd.Reach calls of this run (number, and order-insensitive sum of the FNV-1a
	// hashes of their ids): the engine computes the same on its path, the cross-check compares the two
	traceSum uint64
	traceN   int
)

func trace(kind, id string) {
	h := uint64(1469598103934665603)
	for _, c := range []byte(kind + id) {
		h = (h ^ uint64(c)) * 1099511628211
	}
	traceSum += h
	traceN++
}

type assumeViolated struct{}

func load(path string) error {
	b, err := os.ReadFile(path)
	if err != nil {
		return err
	}
	cur = doc{}
	occ = map[string]int{}
	failed = nil
	traceSum, traceN = 0, 0
	return json.Unmarshal(b, &cur)
}

func init() {
	if f := os.Getenv("VERIF_REPLAY"); f != "" {
		if err := load(f); err != nil {
			panic(err)
		}
	}
}

func get(name string) uint64 {
	k := occ[name]
	occ[name] = k + 1
	return cur.Values[fmt.Sprintf("%s#%d", name, k)]
}

func Byte(name string) byte         { return byte(get(name)) }
func Bool(name string) bool         { return get(name) != 0 }
func Choice(name string, n int) int { return int(get(name)) }
func Int(name string, lo, hi int) int {
	v := int(int64(get(name)))
	if v < lo || v > hi {
		panic(assumeViolated{})
	}
	return v
}
func Int64(name string) int64 { return int64(get(name)) }

// IntBits: every signed integer of the given number of bits, as an int64.
func IntBits(name string, bits int) int64 {
	return int64(get(name)<<(64-uint(bits))) >> (64 - uint(bits))
}
func Int16(name string) int16 { return int16(get(name)) }
func Itoa(n int64) string     { return strconv.FormatInt(n, 10) }

// Decimal renders n x 10^-scale as a DynamoDB numeral: sign, integer digits and, for scale > 0, a point and exactly
// scale fraction digits (Decimal(-125, 2) = "-1.25", Decimal(5, 2) = "0.05"). Under the engine the text of a
// symbolic n is opaque; strconv.ParseFloat of it is the correctly rounded quotient n / 10^scale.
func Decimal(n int64, scale int) string {
	neg := n < 0
	u := uint64(n)
	if neg {
		u = uint64(-n)
	}
	d := strconv.FormatUint(u, 10)
	if scale > 0 {
		for len(d) <= scale {
			d = "0" + d
		}
		d = d[:len(d)-scale] + "." + d[len(d)-scale:]
	}
	if neg {
		d = "-" + d
	}
	return d
}

// ParseInt reads back a decimal integer text (under the engine: the integer term the text was made of).
func ParseInt(s string) (int64, bool) {
	n, err := strconv.ParseInt(s, 10, 64)
	return n, err == nil
}
func StringN(name string, n int) string {
	b := make([]byte, n)
	for i := range b {
		b[i] = byte(get(fmt.Sprintf("%s.%d", name, i)))
	}
	return string(b)
}
func Bytes(name string, n int) []byte {
	b := make([]byte, n)
	for i := range b {
		b[i] = byte(get(fmt.Sprintf("%s.%d", name, i)))
	}
	return b
}

// Param is a bound chosen by the check's tier (quick/thorough), not a nondeterministic value.
func Param(name string, def int) int {
	if v, ok := cur.Params[name]; ok {
		return v
	}
	return def
}

// Known reports whether the known finding id was confirmed on this tree; harnesses then exclude its region.
func Known(id string) bool {
	for _, k := range cur.Known {
		if k == id {
			return true
		}
	}
	return false
}

func Assume(c bool) {
	if !c {
		panic(assumeViolated{})
	}
}

// Assert records a failed assertion and carries on, so that the replay can tell which assertion failed.
func Assert(c bool, id string) {
	trace("A:", id)
	if !c {
		failed = append(failed, id)
	}
}
func Reach(label string) { trace("R:", label) }

func Track(root interface{}) {}
func Begin(label string)     {}
func End()                   {}

var sections = map[string]func(){}

// Section runs f once and remembers it under label. Under the engine every access f makes to a tracked
// (shared) cell is recorded together with the set of mutexes held.
func Section(label string, f func()) {
	sections[label] = f
	f()
}

var sectionSetups = map[string]func(){}

// SectionSetup is Section with a preparation step: setup puts the shared state into the situation in which
// f has its full effect (a table to delete exists, a table to create does not). It runs, unrecorded, before
// f - and natively before every concurrent round of NoRace.
func SectionSetup(label string, setup, f func()) {
	sectionSetups[label] = setup
	setup()
	Section(label, f)
}

// NoRace states that sections a and b may run concurrently without a data race. Under the engine this is
// the lock-set obligation "every pair of conflicting accesses holds a common mutex"; natively the two
// sections are run concurrently (the replay is built with -race, so the race detector is the judge).
func NoRace(a, b, id string) {
	fa, fb := sections[a], sections[b]
	if fa == nil || fb == nil {
		return
	}
	for round := 0; round < 50; round++ {
		for _, l := range []string{a, b} {
			if setup := sectionSetups[l]; setup != nil {
				setup()
			}
		}
		Par(func() { defer func() { recover() }(); fa() }, func() { defer func() { recover() }(); fb() })
	}
}

func Par(f, g func()) {
	done := make(chan interface{}, 2)
	run := func(h func()) {
		defer func() { done <- recover() }()
		h()
	}
	go run(f)
	go run(g)
	r1, r2 := <-done, <-done
	if r1 != nil {
		panic(r1)
	}
	if r2 != nil {
		panic(r2)
	}
}

type outcome struct {
	TraceSum uint64   `json:"trace_sum"`
	TraceN   int      `json:"trace_n"`
	File     string   `json:"file"`
	Failed   []string `json:"failed"`
	Panic    string   `json:"panic"`
	Assume   bool     `json:"assume"`
	Finished bool     `json:"finished"`
	Hang     bool     `json:"hang"` // the harness did not return within the hang limit (a deadlock, natively)
}

// hangLimit: how long one native run of a harness may take before it is reported as hanging.
func hangLimit() time.Duration {
	if s := os.Getenv("VERIF_REPLAY_HANG_SECONDS"); s != "" {
		if n, err := strconv.Atoi(s); err == nil && n > 0 {
			return time.Duration(n) * time.Second
		}
	}
	return 30 * time.Second
}

// ReplayAll runs every replay file listed in $VERIF_REPLAY_LIST and prints one NDRESULT line each.
func ReplayAll(harnesses map[string]func()) {
	list, err := os.ReadFile(os.Getenv("VERIF_REPLAY_LIST"))
	if err != nil {
		panic(err)
	}
	for _, f := range strings.Fields(string(list)) {
		o := outcome{File: f, Failed: []string{}}
		if err := load(f); err != nil {
			o.Panic = "cannot load replay file: " + err.Error()
		} else if h := harnesses[cur.Harness]; h == nil {
			o.Panic = "no such harness: " + cur.Harness
		} else {
			rounds := 1
			if cur.Stress > 0 {
				rounds = cur.Stress // the counterexample needs a particular thread schedule: try repeatedly
			}
			for round := 0; round < rounds && len(o.Failed) == 0 && o.Panic == ""; round++ {
				if round > 0 {
					load(f)
				}
				done := make(chan struct{})
				go func() {
					defer close(done)
					defer func() {
						if r := recover(); r != nil {
							if _, ok := r.(assumeViolated); ok {
								o.Assume = true
								return
							}
							o.Panic = fmt.Sprintf("%v\n%s", r, moduleFrames(string(debug.Stack())))
						}
					}()
					h()
					o.Finished = true
				}()
				select {
				case <-done:
				case <-time.After(hangLimit()):
					// the run is blocked for good (the goroutine is abandoned; it holds nothing the next
					// replay uses, every replay builds its own client)
					o.Hang = true
				}
				o.Failed = append(o.Failed, failed...)
				o.TraceSum, o.TraceN = traceSum, traceN
				if o.Hang {
					break
				}
			}
		}
		b, _ := json.Marshal(o)
		fmt.Printf("\nNDRESULT %s\n", b)
	}
}

func moduleFrames(stack string) string {
	var out []string
	for _, l := range strings.Split(stack, "\n") {
		if strings.HasPrefix(l, "github.com/truora/minidyn") && !strings.Contains(l, "internal/nd") {
			out = append(out, l)
		}
		if len(out) >= 8 {
			break
		}
	}
	return strings.Join(out, "\n")
}

//go:build verif

package client

import (
	"github.com/aws/aws-sdk-go-v2/aws"
	"github.com/aws/aws-sdk-go-v2/service/dynamodb"
	"github.com/aws/aws-sdk-go-v2/service/dynamodb/types"
	"github.com/truora/minidyn/internal/nd"
)

func vSameKey(a, b vItem) bool {
	ap, _ := vGetS(a, "p")
	bp, _ := vGetS(b, "p")
	as, _ := vGetS(a, "s")
	bs, _ := vGetS(b, "s")
	return ap == bp && as == bs
}

// vWithout returns seq without the item whose primary key equals key's.
func vWithout(seq []vItem, key vItem) []vItem {
	var out []vItem
	for _, it := range seq {
		if !vSameKey(it, key) {
			out = append(out, it)
		}
	}
	return out
}

// VerifC04Pages: for any content, request shape and Limit >= 1, following LastEvaluatedKey until none is
// returned yields exactly the unpaginated result, in pages of at most Limit items; optionally the item
// named by the first LastEvaluatedKey is deleted between page 1 and page 2, and every other item must
// still be returned.
func VerifC04Pages() {
	n := nd.Param("n", 3)
	c := vClient(true)
	// the index projects everything or its keys only: pagination through it works either way (what a page
	// holds is compared with what the unpaginated read through the same index holds)
	if nd.Param("index", 2) != 0 && nd.Choice("index-projection", 2) == 1 {
		nd.Reach("keys-only-index")
		_, uerr := c.UpdateTable(vCtx, &dynamodb.UpdateTableInput{TableName: aws.String(vTbl),
			AttributeDefinitions: []types.AttributeDefinition{{AttributeName: aws.String("g"), AttributeType: types.ScalarAttributeTypeS}, {AttributeName: aws.String("h"), AttributeType: types.ScalarAttributeTypeS}},
			GlobalSecondaryIndexUpdates: []types.GlobalSecondaryIndexUpdate{{Create: &types.CreateGlobalSecondaryIndexAction{IndexName: aws.String(vIdx),
				KeySchema:  []types.KeySchemaElement{{AttributeName: aws.String("g"), KeyType: types.KeyTypeHash}, {AttributeName: aws.String("h"), KeyType: types.KeyTypeRange}},
				Projection: &types.Projection{ProjectionType: types.ProjectionTypeKeysOnly}}}}})
		nd.Assert(uerr == nil, "setup-addindex-keys-only")
	} else {
		nd.Assert(AddIndex(vCtx, c, vTbl, vIdx, "g", "h") == nil, "setup-addindex")
	}
	// one partition ("a") and one index partition ("g"): the sort keys, the index sort keys (which may
	// coincide: equal index keys) and the filter attribute are symbolic
	// parts=1: the partition key of every item (and its index partition key) is symbolic too, so that a Scan
	// pages across partition boundaries and a Query has to skip other partitions' items; sparse=1: an item may
	// lack the index key attributes (it is then absent from the index, and a page boundary may fall next to it)
	parts, sparse := nd.Param("parts", 0) == 1, nd.Param("sparse", 0) == 1
	hv, ghv := "a", "g"
	if parts {
		hv, ghv = nd.StringN("rd.hv", 1), nd.StringN("rd.ghv", 1)
	}
	for i := 0; i < n; i++ {
		nm := "k" + string(rune('0'+i))
		pv, gv := "a", "g"
		if parts {
			pv, gv = nd.StringN(nm+".p", 1), nd.StringN(nm+".g", 1)
		}
		it := vItem{"p": vS(pv), "s": vS(nd.StringN(nm+".s", 1)), "f": vS(nd.StringN(nm+".f", 1))}
		if !sparse || nd.Choice(nm+".indexed", 2) == 1 {
			it["g"], it["h"] = vS(gv), vS(nd.StringN(nm+".h", 1))
		} else {
			nd.Reach("unindexed-item")
		}
		nd.Assert(vPut(c, it) == nil, "setup-put")
	}
	r := vRead{forward: true}
	switch nd.Param("index", 2) {
	case 0:
		r.index = false
	case 1:
		r.index = true
	default:
		r.index = nd.Choice("rd.index", 2) == 1
	}
	switch nd.Choice("rd.shape", 8) {
	case 7: // a sort-key range condition, a filter and a Limit: pages may end on items the key condition excludes
		r.hashVal, r.rangeOp, r.r1, r.filter, r.fv = hv, ">=", nd.StringN("rd.r1", 1), "<>", nd.StringN("rd.fv", 1)
	case 5: // a sort-key range condition together with a Limit
		r.hashVal, r.rangeOp, r.r1 = hv, ">=", nd.StringN("rd.r1", 1)
	case 6:
		r.hashVal, r.rangeOp, r.r1, r.forward = hv, "<", nd.StringN("rd.r1", 1), false
	case 0:
		r.scan = true
	case 1:
		r.scan, r.filter, r.fv = true, "=", nd.StringN("rd.fv", 1)
	case 2:
		r.hashVal = hv
	case 3:
		r.hashVal, r.forward = hv, false
	case 4:
		r.hashVal, r.filter, r.fv = hv, "<>", nd.StringN("rd.fv", 1)
	}
	if r.index && !r.scan {
		r.hashVal = ghv
	}
	full, _, lastFull, err := r.run(c, 0, nil)
	nd.Assert(err == nil && len(lastFull) == 0, "C04-unlimited-read-is-complete")
	if err != nil {
		return
	}
	limit := int32(1 + nd.Choice("limit", n+1))
	del := nd.Choice("delete-boundary", 2) == 1
	var got []vItem
	var start, boundary vItem
	pages := 0
	for {
		items, _, last, err := r.run(c, limit, start)
		nd.Assert(err == nil, "C04-page-noerr")
		if err != nil {
			return
		}
		nd.Assert(len(items) <= int(limit), "C04-page-size")
		got = append(got, items...)
		pages++
		if len(last) == 0 {
			break
		}
		nd.Assert(pages <= 2*n+2, "C04-terminates")
		if pages > 2*n+2 {
			return
		}
		start = last
		if del && pages == 1 {
			boundary = last
			_, derr := c.DeleteItem(vCtx, &dynamodb.DeleteItemInput{TableName: aws.String(vTbl), Key: vItem{"p": last["p"], "s": last["s"]}})
			nd.Assert(derr == nil, "C04-delete-noerr")
			nd.Reach("deleted-boundary")
		}
	}
	if pages > 1 {
		nd.Reach("several-pages")
	}
	want := full
	if boundary != nil {
		if nd.Known("C04-deleted-boundary-loses-rest") {
			nd.Assume(false)
		}
		// the boundary item may or may not have been returned on page 1; it is gone afterwards
		want = vWithout(full, boundary)
		got = vWithout(got, boundary)
	}
	nd.Assert(len(got) == len(want), "C04-same-length")
	if len(got) == len(want) {
		for i := range got {
			nd.Assert(vSameKey(got[i], want[i]), "C04-same-sequence")
			nd.Assert(vSameItem(got[i], want[i]), "C04-same-items")
		}
	}
	nd.Reach("end")
}

//go:build verif

package client

import (
	"errors"

	"github.com/aws/aws-sdk-go-v2/aws"
	"github.com/aws/aws-sdk-go-v2/service/dynamodb"
	"github.com/aws/aws-sdk-go-v2/service/dynamodb/types"
	"github.com/truora/minidyn/internal/nd"
	"github.com/truora/minidyn/interpreter"
)

// vC11Sections registers one section per client method on a shared client.
func vC11Sections(c *Client) []string {
	tbl := aws.String(vTbl)
	k := nd.StringN("k", 1)
	// preparation steps: the situation in which the section has its full effect
	setups := map[string]func(){
		"CreateTable": func() { c.DeleteTable(vCtx, &dynamodb.DeleteTableInput{TableName: aws.String("other")}) },
		"DeleteTable": func() { AddTable(vCtx, c, "other", "p", "") },
		"UpdateTable": func() {
			c.UpdateTable(vCtx, &dynamodb.UpdateTableInput{TableName: tbl, GlobalSecondaryIndexUpdates: []types.GlobalSecondaryIndexUpdate{{Delete: &types.DeleteGlobalSecondaryIndexAction{IndexName: aws.String("late")}}}})
		},
	}
	secs := []struct {
		name string
		f    func()
	}{
		{"PutItem", func() { c.PutItem(vCtx, &dynamodb.PutItemInput{TableName: tbl, Item: vItem{"p": vS(k), "v": vS("x")}}) }},
		{"GetItem", func() { c.GetItem(vCtx, &dynamodb.GetItemInput{TableName: tbl, Key: vItem{"p": vS(k)}}) }},
		{"UpdateItem", func() {
			c.UpdateItem(vCtx, &dynamodb.UpdateItemInput{TableName: tbl, Key: vItem{"p": vS(k)}, UpdateExpression: aws.String("SET v = :x"), ExpressionAttributeValues: vItem{":x": vS("y")}})
		}},
		{"DeleteItem", func() { c.DeleteItem(vCtx, &dynamodb.DeleteItemInput{TableName: tbl, Key: vItem{"p": vS(k)}}) }},
		{"Query", func() {
			c.Query(vCtx, &dynamodb.QueryInput{TableName: tbl, KeyConditionExpression: aws.String("p = :p"), ExpressionAttributeValues: vItem{":p": vS(k)}})
		}},
		{"Scan", func() { c.Scan(vCtx, &dynamodb.ScanInput{TableName: tbl}) }},
		{"QueryIndex", func() {
			c.Query(vCtx, &dynamodb.QueryInput{TableName: tbl, IndexName: aws.String(vIdx), KeyConditionExpression: aws.String("g = :g"), ExpressionAttributeValues: vItem{":g": vS("gv")}})
		}},
		{"ScanIndex", func() { c.Scan(vCtx, &dynamodb.ScanInput{TableName: tbl, IndexName: aws.String(vIdx)}) }},
		{"BatchWriteItem", func() {
			c.BatchWriteItem(vCtx, &dynamodb.BatchWriteItemInput{RequestItems: map[string][]types.WriteRequest{vTbl: {{PutRequest: &types.PutRequest{Item: vItem{"p": vS("b")}}}}}})
		}},
		{"BatchGetItem", func() {
			c.BatchGetItem(vCtx, &dynamodb.BatchGetItemInput{RequestItems: map[string]types.KeysAndAttributes{vTbl: {Keys: []vItem{{"p": vS(k)}}}}})
		}},
		{"TransactWriteItems", func() { c.TransactWriteItems(vCtx, &dynamodb.TransactWriteItemsInput{}) }},
		{"DescribeTable", func() { c.DescribeTable(vCtx, &dynamodb.DescribeTableInput{TableName: tbl}) }},
		{"CreateTable", func() { AddTable(vCtx, c, "other", "p", "") }},
		{"DeleteTable", func() { c.DeleteTable(vCtx, &dynamodb.DeleteTableInput{TableName: aws.String("other")}) }},
		{"UpdateTable", func() { AddIndex(vCtx, c, vTbl, "late", "g", "") }},
		{"ClearTable", func() { ClearTable(c, vTbl) }},
		{"EmulateFailure", func() { EmulateFailure(c, FailureConditionNone) }},
		{"ActivateNativeInterpreter", func() { c.ActivateNativeInterpreter() }},
		{"SetInterpreter", func() { c.SetInterpreter(interpreter.NewNativeInterpreter()) }},
		{"ActivateDebug", func() { c.ActivateDebug() }},
		{"SetItemCollectionMetrics", func() { SetItemCollectionMetrics(c, map[string][]types.ItemCollectionMetrics{}) }},
		{"GetNativeInterpreter", func() { c.GetNativeInterpreter() }},
	}
	names := []string{}
	for _, s := range secs {
		if setup := setups[s.name]; setup != nil {
			nd.SectionSetup(s.name, setup, s.f)
		} else {
			nd.Section(s.name, s.f)
		}
		names = append(names, s.name)
	}
	return names
}

// VerifC11Locks: lock discipline. Every client method is executed on a shared client while every access to
// a cell reachable from the client is recorded with the mutexes held; for every pair of methods, every pair
// of conflicting accesses (same cell, at least one write) must hold a common mutex.
func VerifC11Locks() {
	c := vClient(false)
	nd.Assert(AddIndex(vCtx, c, vTbl, vIdx, "g", "") == nil, "setup-addindex")
	nd.Assert(vPut(c, vItem{"p": vS("0"), "v": vS("x"), "g": vS("gv")}) == nil, "setup-put")
	nd.Assert(AddTable(vCtx, c, "other", "p", "") == nil, "setup-addtable")
	nd.Track(c)
	names := vC11Sections(c)
	for i := range names {
		for j := i; j < len(names); j++ {
			nd.NoRace(names[i], names[j], "C11-no-data-race ["+names[i]+" / "+names[j]+"]")
		}
	}
	nd.Reach("end")
}

// VerifC11Atomic: two calls issued concurrently (all interleavings at mutex operations and unlocked shared
// accesses, up to the pre-emption bound) have the outcome of one of the two serial orders.
func VerifC11Atomic() {
	c := vClient(false)
	nd.Assert(vPut(c, vItem{"p": vS("k"), "n": vN("0")}) == nil, "setup-put")
	nd.Track(c)
	tbl := aws.String(vTbl)
	switch nd.Choice("pair", 15) {
	case 0: // N concurrent ADD 1 yield N
		add := func() {
			c.UpdateItem(vCtx, &dynamodb.UpdateItemInput{TableName: tbl, Key: vItem{"p": vS("k")}, UpdateExpression: aws.String("ADD n :one"), ExpressionAttributeValues: vItem{":one": vN("1")}})
		}
		nd.Par(add, add)
		got, _ := vGet(c, vItem{"p": vS("k")})
		n, _ := got["n"].(*types.AttributeValueMemberN)
		nd.Assert(n != nil && n.Value == "2", "C11-two-concurrent-adds-yield-2")
	case 1: // exactly one of two racing attribute_not_exists puts succeeds
		var e1, e2 error
		put := func(e *error) func() {
			return func() {
				_, *e = c.PutItem(vCtx, &dynamodb.PutItemInput{TableName: tbl, Item: vItem{"p": vS("new")}, ConditionExpression: aws.String("attribute_not_exists(p)")})
			}
		}
		nd.Par(put(&e1), put(&e2))
		nd.Assert((e1 == nil) != (e2 == nil), "C11-exactly-one-conditional-put-wins")
	case 2: // two creations of one table: exactly one succeeds
		var e1, e2 error
		nd.Par(func() { e1 = AddTable(vCtx, c, "fresh", "p", "") }, func() { e2 = AddTable(vCtx, c, "fresh", "p", "") })
		nd.Assert((e1 == nil) != (e2 == nil), "C11-exactly-one-create-wins")
	case 3: // put racing with delete of the same key: the item is either there or not, the table stays coherent
		nd.Par(func() { vPut(c, vItem{"p": vS("k"), "n": vN("5")}) },
			func() { c.DeleteItem(vCtx, &dynamodb.DeleteItemInput{TableName: tbl, Key: vItem{"p": vS("k")}}) })
		vInvariant(c, "C11-put-delete")
		got, _ := vGet(c, vItem{"p": vS("k")})
		n, _ := got["n"].(*types.AttributeValueMemberN)
		nd.Assert(len(got) == 0 || (n != nil && n.Value == "5"), "C11-put-delete-serializable")
	case 4: // batch write racing with a conditional delete
		var e2 error
		nd.Par(func() {
			c.BatchWriteItem(vCtx, &dynamodb.BatchWriteItemInput{RequestItems: map[string][]types.WriteRequest{vTbl: {{PutRequest: &types.PutRequest{Item: vItem{"p": vS("b")}}}, {DeleteRequest: &types.DeleteRequest{Key: vItem{"p": vS("k")}}}}}})
		}, func() {
			_, e2 = c.DeleteItem(vCtx, &dynamodb.DeleteItemInput{TableName: tbl, Key: vItem{"p": vS("b")}, ConditionExpression: aws.String("attribute_exists(p)")})
		})
		vInvariant(c, "C11-batch-delete")
		got, _ := vGet(c, vItem{"p": vS("b")})
		// the conditional delete succeeded iff it ran after the batch's put: then b is gone, else b is there
		nd.Assert((e2 == nil) == (len(got) == 0), "C11-batch-vs-conditional-delete-serializable")
	case 5: // clear racing with put: afterwards the table is empty or holds exactly the new item
		nd.Par(func() { ClearTable(c, vTbl) }, func() { vPut(c, vItem{"p": vS("z")}) })
		vInvariant(c, "C11-clear-put")
		items := vScanAll(c)
		ok := len(items) == 0
		if len(items) == 1 {
			p, _ := vGetS(items[0], "p")
			ok = p == "z"
		}
		if len(items) == 2 {
			ok = true // put ran first, then ... no: clear removes both; two items means clear ran before nothing
			ok = false
		}
		nd.Assert(ok, "C11-clear-vs-put-serializable")
	case 6: // index creation racing with the write of an indexed item: the index mirrors the table afterwards
		nd.Par(func() { AddIndex(vCtx, c, vTbl, vIdx, "g", "") }, func() { vPut(c, vItem{"p": vS("i"), "g": vS("gv")}) })
		vInvariant(c, "C11-addindex-put")
		out, err := c.Scan(vCtx, &dynamodb.ScanInput{TableName: tbl, IndexName: aws.String(vIdx)})
		nd.Assert(err == nil && len(out.Items) == 1, "C11-index-created-during-put-mirrors-table")
	case 7: // table deletion racing with a put: the put succeeded before or failed after; the table is gone
		var e2 error
		nd.Par(func() { c.DeleteTable(vCtx, &dynamodb.DeleteTableInput{TableName: tbl}) }, func() { e2 = vPut(c, vItem{"p": vS("z")}) })
		nd.Assert(e2 == nil || vErrCode(e2) == "ResourceNotFoundException", "C11-put-vs-delete-table-outcome")
		_, derr := c.DescribeTable(vCtx, &dynamodb.DescribeTableInput{TableName: tbl})
		nd.Assert(vErrCode(derr) == "ResourceNotFoundException", "C11-table-gone-after-delete")
	case 8: // failure activation racing with a put: refused without effect, or applied
		var e2 error
		nd.Par(func() { EmulateFailure(c, FailureConditionInternalServerError) }, func() { e2 = vPut(c, vItem{"p": vS("z")}) })
		EmulateFailure(c, FailureConditionNone)
		got, gerr := vGet(c, vItem{"p": vS("z")})
		nd.Assert(gerr == nil && (e2 == nil) == (len(got) != 0), "C11-put-vs-failure-toggle-all-or-nothing")
	case 9: // update of an indexed attribute racing with an index scan: the reader sees the item exactly once
		nd.Assert(AddIndex(vCtx, c, vTbl, vIdx, "g", "") == nil, "setup-addindex")
		nd.Assert(vPut(c, vItem{"p": vS("i"), "g": vS("a")}) == nil, "setup-put-indexed")
		var seen []vItem
		var serr error
		nd.Par(func() {
			c.UpdateItem(vCtx, &dynamodb.UpdateItemInput{TableName: tbl, Key: vItem{"p": vS("i")}, UpdateExpression: aws.String("SET g = :g"), ExpressionAttributeValues: vItem{":g": vS("b")}})
		}, func() {
			out, err := c.Scan(vCtx, &dynamodb.ScanInput{TableName: tbl, IndexName: aws.String(vIdx)})
			serr = err
			if err == nil {
				seen = out.Items
			}
		})
		nd.Assert(serr == nil && len(seen) == 1, "C11-index-reader-sees-item-once")
		if len(seen) == 1 {
			g, _ := vGetS(seen[0], "g")
			nd.Assert(g == "a" || g == "b", "C11-index-reader-sees-old-or-new")
		}
	case 10: // clear racing with an upsert that adds: empty table, or a fresh counter
		nd.Par(func() { ClearTable(c, vTbl) }, func() {
			c.UpdateItem(vCtx, &dynamodb.UpdateItemInput{TableName: tbl, Key: vItem{"p": vS("k")}, UpdateExpression: aws.String("ADD n :one"), ExpressionAttributeValues: vItem{":one": vN("1")}})
		})
		vInvariant(c, "C11-clear-add")
		got, _ := vGet(c, vItem{"p": vS("k")})
		n, _ := got["n"].(*types.AttributeValueMemberN)
		nd.Assert(len(got) == 0 || (n != nil && n.Value == "1"), "C11-clear-vs-add-serializable")
	case 12: // a batch read (several keys, several internal steps) racing with an update: both complete, the read sees
		// the item before or after the update
		var out *dynamodb.BatchGetItemOutput
		var e1, e2 error
		nd.Par(func() {
			out, e1 = c.BatchGetItem(vCtx, &dynamodb.BatchGetItemInput{RequestItems: map[string]types.KeysAndAttributes{vTbl: {Keys: []vItem{{"p": vS("k")}, {"p": vS("k")}}}}})
		}, func() {
			_, e2 = c.UpdateItem(vCtx, &dynamodb.UpdateItemInput{TableName: tbl, Key: vItem{"p": vS("k")}, UpdateExpression: aws.String("ADD n :one"), ExpressionAttributeValues: vItem{":one": vN("1")}})
		})
		nd.Assert(e1 == nil && e2 == nil, "C11-batchget-vs-update-both-complete")
		if e1 == nil {
			for _, it := range out.Responses[vTbl] {
				n, _ := it["n"].(*types.AttributeValueMemberN)
				nd.Assert(n != nil && (n.Value == "0" || n.Value == "1"), "C11-batchget-sees-a-committed-state")
			}
		}
	case 13: // two reads through the same index at the same time: each returns the whole index
		var o1, o2 *dynamodb.ScanOutput
		var e1, e2 error
		nd.Assert(AddIndex(vCtx, c, vTbl, vIdx, "g", "") == nil, "setup-addindex")
		nd.Assert(vPut(c, vItem{"p": vS("k"), "n": vN("0"), "g": vS("x")}) == nil && vPut(c, vItem{"p": vS("j"), "n": vN("0"), "g": vS("y")}) == nil, "setup-put-indexed")
		nd.Par(func() { o1, e1 = c.Scan(vCtx, &dynamodb.ScanInput{TableName: tbl, IndexName: aws.String(vIdx)}) },
			func() { o2, e2 = c.Scan(vCtx, &dynamodb.ScanInput{TableName: tbl, IndexName: aws.String(vIdx)}) })
		nd.Assert(e1 == nil && e2 == nil && len(o1.Items) == 2 && len(o2.Items) == 2, "C11-concurrent-index-reads-return-the-whole-index")
	case 14: // two deletes of one item that ask for the old item: exactly one of them removed it and gets it
		var o1, o2 *dynamodb.DeleteItemOutput
		var e1, e2 error
		nd.Par(func() {
			o1, e1 = c.DeleteItem(vCtx, &dynamodb.DeleteItemInput{TableName: tbl, Key: vItem{"p": vS("k")}, ReturnValues: types.ReturnValueAllOld})
		}, func() {
			o2, e2 = c.DeleteItem(vCtx, &dynamodb.DeleteItemInput{TableName: tbl, Key: vItem{"p": vS("k")}, ReturnValues: types.ReturnValueAllOld})
		})
		nd.Assert(e1 == nil && e2 == nil, "C11-two-deletes-complete")
		if e1 == nil && e2 == nil {
			nd.Assert((len(o1.Attributes) > 0) != (len(o2.Attributes) > 0), "C11-exactly-one-delete-returns-the-old-item")
		}
	case 11: // two conditional updates taking a lock attribute: exactly one wins
		var e1, e2 error
		take := func(e *error, who string) func() {
			return func() {
				_, *e = c.UpdateItem(vCtx, &dynamodb.UpdateItemInput{TableName: tbl, Key: vItem{"p": vS("k")}, UpdateExpression: aws.String("SET holder = :w"),
					ConditionExpression: aws.String("attribute_not_exists(holder)"), ExpressionAttributeValues: vItem{":w": vS(who)}})
			}
		}
		nd.Par(take(&e1, "one"), take(&e2, "two"))
		nd.Assert((e1 == nil) != (e2 == nil), "C11-exactly-one-conditional-update-wins")
		got, _ := vGet(c, vItem{"p": vS("k")})
		h, _ := vGetS(got, "holder")
		nd.Assert((e1 == nil && h == "one") || (e2 == nil && h == "two"), "C11-winner-holds-the-lock")
	}
	nd.Reach("end")
}

var errRefusedInBatch = errors.New("refused inside the batch")

// VerifC11Aborted: a call that aborts - the library reports malformed read expressions with a panic, which
// the caller may recover from - releases the client: the next call on the same client completes (no
// deadlock) and sees an intact table.
func VerifC11Aborted() {
	c := vClient(false)
	nd.Assert(AddIndex(vCtx, c, vTbl, vIdx, "g", "") == nil, "setup-addindex")
	nd.Assert(vPut(c, vItem{"p": vS("k"), "g": vS("gv"), "v": vS("x")}) == nil, "setup-put")
	tbl := aws.String(vTbl)
	bad := aws.String("v = = :x")
	vals := vItem{":x": vS("x")}
	aborting := []func() error{
		func() error {
			_, e := c.Scan(vCtx, &dynamodb.ScanInput{TableName: tbl, FilterExpression: bad, ExpressionAttributeValues: vals})
			return e
		},
		func() error {
			_, e := c.Scan(vCtx, &dynamodb.ScanInput{TableName: tbl, IndexName: aws.String(vIdx), FilterExpression: bad, ExpressionAttributeValues: vals})
			return e
		},
		func() error {
			_, e := c.Query(vCtx, &dynamodb.QueryInput{TableName: tbl, KeyConditionExpression: aws.String("p = :p"), FilterExpression: bad, ExpressionAttributeValues: vItem{":p": vS("k"), ":x": vS("x")}})
			return e
		},
		func() error {
			_, e := c.Query(vCtx, &dynamodb.QueryInput{TableName: tbl, KeyConditionExpression: aws.String("p = = :p"), ExpressionAttributeValues: vItem{":p": vS("k")}})
			return e
		},
		func() error {
			_, e := c.PutItem(vCtx, &dynamodb.PutItemInput{TableName: tbl, Item: vItem{"p": vS("k")}, ConditionExpression: bad, ExpressionAttributeValues: vals})
			return e
		},
		func() error {
			_, e := c.UpdateItem(vCtx, &dynamodb.UpdateItemInput{TableName: tbl, Key: vItem{"p": vS("k")}, UpdateExpression: aws.String("SET v = :x"), ConditionExpression: bad, ExpressionAttributeValues: vals})
			return e
		},
		func() error {
			_, e := c.DeleteItem(vCtx, &dynamodb.DeleteItemInput{TableName: tbl, Key: vItem{"p": vS("k")}, ConditionExpression: bad, ExpressionAttributeValues: vals})
			return e
		},
		func() error {
			_, e := c.UpdateItem(vCtx, &dynamodb.UpdateItemInput{TableName: tbl, Key: vItem{"p": vS("k")}, UpdateExpression: aws.String("SET v = = :x"), ExpressionAttributeValues: vals})
			return e
		},
		func() error {
			_, e := c.BatchWriteItem(vCtx, &dynamodb.BatchWriteItemInput{RequestItems: map[string][]types.WriteRequest{vTbl: {{}}}})
			return e
		},
		func() error {
			_, e := c.GetItem(vCtx, &dynamodb.GetItemInput{TableName: tbl, Key: vItem{"p": vN("1")}})
			return e
		},
		func() error {
			_, e := c.Query(vCtx, &dynamodb.QueryInput{TableName: tbl, IndexName: aws.String("nosuch"), KeyConditionExpression: aws.String("p = :p"), ExpressionAttributeValues: vItem{":p": vS("k")}})
			return e
		},
		// refused management calls and helpers (early returns)
		func() error { return ClearTable(c, "nosuch") },
		func() error { return AddIndex(vCtx, c, "nosuch", "late", "g", "") },
		func() error { return AddTable(vCtx, c, vTbl, "p", "") },
		func() error {
			_, e := c.DeleteTable(vCtx, &dynamodb.DeleteTableInput{TableName: aws.String("nosuch")})
			return e
		},
		func() error {
			_, e := c.DescribeTable(vCtx, &dynamodb.DescribeTableInput{TableName: aws.String("nosuch")})
			return e
		},
		func() error {
			_, e := c.UpdateTable(vCtx, &dynamodb.UpdateTableInput{TableName: tbl, GlobalSecondaryIndexUpdates: []types.GlobalSecondaryIndexUpdate{{Delete: &types.DeleteGlobalSecondaryIndexAction{IndexName: aws.String("nosuch")}}}})
			return e
		},
		func() error {
			_, e := c.Scan(vCtx, &dynamodb.ScanInput{TableName: aws.String("nosuch")})
			return e
		},
		func() error {
			_, e := c.BatchGetItem(vCtx, &dynamodb.BatchGetItemInput{RequestItems: map[string]types.KeysAndAttributes{vTbl: {Keys: []vItem{{"p": vN("1")}}}}})
			if e == nil {
				e = errRefusedInBatch // a batch reports a bad key per key, not as an error of the call
			}
			return e
		},
		func() error {
			EmulateFailure(c, FailureConditionInternalServerError)
			_, e := c.Scan(vCtx, &dynamodb.ScanInput{TableName: tbl})
			EmulateFailure(c, FailureConditionNone)
			return e
		},
	}
	err, panicked := vCatch(aborting[nd.Choice("call", len(aborting))])
	nd.Assert(err != nil || panicked, "C11-malformed-request-is-refused")
	if panicked {
		nd.Reach("aborted-with-panic")
	}
	// the client is usable afterwards, through every kind of entry point
	switch nd.Choice("next", 4) {
	case 0:
		nd.Assert(vPut(c, vItem{"p": vS("z")}) == nil, "C11-client-usable-after-aborted-call [PutItem]")
	case 1:
		out, serr := c.Scan(vCtx, &dynamodb.ScanInput{TableName: tbl})
		nd.Assert(serr == nil && len(out.Items) == 1, "C11-client-usable-after-aborted-call [Scan]")
	case 2:
		_, derr := c.DescribeTable(vCtx, &dynamodb.DescribeTableInput{TableName: tbl})
		nd.Assert(derr == nil, "C11-client-usable-after-aborted-call [DescribeTable]")
	case 3:
		EmulateFailure(c, FailureConditionNone)
	}
	vInvariant(c, "C11-aborted")
	nd.Reach("end")
}

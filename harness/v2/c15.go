//go:build verif

package client

import (
	"errors"

	"github.com/aws/aws-sdk-go-v2/aws"
	"github.com/aws/aws-sdk-go-v2/service/dynamodb"
	"github.com/aws/aws-sdk-go-v2/service/dynamodb/types"
	"github.com/truora/minidyn/internal/nd"
)

// vIsConfigured: err is exactly the error the active failure condition configures.
func vIsConfigured(err error, internal bool) bool {
	if err == nil {
		return false
	}
	if internal {
		var ise *types.InternalServerError
		return errors.As(err, &ise) && aws.ToString(ise.Message) == "emulated error"
	}
	return errors.Is(err, ErrForcedFailure)
}

// VerifC15Failures: while a failure condition is active every data operation returns the configured error
// and changes nothing; a batch write under internal-server failure applies nothing and reports every
// request as unprocessed; after deactivation the client behaves as if the failing calls had never been made.
func VerifC15Failures() {
	c := vClient(false)
	kv := nd.StringN("k.v", 1)
	nd.Assert(vPut(c, vItem{"p": vS("k"), "v": vS(kv)}) == nil, "setup-put")
	// a second table, for batches that span tables
	nd.Assert(AddTable(vCtx, c, "tb2", "p", "") == nil, "setup-addtable2")
	_, perr := c.PutItem(vCtx, &dynamodb.PutItemInput{TableName: aws.String("tb2"), Item: vItem{"p": vS("k2"), "v": vS(kv)}})
	nd.Assert(perr == nil, "setup-put2")
	scan2 := func() []vItem {
		out, err := c.Scan(vCtx, &dynamodb.ScanInput{TableName: aws.String("tb2")})
		nd.Assert(err == nil, "scan2-noerr")
		if err != nil {
			return nil
		}
		return out.Items
	}
	before := vScanAll(c)
	before2 := scan2()
	tbl := aws.String(vTbl)
	steps := nd.Param("steps", 1)
	for step := 0; step < steps; step++ {
		// the condition may be activated while the other one is still active: the latest activation counts
		switch nd.Choice("already-active", 3) {
		case 1:
			EmulateFailure(c, FailureConditionInternalServerError)
		case 2:
			ActiveForceFailure(c)
		}
		internal := false
		switch nd.Choice("condition", 3) {
		case 0:
			EmulateFailure(c, FailureConditionInternalServerError)
			internal = true
		case 1:
			EmulateFailure(c, FailureConditionDeprecated)
		case 2:
			ActiveForceFailure(c)
		}
		x := nd.StringN("x", 1)
		var err error
		batch := false
		var unprocessed map[string][]types.WriteRequest
		reqs := []types.WriteRequest{
			{PutRequest: &types.PutRequest{Item: vItem{"p": vS("n"), "v": vS(x), "el": &types.AttributeValueMemberL{Value: []types.AttributeValue{}},
				"em": &types.AttributeValueMemberM{Value: vItem{"in": &types.AttributeValueMemberL{Value: []types.AttributeValue{}}}}}}},
			{DeleteRequest: &types.DeleteRequest{Key: vItem{"p": vS("k")}}},
		}
		// what comes back as unprocessed is the request that was sent: its empty list is a list, its map a map
		sentPut := func(it vItem) bool {
			el, ok1 := it["el"].(*types.AttributeValueMemberL)
			em, ok2 := it["em"].(*types.AttributeValueMemberM)
			if !ok1 || !ok2 || len(el.Value) != 0 || len(em.Value) != 1 || len(it) != 4 {
				return false
			}
			in, ok3 := em.Value["in"].(*types.AttributeValueMemberL)
			pv, _ := vGetS(it, "p")
			vv, _ := vGetS(it, "v")
			return ok3 && len(in.Value) == 0 && pv == "n" && vv == x
		}
		// the failure comes first: a request that would also be refused for its own sake (missing table,
		// unused placeholder) still gets the configured error
		tbl := tbl
		var names map[string]string
		switch nd.Choice("request-flavour", 3) {
		case 1:
			tbl = aws.String("nosuch")
		case 2:
			names = map[string]string{"#unused": "v"}
		}
		reqs2 := []types.WriteRequest{
			{DeleteRequest: &types.DeleteRequest{Key: vItem{"p": vS("k2")}}},
			{PutRequest: &types.PutRequest{Item: vItem{"p": vS("n2"), "v": vS(x)}}},
		}
		twoTables := false
		switch nd.Choice("op", 10) {
		case 9:
			batch, twoTables = true, true
			var out *dynamodb.BatchWriteItemOutput
			out, err = c.BatchWriteItem(vCtx, &dynamodb.BatchWriteItemInput{RequestItems: map[string][]types.WriteRequest{vTbl: reqs, "tb2": reqs2}})
			if out != nil {
				unprocessed = out.UnprocessedItems
			}
		case 0:
			_, err = c.PutItem(vCtx, &dynamodb.PutItemInput{TableName: tbl, Item: vItem{"p": vS("k"), "v": vS(x)}, ExpressionAttributeNames: names})
		case 1:
			_, err = c.GetItem(vCtx, &dynamodb.GetItemInput{TableName: tbl, Key: vItem{"p": vS("k")}, ExpressionAttributeNames: names})
		case 2:
			_, err = c.UpdateItem(vCtx, &dynamodb.UpdateItemInput{TableName: tbl, Key: vItem{"p": vS("k")}, UpdateExpression: aws.String("SET v = :x"), ExpressionAttributeValues: vItem{":x": vS(x)}, ExpressionAttributeNames: names})
		case 3:
			_, err = c.DeleteItem(vCtx, &dynamodb.DeleteItemInput{TableName: tbl, Key: vItem{"p": vS("k")}, ExpressionAttributeNames: names})
		case 4:
			_, err = c.Query(vCtx, &dynamodb.QueryInput{TableName: tbl, KeyConditionExpression: aws.String("p = :p"), ExpressionAttributeValues: vItem{":p": vS("k")}, ExpressionAttributeNames: names})
		case 5:
			_, err = c.Scan(vCtx, &dynamodb.ScanInput{TableName: tbl, ExpressionAttributeNames: names})
		case 6:
			// any composition, also a batch that names no key at all
			bk := map[string]types.KeysAndAttributes{vTbl: {Keys: []vItem{{"p": vS("k")}}}}
			switch nd.Choice("batchget-keys", 3) {
			case 1:
				bk = map[string]types.KeysAndAttributes{}
			case 2:
				bk = map[string]types.KeysAndAttributes{vTbl: {Keys: []vItem{}}}
			}
			_, err = c.BatchGetItem(vCtx, &dynamodb.BatchGetItemInput{RequestItems: bk})
		case 7:
			_, err = c.TransactWriteItems(vCtx, &dynamodb.TransactWriteItemsInput{})
		case 8:
			batch = true
			var out *dynamodb.BatchWriteItemOutput
			out, err = c.BatchWriteItem(vCtx, &dynamodb.BatchWriteItemInput{RequestItems: map[string][]types.WriteRequest{vTbl: reqs}})
			if out != nil {
				unprocessed = out.UnprocessedItems
			}
		}
		if batch && internal {
			nd.Reach("batch-under-internal-failure")
			nd.Assert(err == nil, "C15-batch-under-internal-failure-reports-unprocessed")
			nd.Assert(len(unprocessed[vTbl]) == len(reqs), "C15-batch-every-request-unprocessed")
			if len(unprocessed[vTbl]) == len(reqs) {
				// never dropped: what comes back is the request that was sent, so that a retry applies it
				puts, dels := 0, 0
				for _, u := range unprocessed[vTbl] {
					if u.PutRequest != nil && u.DeleteRequest == nil && sentPut(u.PutRequest.Item) {
						puts++
					}
					if u.DeleteRequest != nil && u.PutRequest == nil && vSameItem(u.DeleteRequest.Key, vItem{"p": vS("k")}) {
						dels++
					}
				}
				nd.Assert(puts == 1 && dels == 1, "C15-batch-unprocessed-requests-are-the-originals")
			}
			if twoTables {
				nd.Reach("two-table-batch-under-internal-failure")
				puts, dels := 0, 0
				for _, u := range unprocessed["tb2"] {
					if u.PutRequest != nil && u.DeleteRequest == nil && vSameItem(u.PutRequest.Item, vItem{"p": vS("n2"), "v": vS(x)}) {
						puts++
					}
					if u.DeleteRequest != nil && u.PutRequest == nil && vSameItem(u.DeleteRequest.Key, vItem{"p": vS("k2")}) {
						dels++
					}
				}
				nd.Assert(len(unprocessed["tb2"]) == 2 && puts == 1 && dels == 1 && len(unprocessed) == 2, "C15-batch-unprocessed-requests-are-the-originals-per-table")
			} else {
				nd.Assert(len(unprocessed) == 1, "C15-batch-unprocessed-only-for-tables-named")
			}
		} else {
			nd.Assert(vIsConfigured(err, internal), "C15-data-call-returns-configured-error")
		}
		// no read-visible change: observe with the failure switched off, through the other toggle
		if nd.Choice("deactivate", 2) == 0 {
			EmulateFailure(c, FailureConditionNone)
		} else {
			DeactiveForceFailure(c)
		}
		nd.Assert(vSameItems(before, vScanAll(c)), "C15-failing-call-changes-nothing")
		nd.Assert(vSameItems(before2, scan2()), "C15-failing-call-changes-nothing-in-the-other-table")
	}
	// after deactivation everything works again
	nd.Assert(vPut(c, vItem{"p": vS("k"), "v": vS("after")}) == nil, "C15-works-after-deactivation")
	got, err := vGet(c, vItem{"p": vS("k")})
	nd.Assert(err == nil && vSameItem(got, vItem{"p": vS("k"), "v": vS("after")}), "C15-works-after-deactivation")
	nd.Reach("end")
}

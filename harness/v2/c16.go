//go:build verif

package client

import (
	"strings"

	"github.com/aws/aws-sdk-go-v2/aws"
	"github.com/aws/aws-sdk-go-v2/service/dynamodb"
	"github.com/aws/aws-sdk-go-v2/service/dynamodb/types"
	"github.com/truora/minidyn/internal/nd"
)

// vPlaceholderName: 1..2 characters over [a-z0-9_].
func vPlaceholderName(name string) string {
	s := nd.StringN(name, 1+nd.Choice(name+".len", 2))
	for i := 0; i < len(s); i++ {
		nd.Assume(s[i] >= 'a' && s[i] <= 'z' || s[i] >= '0' && s[i] <= '9' || s[i] == '_')
	}
	return s
}

// VerifC16Placeholders: a request is rejected iff it supplies a placeholder no expression uses, or uses a
// placeholder that was not supplied; names that are prefixes of one another are distinct placeholders.
func VerifC16Placeholders() {
	c := vClient(false)
	nd.Assert(vPut(c, vItem{"p": vS("k"), "a": vS("x")}) == nil, "setup-put")
	values := nd.Choice("kind", 2) == 0 // :values or #names
	sig := "#"
	if values {
		sig = ":"
	}
	used := sig + vPlaceholderName("used")
	nsup := nd.Choice("supplied", 3)
	supplied := []string{}
	for i := 0; i < nsup; i++ {
		supplied = append(supplied, sig+vPlaceholderName("sup"+string(rune('0'+i))))
	}
	if nsup == 2 {
		nd.Assume(supplied[0] != supplied[1])
	}
	in := &dynamodb.PutItemInput{TableName: aws.String(vTbl), Item: vItem{"p": vS("k"), "a": vS("y")}}
	if values {
		// true on the stored item whenever :used is defined (as "zz") - and also if an undefined
		// placeholder were silently treated as a missing attribute
		in.ConditionExpression = aws.String("a <> " + used)
		in.ExpressionAttributeValues = vItem{}
		for _, s := range supplied {
			in.ExpressionAttributeValues[s] = vS("zz")
		}
	} else {
		in.ConditionExpression = aws.String("attribute_not_exists(" + used + ")")
		in.ExpressionAttributeNames = map[string]string{}
		for _, s := range supplied {
			in.ExpressionAttributeNames[s] = "nosuch"
		}
	}
	unused, unusedPrefix, defined := false, false, false
	for _, s := range supplied {
		switch {
		case s == used:
			defined = true
		case len(s) < len(used) && used[:len(s)] == s:
			unusedPrefix = true // unused, but its text occurs inside the used placeholder
		default:
			unused = true
		}
	}
	err, panicked := vCatch(func() error { _, e := c.PutItem(vCtx, in); return e })
	rejected := err != nil || panicked
	if unused {
		nd.Reach("unused")
		nd.Assert(rejected, "C16-unused-placeholder-rejected")
	}
	if unusedPrefix && !unused {
		nd.Reach("unused-prefix")
		if !nd.Known("C16-placeholder-prefix-counts-as-used") {
			nd.Assert(rejected, "C16-unused-placeholder-that-is-a-prefix-rejected")
		}
	}
	if !defined && !unused && !unusedPrefix {
		nd.Reach("undefined")
		if !nd.Known("C16-undefined-placeholder-accepted") {
			nd.Assert(rejected, "C16-undefined-placeholder-rejected")
		}
	}
	if defined && !unused && !unusedPrefix {
		nd.Reach("well-formed")
		nd.Assert(!rejected, "C16-all-used-and-defined-accepted")
	}
	nd.Reach("end")
}

// VerifC16Malformed: placeholder keys that do not have the #name / :value form are rejected - as value
// keys and as name keys.
func VerifC16Malformed() {
	c := vClient(false)
	names := nd.Choice("kind", 2) == 1
	sig := byte(':')
	if names {
		sig = '#'
	}
	bad := nd.StringN("key", 1+nd.Choice("len", 3))
	wellFormed := len(bad) >= 2 && bad[0] == sig
	for i := 1; i < len(bad); i++ {
		ch := bad[i]
		if !(ch >= 'a' && ch <= 'z' || ch >= 'A' && ch <= 'Z' || ch >= '0' && ch <= '9' || ch == '_') {
			wellFormed = false
		}
	}
	nd.Assume(!wellFormed)
	// make sure the key is "used" so that only its form can be the reason for a rejection
	for i := 0; i < len(bad); i++ {
		nd.Assume(bad[i] > ' ' && bad[i] < 0x7f && bad[i] != '(' && bad[i] != ')' && bad[i] != ',')
	}
	in := &dynamodb.PutItemInput{TableName: aws.String(vTbl), Item: vItem{"p": vS("k")}}
	if names {
		in.ConditionExpression = aws.String("attribute_not_exists(p) OR attribute_exists(" + bad + ")")
		in.ExpressionAttributeNames = map[string]string{bad: "p"}
	} else {
		in.ConditionExpression = aws.String("attribute_not_exists(p) OR p = " + bad)
		in.ExpressionAttributeValues = vItem{bad: vS("x")}
	}
	err, panicked := vCatch(func() error { _, e := c.PutItem(vCtx, in); return e })
	nd.Assert(err != nil || panicked, "C16-malformed-placeholder-key-rejected")
	nd.Reach("end")
}

// VerifC16Batch: a BatchWriteItem is rejected iff it has more than 25 requests or a request that is
// neither or both a put and a delete.
func VerifC16Batch() {
	c := vClient(false)
	n := nd.Int("count", 0, 27)
	last := nd.Choice("last-request", 6) // 0 put, 1 delete, 2 both, 3 neither, 4 put + delete with an empty key, 5 put with an empty item + delete
	reqs := []types.WriteRequest{}
	for i := 0; i < n; i++ {
		k := "k" + string(rune('a'+i))
		r := types.WriteRequest{PutRequest: &types.PutRequest{Item: vItem{"p": vS(k)}}}
		if i == n-1 {
			switch last {
			case 1:
				r = types.WriteRequest{DeleteRequest: &types.DeleteRequest{Key: vItem{"p": vS(k)}}}
			case 2:
				r.DeleteRequest = &types.DeleteRequest{Key: vItem{"p": vS(k)}}
			case 3:
				r = types.WriteRequest{}
			case 4:
				r.DeleteRequest = &types.DeleteRequest{Key: vItem{}}
			case 5:
				r = types.WriteRequest{PutRequest: &types.PutRequest{Item: vItem{}}, DeleteRequest: &types.DeleteRequest{Key: vItem{"p": vS(k)}}}
			}
		}
		reqs = append(reqs, r)
	}
	// the limit is on the whole batch, however the requests are spread over tables
	items := map[string][]types.WriteRequest{vTbl: reqs}
	two := len(reqs) >= 2 && nd.Choice("two-tables", 2) == 1
	if two {
		nd.Assert(AddTable(vCtx, c, "tb2", "p", "") == nil, "setup-addtable2")
		items = map[string][]types.WriteRequest{vTbl: reqs[:len(reqs)/2], "tb2": reqs[len(reqs)/2:]}
	}
	_, err := c.BatchWriteItem(vCtx, &dynamodb.BatchWriteItemInput{RequestItems: items})
	invalid := n > 25 || (n > 0 && last >= 2)
	if invalid {
		nd.Reach("invalid")
		nd.Assert(vErrCode(err) == "ValidationException", "C16-invalid-batch-rejected")
		total := len(vScanAll(c))
		if two {
			out, serr := c.Scan(vCtx, &dynamodb.ScanInput{TableName: aws.String("tb2")})
			nd.Assert(serr == nil, "scan2-noerr")
			if serr == nil {
				total += len(out.Items)
			}
		}
		nd.Assert(total == 0, "C16-invalid-batch-applies-nothing")
	} else {
		nd.Reach("valid")
		nd.Assert(err == nil, "C16-valid-batch-accepted")
	}
	nd.Reach("end")
}

// VerifC16KeyCondition: a Query whose key condition is an equality on the partition key of the addressed
// table or index, optionally joined by AND with one sort-key condition (=, <, <=, >, >=, BETWEEN,
// begins_with), is accepted; every other shape is rejected. Targets: table with a sort key, table
// without one, index with and without a sort key. "P" stands for the partition key of the target, "S"
// for its sort key, "F" for an attribute that is no key of the target; names may be written through #aliases.
func VerifC16KeyCondition() {
	target := nd.Choice("target", 4) // 0 table (p,s); 1 table (p); 2 index (g,h); 3 index (g)
	withRange := target != 1
	c := vClient(withRange)
	P, S, F := "p", "s", "f"
	index := ""
	switch target {
	case 1:
		S = ""
	case 2:
		nd.Assert(AddIndex(vCtx, c, vTbl, vIdx, "g", "h") == nil, "setup-addindex")
		P, S, F, index = "g", "h", "p", vIdx
	case 3:
		nd.Assert(AddIndex(vCtx, c, vTbl, vIdx, "g", "") == nil, "setup-addindex")
		P, S, F, index = "g", "", "p", vIdx
	}
	if index == "" {
		nd.Assert(AddIndex(vCtx, c, vTbl, "oth", "f", "") == nil, "setup-addindex-oth")
	}
	nd.Assert(vPut(c, vItem{"p": vS("k"), "s": vS("r"), "f": vS("x"), "g": vS("k"), "h": vS("r")}) == nil, "setup-put")
	// shapes over P, S, F; a shape that mentions S is used only when the target has a sort key
	valid := []string{"P = :p", "(P = :p)", "P = :p AND S = :s", "P = :p AND S < :s", "P = :p AND S <= :s", "P = :p AND S > :s", "P = :p AND S >= :s",
		"P = :p AND S BETWEEN :s AND :t", "P = :p AND begins_with(S, :s)", "S > :s AND P = :p", "(P = :p) AND (S = :s)", "P = :p and begins_with(S, :s)"}
	invalid := []string{"P < :p", "P = :p OR S = :s", "S = :s", "P = :p AND F = :s", "NOT P = :p", "P = :p AND S = :s AND S < :t", "P <> :p", "F = :p",
		"attribute_exists(P)", "P = :p AND contains(S, :s)", "P = :p AND S <> :s", "P = :p AND P = :s", "S = :s AND S = :p", "begins_with(P, :p)",
		"P IN (:p)", "P BETWEEN :p AND :s", "P = :p AND size(S) > :s", "P = :p AND NOT S = :s", "P = :p AND S IN (:s)", "P = :p AND attribute_exists(S)",
		"P = S", "P = :p AND S = F", "P = :p OR P = :s", "P = :p AND begins_with(F, :s)", "P = :p AND F BETWEEN :s AND :t", "P >= :p AND S = :s",
		"P = :p AND S BETWEEN :s AND F", "P = :p AND S BETWEEN F AND :s", "P = :p AND begins_with(S, F)", "P = :p AND S < F", "P = F", "P = :p AND S BETWEEN :s AND S"}
	isValid := nd.Choice("valid", 2) == 1
	shapes := invalid
	if isValid {
		shapes = valid
	}
	e := shapes[nd.Choice("shape", len(shapes))]
	if S == "" {
		if !strings.Contains(e, "S") {
			// nothing to adapt
		} else if isValid {
			// a sort-key condition on a target without a sort key is not a key condition
			isValid = false
			S = "s"
			if target == 3 {
				S = "h"
			}
		} else {
			S = "s"
		}
	}
	alias := nd.Choice("alias", 2) == 1
	names := map[string]string{}
	// with aliases the text is the same whatever the attributes are called: #kp, #ks, #kf
	sub := func(e, letter, attr string) string {
		if !strings.Contains(e, letter) {
			return e
		}
		if alias {
			al := "#k" + strings.ToLower(letter)
			names[al] = attr
			attr = al
		}
		return strings.ReplaceAll(e, letter, attr)
	}
	e = sub(sub(sub(e, "P", P), "S", S), "F", F)
	vals := vItem{}
	for i := 0; i+1 < len(e); i++ {
		if e[i] == ':' {
			vals[e[i:i+2]] = vS("k")
		}
	}
	in := &dynamodb.QueryInput{TableName: aws.String(vTbl), KeyConditionExpression: aws.String(e), ExpressionAttributeValues: vals}
	if index != "" {
		in.IndexName = aws.String(index)
	}
	if len(names) > 0 {
		in.ExpressionAttributeNames = names
	}
	if nd.Param("prime", 1) == 1 {
		// whether a key condition is accepted does not depend on earlier queries: before the query that is
		// checked, the same text is sent (1) with every #name bound to the partition key of the target and
		// (2) through the other access path of the table (the index "oth" on f / the table itself), where the
		// same text may well be a proper key condition; outcomes ignored
		if len(names) > 0 {
			pn := map[string]string{}
			for k := range names {
				pn[k] = P
			}
			pin := *in
			pin.ExpressionAttributeNames = pn
			vCatch(func() error { _, e2 := c.Query(vCtx, &pin); return e2 })
		}
		pin := *in
		if index == "" {
			pin.IndexName = aws.String("oth")
		} else {
			pin.IndexName = nil
		}
		vCatch(func() error { _, e2 := c.Query(vCtx, &pin); return e2 })
	}
	err, panicked := vCatch(func() error {
		_, e2 := c.Query(vCtx, in)
		return e2
	})
	if isValid {
		nd.Reach("valid")
		nd.Assert(err == nil && !panicked, "C16-valid-key-condition-accepted ["+e+"]")
	} else {
		nd.Reach("invalid")
		nd.Assert(err != nil || panicked, "C16-invalid-key-condition-rejected ["+e+"]")
	}
	nd.Reach("end")
}

// VerifC16ProjectionNames: a #name placeholder that only the ProjectionExpression uses is a used placeholder:
// GetItem, Query and Scan accept it (and still reject a placeholder nothing uses).
func VerifC16ProjectionNames() {
	c := vClient(false)
	nd.Assert(vPut(c, vItem{"p": vS("k"), "a": vS("x")}) == nil, "setup-put")
	names := map[string]string{"#a": "a"}
	extra := nd.Choice("unused-name", 2) == 1
	if extra {
		names["#zz"] = "a"
	}
	proj := aws.String("#a")
	var err error
	var panicked bool
	switch nd.Choice("call", 3) {
	case 0:
		err, panicked = vCatch(func() error {
			_, e := c.GetItem(vCtx, &dynamodb.GetItemInput{TableName: aws.String(vTbl), Key: vItem{"p": vS("k")}, ProjectionExpression: proj, ExpressionAttributeNames: names})
			return e
		})
	case 1:
		err, panicked = vCatch(func() error {
			_, e := c.Query(vCtx, &dynamodb.QueryInput{TableName: aws.String(vTbl), KeyConditionExpression: aws.String("p = :p"), ExpressionAttributeValues: vItem{":p": vS("k")}, ProjectionExpression: proj, ExpressionAttributeNames: names})
			return e
		})
	case 2:
		err, panicked = vCatch(func() error {
			_, e := c.Scan(vCtx, &dynamodb.ScanInput{TableName: aws.String(vTbl), ProjectionExpression: proj, ExpressionAttributeNames: names})
			return e
		})
	}
	if extra {
		nd.Reach("unused")
		nd.Assert(err != nil || panicked, "C16-unused-name-next-to-a-projection-rejected")
	} else {
		nd.Reach("projection-only")
		nd.Assert(err == nil && !panicked, "C16-name-used-only-by-the-projection-accepted")
	}
	nd.Reach("end")
}

// VerifC16Straddle: whether a supplied placeholder is used is decided expression by expression. A request with
// two expressions supplies, besides the placeholders it uses, one whose text is the tail of one expression
// followed by the head of the other (":p" ends the first, "q" begins the second: ":pq"): that placeholder
// occurs in no expression, the request is refused; without it the same request is accepted.
func VerifC16Straddle() {
	c := vClient(false)
	nd.Assert(vPut(c, vItem{"p": vS("k"), "a": vS("x")}) == nil, "setup-put")
	extra := nd.Choice("with-the-straddling-placeholder", 2) == 1
	var err error
	var panicked bool
	switch nd.Choice("request", 5) {
	case 4: // every supplied placeholder is used, and one is a prefix of another (":v" and ":v2", "#n" and "#n1")
		extra = false
		err, panicked = vCatch(func() error {
			_, e := c.UpdateItem(vCtx, &dynamodb.UpdateItemInput{TableName: aws.String(vTbl), Key: vItem{"p": vS("k")},
				UpdateExpression: aws.String("SET #n = :v, #n1 = :v2"), ConditionExpression: aws.String("#n <> :v2 AND a <> :v"),
				ExpressionAttributeNames: map[string]string{"#n": "b", "#n1": "c"}, ExpressionAttributeValues: vItem{":v": vS("y"), ":v2": vS("z")}})
			return e
		})
	case 0: // UpdateExpression ends in ":p", ConditionExpression starts with "q"
		vals := vItem{":p": vS("y")}
		if extra {
			vals[":pq"] = vS("z")
		}
		err, panicked = vCatch(func() error {
			_, e := c.UpdateItem(vCtx, &dynamodb.UpdateItemInput{TableName: aws.String(vTbl), Key: vItem{"p": vS("k")},
				UpdateExpression: aws.String("SET b = :p"), ConditionExpression: aws.String("q <> :p"), ExpressionAttributeValues: vals})
			return e
		})
	case 1: // ConditionExpression ends in ":p", UpdateExpression starts with "set"
		vals := vItem{":p": vS("y")}
		if extra {
			vals[":ps"] = vS("z")
		}
		err, panicked = vCatch(func() error {
			_, e := c.UpdateItem(vCtx, &dynamodb.UpdateItemInput{TableName: aws.String(vTbl), Key: vItem{"p": vS("k")},
				UpdateExpression: aws.String("set b = :p"), ConditionExpression: aws.String("a <> :p"), ExpressionAttributeValues: vals})
			return e
		})
	case 2: // ProjectionExpression ends in "#n", FilterExpression starts with "q"
		names := map[string]string{"#n": "a"}
		if extra {
			names["#nq"] = "a"
		}
		err, panicked = vCatch(func() error {
			_, e := c.Scan(vCtx, &dynamodb.ScanInput{TableName: aws.String(vTbl), ProjectionExpression: aws.String("p, #n"), FilterExpression: aws.String("q <> :v"),
				ExpressionAttributeNames: names, ExpressionAttributeValues: vItem{":v": vS("y")}})
			return e
		})
	case 3: // KeyConditionExpression ends in ":k", FilterExpression starts with "a" - and the other way round
		vals := vItem{":k": vS("k"), ":f": vS("y")}
		if extra {
			vals[[]string{":ka", ":fp"}[nd.Choice("which-order", 2)]] = vS("z")
		}
		err, panicked = vCatch(func() error {
			_, e := c.Query(vCtx, &dynamodb.QueryInput{TableName: aws.String(vTbl), KeyConditionExpression: aws.String("p = :k"), FilterExpression: aws.String("a <> :f"),
				ExpressionAttributeValues: vals})
			return e
		})
	}
	if extra {
		nd.Reach("unused")
		nd.Assert(err != nil || panicked, "C16-placeholder-straddling-two-expressions-is-unused")
	} else {
		nd.Reach("well-formed")
		nd.Assert(err == nil && !panicked, "C16-request-with-two-expressions-accepted")
	}
	nd.Reach("end")
}

//go:build verif

package client

import (
	"github.com/aws/aws-sdk-go-v2/aws"
	"github.com/aws/aws-sdk-go-v2/service/dynamodb"
	"github.com/aws/aws-sdk-go-v2/service/dynamodb/types"
	"github.com/truora/minidyn/internal/nd"
)

const vTbl2 = "tb2"

func vScanTable(c *Client, t string) []vItem {
	out, err := c.Scan(vCtx, &dynamodb.ScanInput{TableName: aws.String(t)})
	nd.Assert(err == nil, "scan-noerr")
	if err != nil {
		return nil
	}
	return out.Items
}

// VerifC19Batch: a successful BatchWriteItem leaves the tables exactly as performing its put and delete
// requests individually (on a twin client) would; BatchGetItem returns per table exactly what individual
// GetItem calls return, keys without a stored item being absent and not reported as unprocessed.
func VerifC19Batch() {
	nreq := nd.Param("requests", 2)
	mk := func() *Client {
		c := NewClient()
		nd.Assert(AddTable(vCtx, c, vTbl, "p", "") == nil, "setup-addtable")
		nd.Assert(AddTable(vCtx, c, vTbl2, "p", "") == nil, "setup-addtable")
		return c
	}
	c, twin := mk(), mk()
	// arbitrary pre-state: one item per table with a symbolic key
	for _, t := range []string{vTbl, vTbl2} {
		it := vItem{"p": vS(nd.StringN("pre."+t, 1)), "v": vS("pre")}
		for _, cl := range []*Client{c, twin} {
			_, err := cl.PutItem(vCtx, &dynamodb.PutItemInput{TableName: aws.String(t), Item: it})
			nd.Assert(err == nil, "setup-put")
		}
	}
	tables := []string{vTbl, vTbl2}
	reqs := map[string][]types.WriteRequest{}
	for i := 0; i < nreq; i++ {
		nm := "r" + string(rune('0'+i))
		t := tables[nd.Choice(nm+".table", 2)]
		k := nd.StringN(nm+".p", 1)
		if nd.Choice(nm+".kind", 2) == 0 {
			it := vItem{"p": vS(k), "v": vS(nd.StringN(nm+".v", 1))}
			reqs[t] = append(reqs[t], types.WriteRequest{PutRequest: &types.PutRequest{Item: it}})
		} else {
			reqs[t] = append(reqs[t], types.WriteRequest{DeleteRequest: &types.DeleteRequest{Key: vItem{"p": vS(k)}}})
		}
	}
	out, err := c.BatchWriteItem(vCtx, &dynamodb.BatchWriteItemInput{RequestItems: reqs})
	nd.Assert(err == nil, "C19-batchwrite-noerr")
	if err == nil {
		nd.Assert(len(out.UnprocessedItems) == 0, "C19-batchwrite-nothing-unprocessed")
	}
	// the item-by-item decomposition on the twin, table by table in request order
	for _, t := range tables {
		for _, r := range reqs[t] {
			if r.PutRequest != nil {
				_, e := twin.PutItem(vCtx, &dynamodb.PutItemInput{TableName: aws.String(t), Item: r.PutRequest.Item})
				nd.Assert(e == nil, "C19-twin-put")
			} else {
				_, e := twin.DeleteItem(vCtx, &dynamodb.DeleteItemInput{TableName: aws.String(t), Key: r.DeleteRequest.Key})
				nd.Assert(e == nil, "C19-twin-delete")
			}
		}
	}
	for _, t := range tables {
		nd.Assert(vSameItems(vScanTable(c, t), vScanTable(twin, t)), "C19-batchwrite-equals-item-by-item")
	}

	// BatchGetItem vs individual gets
	keys := map[string]types.KeysAndAttributes{}
	var asked [2][]string
	for i := 0; i < nreq; i++ {
		nm := "g" + string(rune('0'+i))
		ti := nd.Choice(nm+".table", 2)
		k := nd.StringN(nm+".p", 1)
		// DynamoDB rejects duplicate keys in one BatchGetItem
		for _, prev := range asked[ti] {
			nd.Assume(prev != k)
		}
		asked[ti] = append(asked[ti], k)
		ka := keys[tables[ti]]
		ka.Keys = append(ka.Keys, vItem{"p": vS(k)})
		keys[tables[ti]] = ka
	}
	// an optional projection, written out or through a #name placeholder, the same for the batch and for
	// the individual gets it is compared with
	var proj *string
	var names map[string]string
	var legacy []string
	switch nd.Choice("projection", 4) {
	case 1:
		proj, names = aws.String("#v, p"), map[string]string{"#v": "v"}
	case 2:
		proj = aws.String("v, p")
	case 3: // the legacy option: whatever it does, it does the same in the batch and in the single get
		legacy = []string{"v"}
	}
	for t, ka := range keys {
		ka.ProjectionExpression, ka.ExpressionAttributeNames, ka.AttributesToGet = proj, names, legacy
		keys[t] = ka
	}
	absent := false
	want := map[string][]vItem{}
	for ti, t := range tables {
		for _, k := range asked[ti] {
			g, e := c.GetItem(vCtx, &dynamodb.GetItemInput{TableName: aws.String(t), Key: vItem{"p": vS(k)}, ProjectionExpression: proj, ExpressionAttributeNames: names, AttributesToGet: legacy})
			nd.Assert(e == nil, "C19-get-noerr")
			if e == nil && len(g.Item) > 0 {
				want[t] = append(want[t], g.Item)
			} else {
				absent = true
			}
		}
	}
	bg, err := c.BatchGetItem(vCtx, &dynamodb.BatchGetItemInput{RequestItems: keys})
	nd.Assert(err == nil, "C19-batchget-noerr")
	if err == nil {
		if absent {
			nd.Reach("absent-key")
		}
		// known finding (pinned by TestPutAndGetBatchItem): keys without a stored item are reported in
		// UnprocessedKeys; only that one obligation is waived, and only when a requested key is absent
		if !(absent && nd.Known("C19-v2-batchget-absent-key-unprocessed")) {
			nd.Assert(len(bg.UnprocessedKeys) == 0, "C19-batchget-absent-keys-are-not-unprocessed")
		} else {
			left := 0
			for _, ka := range bg.UnprocessedKeys {
				left += len(ka.Keys)
			}
			missing := 0
			for ti, t := range tables {
				missing += len(asked[ti]) - len(want[t])
			}
			nd.Assert(left == missing, "C19-batchget-only-absent-keys-are-unprocessed")
		}
		for _, t := range tables {
			nd.Assert(vSameItems(bg.Responses[t], want[t]), "C19-batchget-equals-individual-gets")
		}
	}
	nd.Reach("end")
}

// VerifC19Limits: batches at the service limits. A BatchWriteItem of exactly 25 requests (puts and deletes,
// over one or two tables) succeeds and equals its item-by-item decomposition; a BatchGetItem of 25, 26 or 100
// keys (stored and absent ones mixed, over one or two tables) succeeds and returns exactly the stored items.
func VerifC19Limits() {
	mk := func() *Client {
		c := NewClient()
		nd.Assert(AddTable(vCtx, c, vTbl, "p", "") == nil, "setup-addtable")
		nd.Assert(AddTable(vCtx, c, vTbl2, "p", "") == nil, "setup-addtable")
		return c
	}
	c, twin := mk(), mk()
	key := func(i int) string { return "k" + string(rune('0'+i/10)) + string(rune('0'+i%10)) }
	tableOf := func(i int, two bool) string {
		if two && i%2 == 1 {
			return vTbl2
		}
		return vTbl
	}
	two := nd.Choice("two-tables", 2) == 1
	// pre-state: the even keys below 20 are stored (on both clients)
	for i := 0; i < 20; i += 2 {
		for _, cl := range []*Client{c, twin} {
			_, err := cl.PutItem(vCtx, &dynamodb.PutItemInput{TableName: aws.String(tableOf(i, two)), Item: vItem{"p": vS(key(i)), "v": vS("pre")}})
			nd.Assert(err == nil, "setup-put")
		}
	}
	if nd.Choice("call", 2) == 0 {
		// 25 writes: deletes of keys 0..9 (half of them stored), puts of keys 10..24
		reqs := map[string][]types.WriteRequest{}
		for i := 0; i < 25; i++ {
			t := tableOf(i, two)
			if i < 10 {
				reqs[t] = append(reqs[t], types.WriteRequest{DeleteRequest: &types.DeleteRequest{Key: vItem{"p": vS(key(i))}}})
				_, err := twin.DeleteItem(vCtx, &dynamodb.DeleteItemInput{TableName: aws.String(t), Key: vItem{"p": vS(key(i))}})
				nd.Assert(err == nil, "twin-delete")
			} else {
				it := vItem{"p": vS(key(i)), "v": vS("new")}
				reqs[t] = append(reqs[t], types.WriteRequest{PutRequest: &types.PutRequest{Item: it}})
				_, err := twin.PutItem(vCtx, &dynamodb.PutItemInput{TableName: aws.String(t), Item: it})
				nd.Assert(err == nil, "twin-put")
			}
		}
		out, err := c.BatchWriteItem(vCtx, &dynamodb.BatchWriteItemInput{RequestItems: reqs})
		nd.Reach("write-25")
		nd.Assert(err == nil, "C19-batch-of-25-writes-accepted")
		if err == nil {
			left := 0
			for _, l := range out.UnprocessedItems {
				left += len(l)
			}
			nd.Assert(left == 0, "C19-batch-of-25-writes-all-processed")
		}
		for _, t := range []string{vTbl, vTbl2} {
			nd.Assert(vSameItems(vScanTable(c, t), vScanTable(twin, t)), "C19-batch-of-25-equals-decomposition")
		}
	} else {
		n := []int{25, 26, 100}[nd.Choice("keys", 3)]
		reqs := map[string]types.KeysAndAttributes{}
		for i := 0; i < n; i++ {
			t := tableOf(i, two)
			ka := reqs[t]
			ka.Keys = append(ka.Keys, vItem{"p": vS(key(i))})
			reqs[t] = ka
		}
		out, err := c.BatchGetItem(vCtx, &dynamodb.BatchGetItemInput{RequestItems: reqs})
		nd.Reach("get-many")
		nd.Assert(err == nil, "C19-batchget-within-the-100-key-limit-accepted")
		if err == nil {
			got := 0
			for t, items := range out.Responses {
				for _, it := range items {
					p, _ := vGetS(it, "p")
					one, gerr := c.GetItem(vCtx, &dynamodb.GetItemInput{TableName: aws.String(t), Key: vItem{"p": vS(p)}})
					nd.Assert(gerr == nil && vSameItem(one.Item, it), "C19-batchget-item-equals-getitem")
					got++
				}
			}
			nd.Assert(got == 10, "C19-batchget-returns-exactly-the-stored-items")
			if !nd.Known("C19-v2-batchget-absent-key-unprocessed") {
				left := 0
				for _, ka := range out.UnprocessedKeys {
					left += len(ka.Keys)
				}
				nd.Assert(left == 0, "C19-batchget-absent-keys-not-unprocessed")
			}
		}
	}
	nd.Reach("end")
}

// VerifC19MalformedKey: a BatchGetItem that names, among well-formed keys of stored items, one key that an
// individual GetItem refuses (a key attribute missing, of another type, or under another name), in any
// position: either the batch is refused as a whole or - when it answers - its response holds exactly what the
// individual GetItem calls for the well-formed keys return; a refused key never hides the items after it.
func VerifC19MalformedKey() {
	c := NewClient()
	nd.Assert(AddTable(vCtx, c, vTbl, "p", "s") == nil, "setup-addtable")
	k1, k2 := nd.StringN("k1", 1), nd.StringN("k2", 1)
	nd.Assume(k1 != k2)
	for _, k := range []string{k1, k2} {
		nd.Assert(vPut(c, vItem{"p": vS(k), "s": vS("r"), "v": vS("v" + k)}) == nil, "setup-put")
	}
	bad := []vItem{{"p": vS(k1)}, {"p": vN("1"), "s": vS("r")}, {"q": vS(k1), "s": vS("r")}, {"p": vS(k1), "s": &types.AttributeValueMemberBOOL{Value: true}}}[nd.Choice("malformed", 4)]
	_, gerr := c.GetItem(vCtx, &dynamodb.GetItemInput{TableName: aws.String(vTbl), Key: bad})
	nd.Assert(gerr != nil, "C19-malformed-key-refused-by-getitem")
	good := []vItem{{"p": vS(k1), "s": vS("r")}, {"p": vS(k2), "s": vS("r")}}
	pos := nd.Choice("position", 3)
	var keys []vItem
	for i := 0; i <= 2; i++ {
		if i == pos {
			keys = append(keys, bad)
		}
		if i < 2 {
			keys = append(keys, good[i])
		}
	}
	bg, err := c.BatchGetItem(vCtx, &dynamodb.BatchGetItemInput{RequestItems: map[string]types.KeysAndAttributes{vTbl: {Keys: keys}}})
	if err != nil {
		nd.Reach("batch-refused")
		nd.Reach("end")
		return
	}
	nd.Reach("batch-answered")
	got := bg.Responses[vTbl]
	nd.Assert(len(got) == 2, "C19-batchget-returns-the-stored-items-despite-a-refused-key")
	for _, k := range []string{k1, k2} {
		n := 0
		for _, it := range got {
			if p, _ := vGetS(it, "p"); p == k {
				n++
				nd.Assert(vSameItem(it, vItem{"p": vS(k), "s": vS("r"), "v": vS("v" + k)}), "C19-batchget-item-values")
			}
		}
		nd.Assert(n == 1, "C19-batchget-each-stored-item-once")
	}
	nd.Reach("end")
}

// VerifC19KeyPairs: two requests of one batch are about the same item iff their keys are equal: on a table with a
// sort key, a batch of two writes (put / delete) whose keys are any byte strings of 1..2 bytes - with whatever
// separators an implementation may use inside - leaves what the two requests leave one by one.
func VerifC19KeyPairs() {
	mk := func() *Client {
		c := NewClient()
		nd.Assert(AddTable(vCtx, c, vTbl, "p", "s") == nil, "setup-addtable")
		return c
	}
	c, twin := mk(), mk()
	k1 := vItem{"p": vS(vKeyStr("k1.p", 2)), "s": vS(vKeyStr("k1.s", 2))}
	k2 := vItem{"p": vS(vKeyStr("k2.p", 2)), "s": vS(vKeyStr("k2.s", 2))}
	for _, cl := range []*Client{c, twin} {
		for _, k := range []vItem{k1, k2} {
			if nd.Choice("stored", 2) == 1 {
				_, err := cl.PutItem(vCtx, &dynamodb.PutItemInput{TableName: aws.String(vTbl), Item: vItem{"p": k["p"], "s": k["s"], "v": vS("old")}})
				nd.Assert(err == nil, "setup-put")
			}
			break
		}
	}
	reqs := []types.WriteRequest{}
	for i, k := range []vItem{k1, k2} {
		if nd.Choice("kind", 2) == 0 {
			reqs = append(reqs, types.WriteRequest{PutRequest: &types.PutRequest{Item: vItem{"p": k["p"], "s": k["s"], "v": vS("new" + string(rune('0'+i)))}}})
		} else {
			reqs = append(reqs, types.WriteRequest{DeleteRequest: &types.DeleteRequest{Key: k}})
		}
	}
	_, err := c.BatchWriteItem(vCtx, &dynamodb.BatchWriteItemInput{RequestItems: map[string][]types.WriteRequest{vTbl: reqs}})
	nd.Assert(err == nil, "C19-pairs-batch-noerr")
	for _, r := range reqs {
		if r.PutRequest != nil {
			_, e := twin.PutItem(vCtx, &dynamodb.PutItemInput{TableName: aws.String(vTbl), Item: r.PutRequest.Item})
			nd.Assert(e == nil, "C19-pairs-twin-put")
		} else {
			_, e := twin.DeleteItem(vCtx, &dynamodb.DeleteItemInput{TableName: aws.String(vTbl), Key: r.DeleteRequest.Key})
			nd.Assert(e == nil, "C19-pairs-twin-delete")
		}
	}
	nd.Assert(vSameItems(vScanTable(c, vTbl), vScanTable(twin, vTbl)), "C19-pairs-batch-equals-item-by-item")
	nd.Reach("end")
}

//go:build verif

package client

import (
	"errors"

	"github.com/aws/aws-sdk-go-v2/aws"
	"github.com/aws/aws-sdk-go-v2/service/dynamodb"
	"github.com/aws/aws-sdk-go-v2/service/dynamodb/types"
	"github.com/truora/minidyn/internal/nd"
)

// vCat is the reference catalogue of one client: name -> table model.
type vCatTable struct {
	provisioned bool
	hasRange    bool
	indexes     map[string]bool
	lsis        bool     // two local secondary indexes declared at creation: l1 (p, g) and l2 (p, h)
	keys        []string // hash keys of the stored items (range fixed to "r" when the table has one)
	unfit       int      // stored items whose g is a number: they belong to the table and to no index on g
}

type vCat map[string]*vCatTable

func vCreate(c *Client, name string, withRange, withGSI bool, billing int) error {
	return vCreateL(c, name, withRange, withGSI, false, billing)
}

func vCreateL(c *Client, name string, withRange, withGSI, withLSIs bool, billing int) error {
	in := generateAddTableInput(name, "p", map[bool]string{true: "s", false: ""}[withRange])
	switch billing {
	case 1: // provisioned, throughput given
		in.BillingMode = types.BillingModeProvisioned
	case 2: // provisioned without throughput: rejected
		in.BillingMode = types.BillingModeProvisioned
		in.ProvisionedThroughput = nil
	}
	if withGSI {
		in.AttributeDefinitions = append(in.AttributeDefinitions, types.AttributeDefinition{AttributeName: aws.String("g"), AttributeType: types.ScalarAttributeTypeS})
		in.GlobalSecondaryIndexes = []types.GlobalSecondaryIndex{{IndexName: aws.String("gsi"),
			KeySchema:             []types.KeySchemaElement{{AttributeName: aws.String("g"), KeyType: types.KeyTypeHash}},
			Projection:            &types.Projection{ProjectionType: types.ProjectionTypeAll},
			ProvisionedThroughput: in.ProvisionedThroughput}}
	}
	if withLSIs {
		if !withGSI {
			in.AttributeDefinitions = append(in.AttributeDefinitions, types.AttributeDefinition{AttributeName: aws.String("g"), AttributeType: types.ScalarAttributeTypeS})
		}
		in.AttributeDefinitions = append(in.AttributeDefinitions, types.AttributeDefinition{AttributeName: aws.String("h"), AttributeType: types.ScalarAttributeTypeS})
		for _, l := range [][2]string{{"l1", "g"}, {"l2", "h"}} {
			in.LocalSecondaryIndexes = append(in.LocalSecondaryIndexes, types.LocalSecondaryIndex{IndexName: aws.String(l[0]),
				KeySchema:  []types.KeySchemaElement{{AttributeName: aws.String("p"), KeyType: types.KeyTypeHash}, {AttributeName: aws.String(l[1]), KeyType: types.KeyTypeRange}},
				Projection: &types.Projection{ProjectionType: types.ProjectionTypeAll}})
		}
	}
	_, err := c.CreateTable(vCtx, in)
	return err
}

func vIsInUse(err error) bool {
	var e *types.ResourceInUseException
	return errors.As(err, &e)
}

func vIsNotFound(err error) bool {
	var e *types.ResourceNotFoundException
	return errors.As(err, &e)
}

// vCheckTable: DescribeTable and a Scan agree with the model of table name (or the table must not exist).
func vCheckTable(c *Client, cat vCat, name, id string) {
	d, err := c.DescribeTable(vCtx, &dynamodb.DescribeTableInput{TableName: aws.String(name)})
	m, exists := cat[name]
	if !exists {
		nd.Assert(vIsNotFound(err), id+"-describe-missing-table-is-not-found")
		_, perr := c.PutItem(vCtx, &dynamodb.PutItemInput{TableName: aws.String(name), Item: vItem{"p": vS("x"), "s": vS("r")}})
		nd.Assert(vIsNotFound(perr), id+"-put-on-missing-table-is-not-found")
		// every operation on a missing table, whatever else the request names
		_, serr := c.Scan(vCtx, &dynamodb.ScanInput{TableName: aws.String(name), IndexName: aws.String("gsi")})
		nd.Assert(vIsNotFound(serr), id+"-index-scan-on-missing-table-is-not-found")
		qerr, _ := vCatch(func() error {
			_, e := c.Query(vCtx, &dynamodb.QueryInput{TableName: aws.String(name), IndexName: aws.String("gsi"), KeyConditionExpression: aws.String("g = :g"), ExpressionAttributeValues: vItem{":g": vS("gv")}})
			return e
		})
		nd.Assert(vIsNotFound(qerr), id+"-index-query-on-missing-table-is-not-found")
		return
	}
	nd.Assert(err == nil, id+"-describe-noerr")
	if err != nil {
		return
	}
	nd.Assert(int(aws.ToInt64(d.Table.ItemCount)) == len(m.keys)+m.unfit, id+"-describe-item-count")
	wantKS := 1
	if m.hasRange {
		wantKS = 2
	}
	nd.Assert(len(d.Table.KeySchema) == wantKS && aws.ToString(d.Table.KeySchema[0].AttributeName) == "p", id+"-describe-key-schema")
	nd.Assert(len(d.Table.GlobalSecondaryIndexes) == len(m.indexes), id+"-describe-index-set")
	for want := range m.indexes {
		found := 0
		for _, g := range d.Table.GlobalSecondaryIndexes {
			if aws.ToString(g.IndexName) == want {
				found++
			}
		}
		nd.Assert(found == 1, id+"-describe-lists-every-index-once")
	}
	for _, g := range d.Table.GlobalSecondaryIndexes {
		nd.Assert(m.indexes[aws.ToString(g.IndexName)], id+"-describe-index-names")
		nd.Assert(int(aws.ToInt64(g.ItemCount)) == len(m.keys), id+"-describe-index-item-count") // every item carries g
		// the index as declared: its key schema and its projection
		nd.Assert(len(g.KeySchema) == 1 && aws.ToString(g.KeySchema[0].AttributeName) == "g" && g.KeySchema[0].KeyType == types.KeyTypeHash, id+"-describe-index-key-schema")
		nd.Assert(g.Projection != nil && g.Projection.ProjectionType == types.ProjectionTypeAll, id+"-describe-index-projection")
	}
	wantL := 0
	if m.lsis {
		wantL = 2
	}
	nd.Assert(len(d.Table.LocalSecondaryIndexes) == wantL, id+"-describe-local-index-set")
	for _, l := range d.Table.LocalSecondaryIndexes {
		n := aws.ToString(l.IndexName)
		nd.Assert(n == "l1" || n == "l2", id+"-describe-local-index-names")
		wantAttr, wantCount := "g", len(m.keys)
		if n == "l2" {
			wantAttr, wantCount = "h", 0 // no item carries h
		}
		nd.Assert(len(l.KeySchema) == 2 && aws.ToString(l.KeySchema[0].AttributeName) == "p" && aws.ToString(l.KeySchema[1].AttributeName) == wantAttr, id+"-describe-local-index-key-schema")
		nd.Assert(l.Projection != nil && l.Projection.ProjectionType == types.ProjectionTypeAll, id+"-describe-local-index-projection")
		nd.Assert(int(aws.ToInt64(l.ItemCount)) == wantCount, id+"-describe-local-index-item-count")
		sl, lerr := c.Scan(vCtx, &dynamodb.ScanInput{TableName: aws.String(name), IndexName: aws.String(n)})
		nd.Assert(lerr == nil && len(sl.Items) == wantCount, id+"-local-index-scan-size")
	}
	if wantL == 2 {
		nd.Assert(aws.ToString(d.Table.LocalSecondaryIndexes[0].IndexName) != aws.ToString(d.Table.LocalSecondaryIndexes[1].IndexName), id+"-describe-lists-every-local-index-once")
	}
	s, err := c.Scan(vCtx, &dynamodb.ScanInput{TableName: aws.String(name)})
	nd.Assert(err == nil && len(s.Items) == len(m.keys)+m.unfit, id+"-scan-size")
	for _, idx := range []string{"gsi", "late"} {
		si, err := c.Scan(vCtx, &dynamodb.ScanInput{TableName: aws.String(name), IndexName: aws.String(idx)})
		if m.indexes[idx] {
			nd.Assert(err == nil && len(si.Items) == len(m.keys), id+"-index-scan-size")
		} else {
			nd.Assert(err != nil, id+"-scan-of-missing-index-is-rejected")
		}
	}
}

func vPutKey(c *Client, cat vCat, name, k string) {
	it := vItem{"p": vS(k), "s": vS("r"), "g": vS("gv")}
	_, err := c.PutItem(vCtx, &dynamodb.PutItemInput{TableName: aws.String(name), Item: it})
	m, exists := cat[name]
	if !exists {
		nd.Assert(vIsNotFound(err), "C18-put-on-missing-table-is-not-found")
		return
	}
	nd.Assert(err == nil, "C18-put-noerr")
	for _, x := range m.keys {
		if x == k {
			return
		}
	}
	m.keys = append(m.keys, k)
}

// VerifC18Lifecycle: k table-management / data steps on two clients and two table names, checked after
// every step against a catalogue model: error classes, fresh tables empty with the declared schema,
// DescribeTable counts and index sets, delete/clear, re-creation, isolation of tables and of clients.
func VerifC18Lifecycle() {
	k := nd.Param("k", 3)
	clients := []*Client{NewClient(), NewClient()}
	cats := []vCat{{}, {}}
	names := []string{"tb1", "tb2"}
	narrow := nd.Param("narrow", 0) == 1 // deeper histories on one client and one table name only
	if nd.Param("rich", 1) == 1 && nd.Choice("start", 2) == 1 {
		// a richer reachable starting point: tb1 exists with two indexes on one attribute and holds an item
		nd.Reach("rich-start")
		nd.Assert(vCreate(clients[0], "tb1", false, true, 0) == nil, "C18-start-create")
		cats[0]["tb1"] = &vCatTable{indexes: map[string]bool{"gsi": true}}
		nd.Assert(AddIndex(vCtx, clients[0], "tb1", "late", "g", "") == nil, "C18-start-addindex")
		cats[0]["tb1"].indexes["late"] = true
		vPutKey(clients[0], cats[0], "tb1", "a")
	}
	if nd.Param("rich", 1) == 1 && len(cats[0]) == 0 && nd.Choice("start-unfit", 2) == 1 {
		// another reachable starting point: tb1 has no index yet and holds, first, an item whose g is a
		// number (it can never belong to an index that declares g a string), then an ordinary item
		nd.Reach("unfit-start")
		nd.Assert(vCreate(clients[0], "tb1", false, false, 0) == nil, "C18-start-create")
		cats[0]["tb1"] = &vCatTable{indexes: map[string]bool{}, unfit: 1}
		_, err := clients[0].PutItem(vCtx, &dynamodb.PutItemInput{TableName: aws.String("tb1"), Item: vItem{"p": vS("uu"), "g": vN("1")}})
		nd.Assert(err == nil, "C18-start-put-unfit")
		vPutKey(clients[0], cats[0], "tb1", "a")
	}
	for step := 0; step < k; step++ {
		ci := 0
		if !narrow && nd.Choice("client", 4) == 3 { // the second client acts less often: it is the bystander
			ci = 1
		}
		c, cat := clients[ci], cats[ci]
		name := names[0]
		if !narrow {
			name = names[nd.Choice("name", 2)]
		}
		m, exists := cat[name]
		switch nd.Choice("op", 8) {
		case 7: // DeleteItem of a stored or of an absent key: the counts follow
			k := nd.StringN("key", 1)
			_, err := c.DeleteItem(vCtx, &dynamodb.DeleteItemInput{TableName: aws.String(name), Key: vItem{"p": vS(k), "s": vS("r")}})
			if !exists {
				nd.Assert(vIsNotFound(err), "C18-delete-item-on-missing-table-is-not-found")
				break
			}
			if !m.hasRange {
				_, err = c.DeleteItem(vCtx, &dynamodb.DeleteItemInput{TableName: aws.String(name), Key: vItem{"p": vS(k)}})
			}
			nd.Reach("delete-item")
			nd.Assert(err == nil, "C18-delete-item-noerr")
			kept := []string{}
			for _, x := range m.keys {
				if x != k {
					kept = append(kept, x)
				}
			}
			m.keys = kept
		case 0:
			withRange, withGSI, billing := nd.Choice("range", 2) == 1, nd.Choice("gsi", 2) == 1, nd.Choice("billing", 3)
			// with a sort key the table may declare two local secondary indexes (so: more local than global ones)
			withLSIs := withRange && nd.Param("lsis", 1) == 1 && nd.Choice("lsis", 2) == 1
			err := vCreateL(c, name, withRange, withGSI, withLSIs, billing)
			switch {
			case exists:
				nd.Reach("create-existing")
				nd.Assert(vIsInUse(err), "C18-create-existing-is-in-use")
			case billing == 2:
				nd.Assert(err != nil, "C18-provisioned-without-throughput-rejected")
			default:
				nd.Reach("create")
				nd.Assert(err == nil, "C18-create-noerr")
				cat[name] = &vCatTable{hasRange: withRange, provisioned: billing == 1, indexes: map[string]bool{}, lsis: withLSIs}
				if withLSIs {
					nd.Reach("create-with-local-indexes")
				}
				if withGSI {
					cat[name].indexes["gsi"] = true
				}
			}
		case 1:
			_, err := c.DeleteTable(vCtx, &dynamodb.DeleteTableInput{TableName: aws.String(name)})
			if exists {
				nd.Reach("delete")
				nd.Assert(err == nil, "C18-delete-noerr")
				delete(cat, name)
			} else {
				nd.Assert(vIsNotFound(err), "C18-delete-missing-is-not-found")
			}
		case 2:
			err := ClearTable(c, name)
			if exists {
				nd.Reach("clear")
				nd.Assert(err == nil, "C18-clear-noerr")
				m.keys, m.unfit = nil, 0
			} else {
				nd.Assert(vIsNotFound(err), "C18-clear-missing-is-not-found")
			}
		case 3:
			if nd.Choice("with-throughput", 2) == 1 {
				// UpdateTable that creates the index and states its throughput: what a provisioned table needs
				_, err := c.UpdateTable(vCtx, &dynamodb.UpdateTableInput{TableName: aws.String(name),
					AttributeDefinitions: []types.AttributeDefinition{{AttributeName: aws.String("g"), AttributeType: types.ScalarAttributeTypeS}},
					GlobalSecondaryIndexUpdates: []types.GlobalSecondaryIndexUpdate{{Create: &types.CreateGlobalSecondaryIndexAction{IndexName: aws.String("late"),
						KeySchema:             []types.KeySchemaElement{{AttributeName: aws.String("g"), KeyType: types.KeyTypeHash}},
						Projection:            &types.Projection{ProjectionType: types.ProjectionTypeAll},
						ProvisionedThroughput: &types.ProvisionedThroughput{ReadCapacityUnits: aws.Int64(1), WriteCapacityUnits: aws.Int64(1)}}}}})
				switch {
				case !exists:
					nd.Assert(vIsNotFound(err), "C18-updatetable-missing-is-not-found")
				case m.provisioned:
					nd.Reach("add-index-provisioned")
					nd.Assert(err == nil, "C18-create-index-with-throughput-on-provisioned-table-noerr")
					m.indexes["late"] = true
				case err == nil:
					m.indexes["late"] = true
				}
				break
			}
			err := AddIndex(vCtx, c, name, "late", "g", "")
			if exists && m.provisioned {
				// the AddIndex helper gives no throughput, which a provisioned table requires for its indexes
				nd.Assert(err != nil, "C18-addindex-without-throughput-rejected")
			} else if exists {
				nd.Reach("add-index")
				nd.Assert(err == nil, "C18-addindex-noerr")
				m.indexes["late"] = true
			} else {
				nd.Assert(vIsNotFound(err), "C18-addindex-missing-is-not-found")
			}
		case 4:
			_, err := c.UpdateTable(vCtx, &dynamodb.UpdateTableInput{TableName: aws.String(name),
				GlobalSecondaryIndexUpdates: []types.GlobalSecondaryIndexUpdate{{Delete: &types.DeleteGlobalSecondaryIndexAction{IndexName: aws.String("gsi")}}}})
			switch {
			case !exists:
				nd.Assert(vIsNotFound(err), "C18-updatetable-missing-is-not-found")
			case m.indexes["gsi"]:
				nd.Reach("delete-index")
				nd.Assert(err == nil, "C18-deleteindex-noerr")
				delete(m.indexes, "gsi")
			default:
				nd.Assert(vIsNotFound(err), "C18-deleteindex-missing-is-not-found")
			}
		case 5, 6:
			vPutKey(c, cat, name, nd.StringN("key", 1))
		}
		// after every step: both tables of both clients agree with their catalogue
		for i := range clients {
			for _, n := range names {
				vCheckTable(clients[i], cats[i], n, "C18")
			}
		}
	}
	nd.Reach("end")
}

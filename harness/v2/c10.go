//go:build verif

package client

import (
	"strconv"

	"github.com/aws/aws-sdk-go-v2/aws"
	"github.com/aws/aws-sdk-go-v2/service/dynamodb"
	"github.com/aws/aws-sdk-go-v2/service/dynamodb/types"
	"github.com/truora/minidyn/internal/nd"
	"github.com/truora/minidyn/internal/vspec"
)

// vToAV renders a reference value in the SDK v2 representation.
func vToAV(v vspec.Val) types.AttributeValue {
	switch v.Kind {
	case "S":
		return &types.AttributeValueMemberS{Value: v.S}
	case "N":
		t := v.NTxt
		if t == "" {
			t = nd.Itoa(v.N)
		}
		return &types.AttributeValueMemberN{Value: t}
	case "B":
		return &types.AttributeValueMemberB{Value: append([]byte{}, v.B...)}
	case "BOOL":
		return &types.AttributeValueMemberBOOL{Value: v.Bool}
	case "NULL":
		return &types.AttributeValueMemberNULL{Value: true}
	case "L":
		l := []types.AttributeValue{}
		for _, x := range v.L {
			l = append(l, vToAV(x))
		}
		return &types.AttributeValueMemberL{Value: l}
	case "M":
		m := map[string]types.AttributeValue{}
		for k, x := range v.M {
			m[k] = vToAV(x)
		}
		return &types.AttributeValueMemberM{Value: m}
	case "SS":
		return &types.AttributeValueMemberSS{Value: append([]string{}, v.SS...)}
	case "NS":
		ns := []string{}
		for _, n := range v.NS {
			ns = append(ns, nd.Itoa(n))
		}
		return &types.AttributeValueMemberNS{Value: ns}
	case "BS":
		bs := [][]byte{}
		for _, b := range v.BS {
			bs = append(bs, append([]byte{}, b...))
		}
		return &types.AttributeValueMemberBS{Value: bs}
	}
	panic("vToAV")
}

func vNumIs(text string, want int64) bool {
	f, err := strconv.ParseFloat(text, 64)
	return err == nil && f == float64(want)
}

func vBytesEq(a, b []byte) bool {
	if len(a) != len(b) {
		return false
	}
	for i := range a {
		if a[i] != b[i] {
			return false
		}
	}
	return true
}

// vSameAV: the SDK value has the reference value's type and value (sets as sets, numbers numerically).
func vSameAV(v vspec.Val, av types.AttributeValue) bool {
	switch x := av.(type) {
	case *types.AttributeValueMemberS:
		return v.Kind == "S" && x.Value == v.S
	case *types.AttributeValueMemberN:
		return v.Kind == "N" && (v.NTxt == "" && vNumIs(x.Value, v.N) || v.NTxt != "" && vspec.SameNumeral(x.Value, v.NTxt))
	case *types.AttributeValueMemberB:
		return v.Kind == "B" && vBytesEq(x.Value, v.B)
	case *types.AttributeValueMemberBOOL:
		return v.Kind == "BOOL" && x.Value == v.Bool
	case *types.AttributeValueMemberNULL:
		return v.Kind == "NULL" && x.Value
	case *types.AttributeValueMemberL:
		if v.Kind != "L" || len(x.Value) != len(v.L) {
			return false
		}
		for i := range v.L {
			if !vSameAV(v.L[i], x.Value[i]) {
				return false
			}
		}
		return true
	case *types.AttributeValueMemberM:
		if v.Kind != "M" || len(x.Value) != len(v.M) {
			return false
		}
		for k, w := range v.M {
			y, ok := x.Value[k]
			if !ok || !vSameAV(w, y) {
				return false
			}
		}
		return true
	case *types.AttributeValueMemberSS:
		if v.Kind != "SS" || len(x.Value) != len(v.SS) {
			return false
		}
		for _, s := range v.SS {
			f := false
			for _, g := range x.Value {
				if g == s {
					f = true
				}
			}
			if !f {
				return false
			}
		}
		return true
	case *types.AttributeValueMemberNS:
		if v.Kind != "NS" || len(x.Value) != len(v.NS) {
			return false
		}
		for _, n := range v.NS {
			f := false
			for _, g := range x.Value {
				if vNumIs(g, n) {
					f = true
				}
			}
			if !f {
				return false
			}
		}
		return true
	case *types.AttributeValueMemberBS:
		if v.Kind != "BS" || len(x.Value) != len(v.BS) {
			return false
		}
		for _, b := range v.BS {
			f := false
			for _, g := range x.Value {
				if vBytesEq(g, b) {
					f = true
				}
			}
			if !f {
				return false
			}
		}
		return true
	}
	return false
}

func vHasEmptyContainer(v vspec.Val) bool {
	switch v.Kind {
	case "L":
		if len(v.L) == 0 {
			return true
		}
		for _, x := range v.L {
			if vHasEmptyContainer(x) {
				return true
			}
		}
	case "M":
		if len(v.M) == 0 {
			return true
		}
		for _, x := range v.M {
			if vHasEmptyContainer(x) {
				return true
			}
		}
	}
	return false
}

// VerifC10RoundTrip: an item holding an arbitrary attribute-value tree written with PutItem comes back
// unchanged (names, types, values) from GetItem, Query, Scan and BatchGetItem.
func VerifC10RoundTrip() {
	depth, width := nd.Param("depth", 1), nd.Param("width", 2)
	c := vClient(false)
	v := vspec.GenTree("a", depth, width)
	if nd.Known("C10-v2-empty-list-or-map-reads-as-null") && vHasEmptyContainer(v) {
		// known finding (pinned by TestMapTypesToDynamo and TestUpdateExpressions/remove): the v2 adapter
		// returns an empty list and an empty map as NULL
		nd.Reach("end")
		return
	}
	key := vItem{"p": vS("k")}
	nd.Assert(vPut(c, vItem{"p": vS("k"), "a": vToAV(v)}) == nil, "C10-put-noerr")
	check := func(it vItem, id string) {
		nd.Assert(len(it) == 2, id+"-attribute-names")
		got, ok := it["a"]
		nd.Assert(ok && vSameAV(v, got), id+"-value-unchanged")
		p, _ := vGetS(it, "p")
		nd.Assert(p == "k", id+"-key-unchanged")
	}
	g, err := vGet(c, key)
	nd.Assert(err == nil, "C10-get-noerr")
	check(g, "C10-get")
	q, err := c.Query(vCtx, &dynamodb.QueryInput{TableName: aws.String(vTbl), KeyConditionExpression: aws.String("p = :p"), ExpressionAttributeValues: vItem{":p": vS("k")}})
	nd.Assert(err == nil && len(q.Items) == 1, "C10-query-noerr")
	if err == nil && len(q.Items) == 1 {
		check(q.Items[0], "C10-query")
	}
	s, err := c.Scan(vCtx, &dynamodb.ScanInput{TableName: aws.String(vTbl)})
	nd.Assert(err == nil && len(s.Items) == 1, "C10-scan-noerr")
	if err == nil && len(s.Items) == 1 {
		check(s.Items[0], "C10-scan")
	}
	b, err := c.BatchGetItem(vCtx, &dynamodb.BatchGetItemInput{RequestItems: map[string]types.KeysAndAttributes{vTbl: {Keys: []vItem{key}}}})
	nd.Assert(err == nil && len(b.Responses[vTbl]) == 1, "C10-batchget-noerr")
	if err == nil && len(b.Responses[vTbl]) == 1 {
		check(b.Responses[vTbl][0], "C10-batchget")
	}
	// reads cut by a Limit return whole items too (the last item of a page is also what the LastEvaluatedKey is cut from)
	ql, err := c.Query(vCtx, &dynamodb.QueryInput{TableName: aws.String(vTbl), KeyConditionExpression: aws.String("p = :p"), ExpressionAttributeValues: vItem{":p": vS("k")},
		Limit: aws.Int32(1), ScanIndexForward: aws.Bool(nd.Choice("limited-query-forward", 2) == 1)})
	nd.Assert(err == nil && len(ql.Items) == 1, "C10-limited-query-noerr")
	if err == nil && len(ql.Items) == 1 {
		check(ql.Items[0], "C10-limited-query")
	}
	sl, err := c.Scan(vCtx, &dynamodb.ScanInput{TableName: aws.String(vTbl), Limit: aws.Int32(1)})
	nd.Assert(err == nil && len(sl.Items) == 1, "C10-limited-scan-noerr")
	if err == nil && len(sl.Items) == 1 {
		check(sl.Items[0], "C10-limited-scan")
	}
	// a BatchGetItem over two tables returns each table's items under that table
	nd.Assert(AddTable(vCtx, c, "tb2", "p", "") == nil, "setup-addtable2")
	_, perr := c.PutItem(vCtx, &dynamodb.PutItemInput{TableName: aws.String("tb2"), Item: vItem{"p": vS("k2"), "other": vS("o")}})
	nd.Assert(perr == nil, "setup-put2")
	b2, err := c.BatchGetItem(vCtx, &dynamodb.BatchGetItemInput{RequestItems: map[string]types.KeysAndAttributes{vTbl: {Keys: []vItem{key}}, "tb2": {Keys: []vItem{{"p": vS("k2")}}}}})
	nd.Assert(err == nil && len(b2.Responses[vTbl]) == 1 && len(b2.Responses["tb2"]) == 1, "C10-batchget-two-tables-noerr")
	if err == nil && len(b2.Responses[vTbl]) == 1 && len(b2.Responses["tb2"]) == 1 {
		check(b2.Responses[vTbl][0], "C10-batchget-two-tables")
		nd.Assert(vSameItem(b2.Responses["tb2"][0], vItem{"p": vS("k2"), "other": vS("o")}), "C10-batchget-two-tables-other-table")
	}
	nd.Reach("end")
}

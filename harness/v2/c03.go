//go:build verif

package client

import (
	"strings"

	"github.com/aws/aws-sdk-go-v2/aws"
	"github.com/aws/aws-sdk-go-v2/service/dynamodb"
	"github.com/aws/aws-sdk-go-v2/service/dynamodb/types"
	"github.com/truora/minidyn/internal/nd"
)

const vIdx = "idx"

// vIndexed: does the model row carry every key attribute of the index (g, and h when the index has a range key)?
func vIndexed(attrs map[string]string, idxRange bool) bool {
	if _, ok := attrs["g"]; !ok {
		return false
	}
	if idxRange {
		if _, ok := attrs["h"]; !ok {
			return false
		}
	}
	return true
}

// vC03Mirror asserts that reading through the index yields exactly the model rows that possess the
// index key attributes, each once and with its current values, and that DescribeTable reports that count.
func vC03Mirror(c *Client, m *vModel, idxRange bool, id string) {
	want := 0
	for _, r := range m.rows {
		if vIndexed(r.attrs, idxRange) {
			want++
		}
	}
	out, err := c.Scan(vCtx, &dynamodb.ScanInput{TableName: aws.String(vTbl), IndexName: aws.String(vIdx)})
	nd.Assert(err == nil, id+"-scan-noerr")
	if err != nil {
		return
	}
	nd.Assert(len(out.Items) == want && int(out.Count) == want, id+"-index-scan-size")
	for _, r := range m.rows {
		n := 0
		for _, it := range out.Items {
			if p, ok := vGetS(it, "p"); ok && p == r.k.p {
				n++
				nd.Assert(vSameItem(it, m.full(r.k, r.attrs)), id+"-index-scan-current-values")
			}
		}
		if vIndexed(r.attrs, idxRange) {
			nd.Assert(n == 1, id+"-index-scan-has-item-once")
		} else {
			nd.Assert(n == 0, id+"-index-scan-sparse")
		}
	}
	// Query through the index for the index hash value of every row
	for _, r := range m.rows {
		if !vIndexed(r.attrs, idxRange) {
			continue
		}
		g := r.attrs["g"]
		q, err := c.Query(vCtx, &dynamodb.QueryInput{TableName: aws.String(vTbl), IndexName: aws.String(vIdx),
			KeyConditionExpression: aws.String("g = :g"), ExpressionAttributeValues: vItem{":g": vS(g)}})
		nd.Assert(err == nil, id+"-query-noerr")
		if err != nil {
			continue
		}
		wantQ := 0
		for _, r2 := range m.rows {
			if vIndexed(r2.attrs, idxRange) && r2.attrs["g"] == g {
				wantQ++
			}
		}
		nd.Assert(len(q.Items) == wantQ, id+"-index-query-size")
		found := 0
		for _, it := range q.Items {
			if p, ok := vGetS(it, "p"); ok && p == r.k.p {
				found++
			}
		}
		nd.Assert(found == 1, id+"-index-query-has-item")
	}
	d, err := c.DescribeTable(vCtx, &dynamodb.DescribeTableInput{TableName: aws.String(vTbl)})
	nd.Assert(err == nil, id+"-describe-noerr")
	if err == nil {
		ok := false
		for _, g := range d.Table.GlobalSecondaryIndexes {
			if aws.ToString(g.IndexName) == vIdx {
				ok = g.ItemCount != nil && int(*g.ItemCount) == want
			}
		}
		nd.Assert(ok, id+"-describe-index-count")
	}
}

func vC03Attrs(name string, idxRange bool) map[string]string {
	attrs := map[string]string{}
	if nd.Choice(name+".hasg", 2) == 1 {
		attrs["g"] = nd.StringN(name+".g", 1)
	}
	if idxRange && nd.Choice(name+".hash", 2) == 1 {
		attrs["h"] = nd.StringN(name+".h", 1)
	}
	return attrs
}

// VerifC03Step: canonical state of n items on a hash-only table with one GSI, then k operations, each of which
// can give an item an index key, change it, drop it, delete the item, clear the table or (first) create the
// index after the data; after every operation the index mirrors the base table. The GSI is either on the
// non-key attributes (g[, h]) or on the table's own hash key p (so that every item is indexed).
func VerifC03Step() {
	n, k := nd.Param("n", 2), nd.Param("k", 1)
	idxRange := nd.Choice("idxrange", 2) == 1
	onKey := !idxRange && nd.Choice("index-on-table-key", 2) == 1
	late := nd.Choice("index-created-late", 2) == 1
	c := vClient(false)
	ih, ir := "g", ""
	if idxRange {
		ir = "h"
	}
	if onKey {
		ih = "p"
	}
	indexed := func(attrs map[string]string) bool { return onKey || vIndexed(attrs, idxRange) }
	mirror := func(m *vModel, id string) {
		// the reference "has every index key attribute" depends on which attributes the index is on
		mm := &vModel{}
		for _, r := range m.rows {
			attrs := map[string]string{}
			for a, v := range r.attrs {
				attrs[a] = v
			}
			if onKey {
				attrs["g"] = "-" // marks the row as indexed for vC03Mirror; the value is not compared
			}
			mm.rows = append(mm.rows, vRow{k: r.k, attrs: attrs})
		}
		_ = indexed
		if onKey {
			vC03MirrorOnKey(c, m, id)
			return
		}
		vC03Mirror(c, m, idxRange, id)
	}
	if !late {
		nd.Assert(AddIndex(vCtx, c, vTbl, vIdx, ih, ir) == nil, "C03-setup-addindex")
	}
	m := &vModel{}
	unfit := false
	if late && !onKey && nd.Choice("unfit-item-first", 2) == 1 {
		unfit = true
		// an item whose g is a number can only be written while no index declares g a string; it stays out
		// of the index created later and must not keep the items after it out (it is not in the model: its
		// two-byte key equals no other key, and it never belongs to the index)
		nd.Reach("unfit-item")
		nd.Assert(vPut(c, vItem{"p": vS("uu"), "g": vN("1"), "h": vN("2")}) == nil, "C03-setup-put-unfit")
	}
	for i := 0; i < n; i++ {
		nm := "k" + string(rune('0'+i))
		key := vKey{p: nd.StringN(nm+".p", 1)}
		attrs := vC03Attrs(nm, idxRange)
		nd.Assert(vPut(c, m.full(key, attrs)) == nil, "C03-setup-put")
		m.put(key, attrs)
	}
	if late {
		nd.Reach("index-created-after-data")
		nd.Assert(AddIndex(vCtx, c, vTbl, vIdx, ih, ir) == nil, "C03-late-addindex")
		mirror(m, "C03-backfill")
		if unfit {
			// this scenario is about the back-fill only
			nd.Reach("end")
			return
		}
	} else {
		mirror(m, "C03-canon")
	}
	for step := 0; step < k; step++ {
		key := vKey{p: nd.StringN("op.p", 1)}
		old, _ := m.get(key)
		nops := 6
		if onKey {
			nops = 5 // g is no index key attribute there: no ill-typed index key to be had
		}
		switch nd.Choice("op", nops) {
		case 5: // an UpdateItem that is refused for an ill-typed index key while it also changes or drops the
			// item's other index key attribute / another attribute: the table and the index stay as they were
			nd.Reach("refused-update")
			expr := "SET g = :n, w = :x"
			if idxRange {
				expr = []string{"SET g = :n REMOVE h", "SET h = :x, g = :n", "REMOVE g SET h = :n"}[nd.Choice("op.refused", 3)]
			}
			vals := vItem{":n": vN("1")}
			if strings.Contains(expr, ":x") {
				vals[":x"] = vS(nd.StringN("op.x", 1))
			}
			_, err := c.UpdateItem(vCtx, &dynamodb.UpdateItemInput{TableName: aws.String(vTbl), Key: key.item(false),
				UpdateExpression: aws.String(expr), ExpressionAttributeValues: vals})
			if err == nil {
				// where the item ends up outside the index (it lacks the other index key attribute) the ill-typed
				// value may be let through; the statement says nothing on that, and the S-typed model ends here
				nd.Reach("end")
				return
			}
			got, gerr := vGet(c, key.item(false))
			if oldAttrs, existed := m.get(key); existed {
				nd.Assert(gerr == nil && vSameItem(got, m.full(key, oldAttrs)), "C03-refused-update-leaves-the-item")
			} else {
				nd.Assert(gerr == nil && len(got) == 0, "C03-refused-update-creates-nothing")
			}
		case 0: // overwrite / insert with any index-key situation
			nd.Reach("put")
			attrs := vC03Attrs("op", idxRange)
			nd.Assert(vPut(c, m.full(key, attrs)) == nil, "C03-put-noerr")
			m.put(key, attrs)
		case 1: // UpdateItem SET g = :x (enters the index late, changes its index key, or creates the item)
			nd.Reach("update-set")
			x := nd.StringN("op.x", 1)
			_, err := c.UpdateItem(vCtx, &dynamodb.UpdateItemInput{TableName: aws.String(vTbl), Key: key.item(false),
				UpdateExpression: aws.String("SET g = :x"), ExpressionAttributeValues: vItem{":x": vS(x)}})
			nd.Assert(err == nil, "C03-update-noerr")
			na := map[string]string{}
			for a, v := range old {
				na[a] = v
			}
			na["g"] = x
			m.put(key, na)
		case 2: // UpdateItem REMOVE g (leaves the index)
			nd.Reach("update-remove")
			_, err := c.UpdateItem(vCtx, &dynamodb.UpdateItemInput{TableName: aws.String(vTbl), Key: key.item(false),
				UpdateExpression: aws.String("REMOVE g")})
			nd.Assert(err == nil, "C03-remove-noerr")
			na := map[string]string{}
			for a, v := range old {
				if a != "g" {
					na[a] = v
				}
			}
			m.put(key, na)
		case 3:
			nd.Reach("delete")
			_, err := c.DeleteItem(vCtx, &dynamodb.DeleteItemInput{TableName: aws.String(vTbl), Key: key.item(false)})
			nd.Assert(err == nil, "C03-delete-noerr")
			m.del(key)
		case 4:
			nd.Reach("clear")
			nd.Assert(ClearTable(c, vTbl) == nil, "C03-clear-noerr")
			m.rows = nil
		}
		mirror(m, "C03-step")
	}
	nd.Reach("end")
}

// vC03MirrorOnKey: the index is on the table's own hash key, so it must list exactly the table's items.
func vC03MirrorOnKey(c *Client, m *vModel, id string) {
	out, err := c.Scan(vCtx, &dynamodb.ScanInput{TableName: aws.String(vTbl), IndexName: aws.String(vIdx)})
	nd.Assert(err == nil, id+"-scan-noerr")
	if err != nil {
		return
	}
	nd.Assert(len(out.Items) == len(m.rows) && int(out.Count) == len(m.rows), id+"-index-scan-size")
	for _, r := range m.rows {
		n := 0
		for _, it := range out.Items {
			if p, ok := vGetS(it, "p"); ok && p == r.k.p {
				n++
				nd.Assert(vSameItem(it, m.full(r.k, r.attrs)), id+"-index-scan-current-values")
			}
		}
		nd.Assert(n == 1, id+"-index-scan-has-item-once")
		q, err := c.Query(vCtx, &dynamodb.QueryInput{TableName: aws.String(vTbl), IndexName: aws.String(vIdx),
			KeyConditionExpression: aws.String("p = :p"), ExpressionAttributeValues: vItem{":p": vS(r.k.p)}})
		nd.Assert(err == nil && len(q.Items) == 1, id+"-index-query-has-item")
	}
	d, err := c.DescribeTable(vCtx, &dynamodb.DescribeTableInput{TableName: aws.String(vTbl)})
	nd.Assert(err == nil, id+"-describe-noerr")
	if err == nil {
		ok := false
		for _, g := range d.Table.GlobalSecondaryIndexes {
			if aws.ToString(g.IndexName) == vIdx {
				ok = g.ItemCount != nil && int(*g.ItemCount) == len(m.rows)
			}
		}
		nd.Assert(ok, id+"-describe-index-count")
	}
}

// VerifC03Local: the same mirror property for a local secondary index. Table (p, s) with LSI "lsi" on (p, g),
// declared at creation; one partition "k"; n items with symbolic sort keys, each with or without g; then k
// operations (PutItem with/without g, UpdateItem SET g - also creating the item -, UpdateItem REMOVE g,
// DeleteItem, ClearTable), and after each the comparison of Scan(lsi), Query(lsi, p = k) in both directions and
// the table's item count with the model: exactly the items that have g, each once with current values, ordered
// by g.
func VerifC03Local() {
	n, k := nd.Param("n", 1), nd.Param("k", 2)
	c := NewClient()
	in := generateAddTableInput(vTbl, "p", "s")
	in.AttributeDefinitions = append(in.AttributeDefinitions, types.AttributeDefinition{AttributeName: aws.String("g"), AttributeType: types.ScalarAttributeTypeS})
	in.LocalSecondaryIndexes = []types.LocalSecondaryIndex{{IndexName: aws.String("lsi"),
		KeySchema:  []types.KeySchemaElement{{AttributeName: aws.String("p"), KeyType: types.KeyTypeHash}, {AttributeName: aws.String("g"), KeyType: types.KeyTypeRange}},
		Projection: &types.Projection{ProjectionType: types.ProjectionTypeAll}}}
	_, err := c.CreateTable(vCtx, in)
	nd.Assert(err == nil, "C03-local-createtable")
	m := &vModel{withRange: true}
	mirror := func(id string) {
		want := 0
		for _, r := range m.rows {
			if _, ok := r.attrs["g"]; ok {
				want++
			}
		}
		out, serr := c.Scan(vCtx, &dynamodb.ScanInput{TableName: aws.String(vTbl), IndexName: aws.String("lsi")})
		nd.Assert(serr == nil, id+"-scan-noerr")
		if serr != nil {
			return
		}
		nd.Assert(len(out.Items) == want && int(out.Count) == want, id+"-lsi-scan-size")
		for _, r := range m.rows {
			cnt := 0
			for _, it := range out.Items {
				if s, ok := vGetS(it, "s"); ok && s == r.k.s {
					cnt++
					nd.Assert(vSameItem(it, m.full(r.k, r.attrs)), id+"-lsi-scan-current-values")
				}
			}
			if _, ok := r.attrs["g"]; ok {
				nd.Assert(cnt == 1, id+"-lsi-scan-has-item-once")
			} else {
				nd.Assert(cnt == 0, id+"-lsi-scan-sparse")
			}
		}
		for _, fwd := range []bool{true, false} {
			q, qerr := c.Query(vCtx, &dynamodb.QueryInput{TableName: aws.String(vTbl), IndexName: aws.String("lsi"), ScanIndexForward: aws.Bool(fwd),
				KeyConditionExpression: aws.String("p = :p"), ExpressionAttributeValues: vItem{":p": vS("k")}})
			nd.Assert(qerr == nil, id+"-lsi-query-noerr")
			if qerr != nil {
				continue
			}
			nd.Assert(len(q.Items) == want, id+"-lsi-query-size")
			for i := 1; i < len(q.Items); i++ {
				a, _ := vGetS(q.Items[i-1], "g")
				b, _ := vGetS(q.Items[i], "g")
				if fwd {
					nd.Assert(a <= b, id+"-lsi-query-ascending")
				} else {
					nd.Assert(a >= b, id+"-lsi-query-descending")
				}
			}
		}
		d, derr := c.DescribeTable(vCtx, &dynamodb.DescribeTableInput{TableName: aws.String(vTbl)})
		nd.Assert(derr == nil && d.Table.ItemCount != nil && int(*d.Table.ItemCount) == len(m.rows), id+"-itemcount")
		if derr == nil {
			// the index is described as what it was declared as: a local index (p HASH, g RANGE)
			nd.Assert(len(d.Table.GlobalSecondaryIndexes) == 0 && len(d.Table.LocalSecondaryIndexes) == 1, id+"-described-as-a-local-index")
			if len(d.Table.LocalSecondaryIndexes) == 1 {
				l := d.Table.LocalSecondaryIndexes[0]
				nd.Assert(aws.ToString(l.IndexName) == "lsi" && len(l.KeySchema) == 2 &&
					aws.ToString(l.KeySchema[0].AttributeName) == "p" && l.KeySchema[0].KeyType == types.KeyTypeHash &&
					aws.ToString(l.KeySchema[1].AttributeName) == "g" && l.KeySchema[1].KeyType == types.KeyTypeRange, id+"-local-index-description")
				// the per-index item count: the number of items that carry the index's key attributes
				nd.Assert(l.ItemCount != nil && int(*l.ItemCount) == want, id+"-local-index-item-count")
			}
		}
		vInvariant(c, id)
	}
	attrsOf := func(name string) map[string]string {
		attrs := map[string]string{"v": nd.StringN(name+".v", 1)}
		if nd.Choice(name+".hasg", 2) == 1 {
			attrs["g"] = nd.StringN(name+".g", 1)
		}
		return attrs
	}
	for i := 0; i < n; i++ {
		nm := "k" + string(rune('0'+i))
		key := vKey{p: "k", s: nd.StringN(nm+".s", 1)}
		attrs := attrsOf(nm)
		nd.Assert(vPut(c, m.full(key, attrs)) == nil, "C03-local-setup-put")
		m.put(key, attrs)
	}
	mirror("C03-local-canon")
	for step := 0; step < k; step++ {
		nm := "o" + string(rune('0'+step))
		key := vKey{p: "k", s: nd.StringN(nm+".s", 1)}
		old, _ := m.get(key)
		switch nd.Choice(nm+".op", 5) {
		case 0:
			nd.Reach("put")
			attrs := attrsOf(nm)
			nd.Assert(vPut(c, m.full(key, attrs)) == nil, "C03-local-put-noerr")
			m.put(key, attrs)
		case 1:
			nd.Reach("update-set")
			x := nd.StringN(nm+".x", 1)
			_, uerr := c.UpdateItem(vCtx, &dynamodb.UpdateItemInput{TableName: aws.String(vTbl), Key: key.item(true),
				UpdateExpression: aws.String("SET g = :x"), ExpressionAttributeValues: vItem{":x": vS(x)}})
			nd.Assert(uerr == nil, "C03-local-update-noerr")
			na := map[string]string{}
			for a, v := range old {
				na[a] = v
			}
			na["g"] = x
			m.put(key, na)
		case 2:
			nd.Reach("update-remove")
			_, uerr := c.UpdateItem(vCtx, &dynamodb.UpdateItemInput{TableName: aws.String(vTbl), Key: key.item(true), UpdateExpression: aws.String("REMOVE g")})
			nd.Assert(uerr == nil, "C03-local-remove-noerr")
			na := map[string]string{}
			for a, v := range old {
				if a != "g" {
					na[a] = v
				}
			}
			m.put(key, na)
		case 3:
			nd.Reach("delete")
			_, derr := c.DeleteItem(vCtx, &dynamodb.DeleteItemInput{TableName: aws.String(vTbl), Key: key.item(true)})
			nd.Assert(derr == nil, "C03-local-delete-noerr")
			m.del(key)
		case 4:
			nd.Reach("clear")
			nd.Assert(ClearTable(c, vTbl) == nil, "C03-local-clear-noerr")
			m.rows = nil
		}
		mirror("C03-local-step")
	}
	nd.Reach("end")
}

// VerifC03KeyShapes: index key shapes the step harness does not draw. Table (p, s) with two GSIs: "inv", whose
// key attributes are the table's own key attributes in the other order (hash s, range p: every item is in it
// from the moment it exists, however it was created), and "gx" on attribute g whose values are 1..2 bytes long
// (one index key may be a proper prefix of another, with the primary keys in either order). n items, each
// created by PutItem or by an UpdateItem upsert; then Scan and Query through both indexes and the counts
// reported by DescribeTable must mirror the table.
func VerifC03KeyShapes() {
	n := nd.Param("n", 2)
	c := vClient(true)
	// the indexes exist before the items are written, or are created over the items afterwards (back-fill: the
	// order of the index keys is in general not the order of the primary keys)
	late := nd.Choice("indexes-created-late", 2) == 1
	// the order in which the two indexes were created (the engine walks a map in insertion order: either index
	// may be the one a write visits first)
	gxFirst := nd.Choice("sparse-index-created-first", 2) == 1
	addBoth := func(id string) {
		if gxFirst {
			nd.Assert(AddIndex(vCtx, c, vTbl, "gx", "g", "") == nil, id+"-gx")
		}
		nd.Assert(AddIndex(vCtx, c, vTbl, "inv", "s", "p") == nil, id+"-inv")
		if !gxFirst {
			nd.Assert(AddIndex(vCtx, c, vTbl, "gx", "g", "") == nil, id+"-gx")
		}
	}
	if !late {
		addBoth("setup-addindex")
	}
	m := &vModel{withRange: true}
	for i := 0; i < n; i++ {
		nm := "k" + string(rune('0'+i))
		k := vKey{p: nd.StringN(nm+".p", 1), s: nd.StringN(nm+".s", 1)}
		attrs := map[string]string{}
		if nd.Choice(nm+".hasg", 2) == 1 {
			attrs["g"] = vKeyStr(nm+".g", 2)
		}
		if nd.Choice(nm+".created-by-update", 2) == 1 {
			nd.Reach("upsert")
			in := &dynamodb.UpdateItemInput{TableName: aws.String(vTbl), Key: k.item(true), UpdateExpression: aws.String("SET v = :v"), ExpressionAttributeValues: vItem{":v": vS("v")}}
			if g, ok := attrs["g"]; ok {
				in.UpdateExpression, in.ExpressionAttributeValues = aws.String("SET v = :v, g = :g"), vItem{":v": vS("v"), ":g": vS(g)}
			}
			_, err := c.UpdateItem(vCtx, in)
			nd.Assert(err == nil, "C03-shapes-upsert-noerr")
			// an upsert onto a stored item keeps the attributes it does not name
			old, _ := m.get(k)
			na := map[string]string{"v": "v"}
			if g, ok := old["g"]; ok {
				na["g"] = g
			}
			if g, ok := attrs["g"]; ok {
				na["g"] = g
			}
			m.put(k, na)
		} else {
			attrs["v"] = "v"
			nd.Assert(vPut(c, m.full(k, attrs)) == nil, "C03-shapes-put-noerr")
			m.put(k, attrs)
		}
	}
	if late {
		nd.Reach("indexes-created-late")
		addBoth("late-addindex")
	}
	check := func(idx, hashAttr string, in func(r vRow) (string, bool), id string) {
		want := 0
		for _, r := range m.rows {
			if _, ok := in(r); ok {
				want++
			}
		}
		out, err := c.Scan(vCtx, &dynamodb.ScanInput{TableName: aws.String(vTbl), IndexName: aws.String(idx)})
		nd.Assert(err == nil, id+"-scan-noerr")
		if err != nil {
			return
		}
		nd.Assert(len(out.Items) == want && int(out.Count) == want, id+"-index-scan-size")
		for _, r := range m.rows {
			cnt := 0
			for _, it := range out.Items {
				if j := vFindRow(m, it); j >= 0 && m.rows[j].k.eq(r.k, true) {
					cnt++
					nd.Assert(vSameItem(it, m.full(r.k, r.attrs)), id+"-index-scan-current-values")
				}
			}
			hv, ok := in(r)
			if !ok {
				nd.Assert(cnt == 0, id+"-index-scan-sparse")
				continue
			}
			nd.Assert(cnt == 1, id+"-index-scan-has-item-once")
			q, qerr := c.Query(vCtx, &dynamodb.QueryInput{TableName: aws.String(vTbl), IndexName: aws.String(idx),
				KeyConditionExpression: aws.String(hashAttr + " = :h"), ExpressionAttributeValues: vItem{":h": vS(hv)}})
			nd.Assert(qerr == nil, id+"-query-noerr")
			if qerr != nil {
				continue
			}
			wantQ, found := 0, 0
			for _, r2 := range m.rows {
				if h2, ok2 := in(r2); ok2 && h2 == hv {
					wantQ++
				}
			}
			for _, it := range q.Items {
				if j := vFindRow(m, it); j >= 0 && m.rows[j].k.eq(r.k, true) {
					found++
				}
			}
			nd.Assert(len(q.Items) == wantQ && found == 1, id+"-index-query-exact")
		}
		d, derr := c.DescribeTable(vCtx, &dynamodb.DescribeTableInput{TableName: aws.String(vTbl)})
		nd.Assert(derr == nil, id+"-describe-noerr")
		if derr == nil {
			ok := false
			for _, g := range d.Table.GlobalSecondaryIndexes {
				if aws.ToString(g.IndexName) == idx {
					ok = g.ItemCount != nil && int(*g.ItemCount) == want
				}
			}
			nd.Assert(ok, id+"-describe-index-count")
		}
	}
	check("inv", "s", func(r vRow) (string, bool) { return r.k.s, true }, "C03-inverted")
	check("gx", "g", func(r vRow) (string, bool) { g, ok := r.attrs["g"]; return g, ok }, "C03-prefix")
	// the inverted index orders each of its partitions by the table's hash key
	if len(m.rows) == 2 && m.rows[0].k.s == m.rows[1].k.s {
		nd.Reach("shared-inverted-partition")
		q, err := c.Query(vCtx, &dynamodb.QueryInput{TableName: aws.String(vTbl), IndexName: aws.String("inv"),
			KeyConditionExpression: aws.String("s = :h"), ExpressionAttributeValues: vItem{":h": vS(m.rows[0].k.s)}})
		if err == nil && len(q.Items) == 2 {
			a, _ := vGetS(q.Items[0], "p")
			b, _ := vGetS(q.Items[1], "p")
			nd.Assert(a < b, "C03-inverted-ordered-by-its-range-key")
		}
	}
	vInvariant(c, "C03-shapes")
	nd.Reach("end")
}

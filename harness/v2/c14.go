//go:build verif

package client

import (
	"errors"
	ctypes "github.com/truora/minidyn/types"

	"github.com/aws/aws-sdk-go-v2/aws"
	"github.com/aws/aws-sdk-go-v2/service/dynamodb"
	"github.com/aws/aws-sdk-go-v2/service/dynamodb/types"
	"github.com/truora/minidyn/internal/nd"
	"github.com/truora/minidyn/internal/vspec"
)

// vPoke overwrites every mutable location reachable from av (slice elements, map entries, struct fields)
// with different data. It returns the number of locations it changed.
func vPoke(av types.AttributeValue) int {
	n := 0
	switch x := av.(type) {
	case *types.AttributeValueMemberS:
		x.Value += "!"
		n++
	case *types.AttributeValueMemberN:
		x.Value = "999"
		n++
	case *types.AttributeValueMemberB:
		for i := range x.Value {
			x.Value[i] ^= 0xff
			n++
		}
	case *types.AttributeValueMemberBOOL:
		x.Value = !x.Value
		n++
	case *types.AttributeValueMemberNULL:
	case *types.AttributeValueMemberL:
		for _, e := range x.Value {
			n += vPoke(e)
		}
		for i := range x.Value {
			x.Value[i] = &types.AttributeValueMemberS{Value: "poked"}
			n++
		}
	case *types.AttributeValueMemberM:
		for _, e := range x.Value {
			n += vPoke(e)
		}
		x.Value["poked"] = &types.AttributeValueMemberS{Value: "poked"}
		n++
	case *types.AttributeValueMemberSS:
		for i := range x.Value {
			x.Value[i] += "!"
			n++
		}
	case *types.AttributeValueMemberNS:
		for i := range x.Value {
			x.Value[i] = "999"
			n++
		}
	case *types.AttributeValueMemberBS:
		for i := range x.Value {
			for j := range x.Value[i] {
				x.Value[i][j] ^= 0xff
				n++
			}
		}
	}
	return n
}

func vPokeItem(it vItem) int {
	n := 0
	for _, av := range it {
		n += vPoke(av)
	}
	it["poked"] = vS("poked")
	return n + 1
}

// VerifC14Isolation: after a call returns, the stored state shares no mutable memory with the caller:
// poking the structures passed to PutItem / UpdateItem, or the structures returned by GetItem / Query / Scan /
// UpdateItem / DeleteItem(ALL_OLD) / a failed conditional write, changes nothing that later reads return,
// and a result already returned is not changed by a later write.
func VerifC14Isolation() {
	depth := nd.Param("depth", 1)
	c := vClient(false)
	v := vspec.GenTree("a", depth, nd.Param("width", 2))
	if nd.Known("C10-v2-empty-list-or-map-reads-as-null") && vHasEmptyContainer(v) {
		nd.Reach("end")
		return
	}
	key := func() vItem { return vItem{"p": vS("k")} }
	same := func(it vItem, id string) {
		got, ok := it["a"]
		nd.Assert(len(it) == 2 && ok && vSameAV(v, got), id)
	}
	read := func(id string) vItem {
		it, err := vGet(c, key())
		nd.Assert(err == nil, id+"-get-noerr")
		same(it, id)
		return it
	}
	scenario := nd.Choice("scenario", 10)
	switch scenario {
	case 0: // input of PutItem
		in := vItem{"p": vS("k"), "a": vToAV(v)}
		nd.Assert(vPut(c, in) == nil, "C14-put-noerr")
		vPokeItem(in)
		read("C14-put-input-not-shared")
	case 1: // input of UpdateItem (expression values)
		nd.Assert(vPut(c, vItem{"p": vS("k")}) == nil, "C14-put-noerr")
		vals := vItem{":a": vToAV(v)}
		_, err := c.UpdateItem(vCtx, &dynamodb.UpdateItemInput{TableName: aws.String(vTbl), Key: key(), UpdateExpression: aws.String("SET a = :a"), ExpressionAttributeValues: vals})
		nd.Assert(err == nil, "C14-update-noerr")
		vPokeItem(vals)
		read("C14-update-input-not-shared")
	default:
		nd.Assert(vPut(c, vItem{"p": vS("k"), "a": vToAV(v)}) == nil, "C14-put-noerr")
		switch scenario {
		case 2: // output of GetItem
			vPokeItem(read("C14-get"))
			read("C14-get-output-not-shared")
		case 3: // output of Query
			q, err := c.Query(vCtx, &dynamodb.QueryInput{TableName: aws.String(vTbl), KeyConditionExpression: aws.String("p = :p"), ExpressionAttributeValues: vItem{":p": vS("k")}})
			nd.Assert(err == nil && len(q.Items) == 1, "C14-query-noerr")
			vPokeItem(q.Items[0])
			read("C14-query-output-not-shared")
		case 4: // output of Scan
			s, err := c.Scan(vCtx, &dynamodb.ScanInput{TableName: aws.String(vTbl)})
			nd.Assert(err == nil && len(s.Items) == 1, "C14-scan-noerr")
			vPokeItem(s.Items[0])
			read("C14-scan-output-not-shared")
		case 5: // output of UpdateItem
			out, err := c.UpdateItem(vCtx, &dynamodb.UpdateItemInput{TableName: aws.String(vTbl), Key: key(), UpdateExpression: aws.String("SET z = :z"),
				ExpressionAttributeValues: vItem{":z": vS("z")}, ReturnValues: types.ReturnValueAllNew})
			nd.Assert(err == nil, "C14-update-noerr")
			vPokeItem(out.Attributes)
			it, gerr := vGet(c, key())
			got, ok := it["a"]
			nd.Assert(gerr == nil && ok && vSameAV(v, got), "C14-update-output-not-shared")
		case 6: // item attached to a failed conditional update
			_, err := c.UpdateItem(vCtx, &dynamodb.UpdateItemInput{TableName: aws.String(vTbl), Key: key(), UpdateExpression: aws.String("SET z = :z"),
				ConditionExpression: aws.String("attribute_not_exists(p)"), ExpressionAttributeValues: vItem{":z": vS("z")},
				ReturnValuesOnConditionCheckFailure: types.ReturnValuesOnConditionCheckFailureAllOld})
			var ccf *types.ConditionalCheckFailedException
			nd.Assert(errors.As(err, &ccf), "C14-conditional-failure")
			if ccf != nil && ccf.Item != nil {
				nd.Reach("failure-carries-item")
				vPokeItem(ccf.Item)
			}
			read("C14-failure-item-not-shared")
		case 8: // output of BatchGetItem
			b, err := c.BatchGetItem(vCtx, &dynamodb.BatchGetItemInput{RequestItems: map[string]types.KeysAndAttributes{vTbl: {Keys: []vItem{key()}}}})
			nd.Assert(err == nil && len(b.Responses[vTbl]) == 1, "C14-batchget-noerr")
			if err == nil && len(b.Responses[vTbl]) == 1 {
				vPokeItem(b.Responses[vTbl][0])
			}
			read("C14-batchget-output-not-shared")
		case 9: // input of BatchWriteItem
			in := vItem{"p": vS("k"), "a": vToAV(v)}
			_, err := c.BatchWriteItem(vCtx, &dynamodb.BatchWriteItemInput{RequestItems: map[string][]types.WriteRequest{vTbl: {{PutRequest: &types.PutRequest{Item: in}}}}})
			nd.Assert(err == nil, "C14-batchwrite-noerr")
			vPokeItem(in)
			read("C14-batchwrite-input-not-shared")
		case 7: // a result already returned is not changed by later writes
			g := read("C14-get")
			nd.Assert(vPut(c, vItem{"p": vS("k"), "a": vS("other"), "b": vS("b")}) == nil, "C14-put2-noerr")
			_, err := c.UpdateItem(vCtx, &dynamodb.UpdateItemInput{TableName: aws.String(vTbl), Key: key(), UpdateExpression: aws.String("SET a = :z"), ExpressionAttributeValues: vItem{":z": vS("z")}})
			nd.Assert(err == nil, "C14-update-noerr")
			_, err = c.DeleteItem(vCtx, &dynamodb.DeleteItemInput{TableName: aws.String(vTbl), Key: key()})
			nd.Assert(err == nil, "C14-delete-noerr")
			same(g, "C14-returned-result-unchanged-by-later-writes")
		}
	}
	nd.Reach("end")
}

// VerifC14KeyInputs: the Key (and the expression values) of an UpdateItem are caller-owned too. An UpdateItem
// creates the item from its Key when none is stored: whether the update is applied by the built-in interpreter
// or by a registered native updater, poking the Key and the values after the call changes nothing a later
// read returns - on a created and on an updated item.
func VerifC14KeyInputs() {
	c := vClient(false)
	v := vspec.GenTree("a", 0, 1)
	native := nd.Choice("native-updater", 2) == 1
	if native {
		nd.Reach("native-updater")
		c.ActivateNativeInterpreter()
		c.GetNativeInterpreter().AddUpdater(vTbl, "SET a = :a", func(item, attrs map[string]*ctypes.Item) { item["a"] = attrs[":a"] })
	}
	if nd.Choice("item-present", 2) == 1 {
		nd.Assert(vPut(c, vItem{"p": vS("k"), "z": vS("z")}) == nil, "C14-put-noerr")
	} else {
		nd.Reach("created-by-update")
	}
	key := vItem{"p": vS("k")}
	vals := vItem{":a": vToAV(v)}
	out, err := c.UpdateItem(vCtx, &dynamodb.UpdateItemInput{TableName: aws.String(vTbl), Key: key, UpdateExpression: aws.String("SET a = :a"),
		ExpressionAttributeValues: vals, ReturnValues: types.ReturnValueAllNew})
	nd.Assert(err == nil, "C14-update-noerr")
	vPokeItem(key)
	vPokeItem(vals)
	if err == nil {
		vPokeItem(out.Attributes)
	}
	it, gerr := vGet(c, vItem{"p": vS("k")})
	nd.Assert(gerr == nil, "C14-get-noerr")
	p, _ := vGetS(it, "p")
	got, ok := it["a"]
	nd.Assert(p == "k" && ok && vSameAV(v, got), "C14-update-key-and-values-not-shared")
	all := vScanAll(c)
	nd.Assert(len(all) == 1, "C14-one-item")
	if len(all) == 1 {
		sp, _ := vGetS(all[0], "p")
		nd.Assert(sp == "k", "C14-stored-key-not-shared")
	}
	nd.Reach("end")
}

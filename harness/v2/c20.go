//go:build verif

package client

import (
	"github.com/aws/aws-sdk-go-v2/aws"
	"github.com/aws/aws-sdk-go-v2/service/dynamodb"
	"github.com/truora/minidyn/internal/nd"
	"github.com/truora/minidyn/interpreter"
	mtypes "github.com/truora/minidyn/types"
)

// VerifC20Client: with the native interpreter active, a registered conditional matcher decides a
// conditional PutItem (its verdict, not the text's meaning), an unregistered condition falls back to the
// built-in interpreter, an UpdateItem without a registered updater fails without touching the item, and a
// registered updater's mutation is what gets stored; native on/off and activation before/after CreateTable.
func VerifC20Client() {
	c := NewClient()
	early := nd.Choice("activate-before-create", 2) == 1
	native := nd.Choice("native", 2) == 1
	if native && early {
		c.ActivateNativeInterpreter()
	}
	nd.Assert(AddTable(vCtx, c, vTbl, "p", "") == nil, "setup-addtable")
	if native && !early {
		c.ActivateNativeInterpreter()
	}
	verdict := nd.Bool("verdict")
	matcherRan, updaterRan := 0, 0
	regLate := nd.Choice("register-after-create", 2) == 1
	_ = regLate // registrations always happen after NewClient; the table copies the registry by reference
	c.GetNativeInterpreter().AddMatcher(vTbl, interpreter.ExpressionTypeConditional, "v = :x", func(item, attrs map[string]*mtypes.Item) bool {
		matcherRan++
		return verdict
	})
	c.GetNativeInterpreter().AddUpdater(vTbl, "SET u = :n", func(item, attrs map[string]*mtypes.Item) {
		updaterRan++
		s := "native"
		item["u"] = &mtypes.Item{S: &s}
	})
	v, x := nd.StringN("v", 1), nd.StringN("x", 1)
	nd.Assert(vPut(c, vItem{"p": vS("k"), "v": vS(v)}) == nil, "setup-put")

	switch nd.Choice("op", 4) {
	case 0: // registered condition text (with extra blanks)
		_, err := c.PutItem(vCtx, &dynamodb.PutItemInput{TableName: aws.String(vTbl), Item: vItem{"p": vS("k"), "v": vS("new")},
			ConditionExpression: aws.String("  v =  :x "), ExpressionAttributeValues: vItem{":x": vS(x)}})
		if native {
			nd.Reach("native-matcher")
			nd.Assert(matcherRan == 1, "C20-client-matcher-ran")
			nd.Assert((err == nil) == verdict, "C20-client-matcher-verdict-decides")
		} else {
			nd.Assert(matcherRan == 0, "C20-client-native-off-never-dispatches")
			nd.Assert((err == nil) == (v == x), "C20-client-native-off-builtin-decides")
		}
	case 1: // unregistered condition: built-in interpreter decides
		nd.Reach("fallback")
		_, err := c.PutItem(vCtx, &dynamodb.PutItemInput{TableName: aws.String(vTbl), Item: vItem{"p": vS("k"), "v": vS("new")},
			ConditionExpression: aws.String("v <> :x"), ExpressionAttributeValues: vItem{":x": vS(x)}})
		nd.Assert(matcherRan == 0, "C20-client-unregistered-never-dispatches")
		nd.Assert((err == nil) == (v != x), "C20-client-fallback-to-builtin")
	case 2: // update without a registered updater
		_, err := c.UpdateItem(vCtx, &dynamodb.UpdateItemInput{TableName: aws.String(vTbl), Key: vItem{"p": vS("k")},
			UpdateExpression: aws.String("SET w = :n"), ExpressionAttributeValues: vItem{":n": vS("z")}})
		nd.Assert(updaterRan == 0, "C20-client-unregistered-updater-never-dispatches")
		got, _ := vGet(c, vItem{"p": vS("k")})
		if native {
			nd.Reach("missing-updater")
			nd.Assert(err != nil, "C20-client-missing-updater-fails")
			nd.Assert(vSameItem(got, vItem{"p": vS("k"), "v": vS(v)}), "C20-client-missing-updater-leaves-item")
		} else {
			nd.Assert(err == nil && vSameItem(got, vItem{"p": vS("k"), "v": vS(v), "w": vS("z")}), "C20-client-native-off-builtin-updates")
		}
	case 3: // registered updater
		_, err := c.UpdateItem(vCtx, &dynamodb.UpdateItemInput{TableName: aws.String(vTbl), Key: vItem{"p": vS("k")},
			UpdateExpression: aws.String("SET u = :n"), ExpressionAttributeValues: vItem{":n": vS("z")}})
		nd.Assert(err == nil, "C20-client-update-noerr")
		got, _ := vGet(c, vItem{"p": vS("k")})
		if native {
			nd.Reach("native-updater")
			nd.Assert(updaterRan == 1, "C20-client-updater-ran")
			nd.Assert(vSameItem(got, vItem{"p": vS("k"), "v": vS(v), "u": vS("native")}), "C20-client-updater-mutation-stored")
		} else {
			nd.Assert(updaterRan == 0, "C20-client-native-off-updater-never-dispatches")
			nd.Assert(vSameItem(got, vItem{"p": vS("k"), "v": vS(v), "u": vS("z")}), "C20-client-native-off-builtin-update")
		}
	}
	nd.Reach("end")
}

//go:build verif

package client

import (
	"github.com/aws/aws-sdk-go-v2/aws"
	"github.com/aws/aws-sdk-go-v2/service/dynamodb"
	"github.com/truora/minidyn/internal/nd"
	"github.com/truora/minidyn/interpreter"
	mtypes "github.com/truora/minidyn/types"
)

// VerifC20Client: with the native interpreter active, a registered conditional matcher decides a
// conditional PutItem (its verdict, not the text's meaning), an unregistered condition falls back to the
// built-in interpreter, an UpdateItem without a registered updater fails without touching the item, and a
// registered updater's mutation is what gets stored; native on/off and activation before/after CreateTable.
func VerifC20Client() {
	c := NewClient()
	early := nd.Choice("activate-before-create", 2) == 1
	native := nd.Choice("native", 2) == 1
	if native && early {
		c.ActivateNativeInterpreter()
	}
	nd.Assert(AddTable(vCtx, c, vTbl, "p", "") == nil, "setup-addtable")
	if native && !early {
		c.ActivateNativeInterpreter()
	}
	verdict := nd.Bool("verdict")
	matcherRan, updaterRan, staleRan, keyRan, filterRan := 0, 0, 0, 0, 0
	// a registry replaced through SetInterpreter (before or after the table exists) is the one in force:
	// what was registered with the replaced registry never fires again
	if nd.Choice("set-interpreter", 2) == 1 {
		c.GetNativeInterpreter().AddMatcher(vTbl, interpreter.ExpressionTypeConditional, "v = :x", func(item, attrs map[string]*mtypes.Item) bool {
			staleRan++
			return !verdict
		})
		c.GetNativeInterpreter().AddUpdater(vTbl, "SET u = :n", func(item, attrs map[string]*mtypes.Item) { staleRan++ })
		c.SetInterpreter(interpreter.NewNativeInterpreter())
	}
	keyVerdict := nd.Bool("key-verdict")
	c.GetNativeInterpreter().AddMatcher(vTbl, interpreter.ExpressionTypeConditional, "v = :x", func(item, attrs map[string]*mtypes.Item) bool {
		matcherRan++
		return verdict
	})
	c.GetNativeInterpreter().AddMatcher(vTbl, interpreter.ExpressionTypeKey, "p = :p", func(item, attrs map[string]*mtypes.Item) bool {
		keyRan++
		return keyVerdict
	})
	oddRan := 0
	c.GetNativeInterpreter().AddMatcher(vTbl, interpreter.ExpressionTypeKey, "begins_with(p, :p)", func(item, attrs map[string]*mtypes.Item) bool {
		oddRan++
		return keyVerdict
	})
	c.GetNativeInterpreter().AddMatcher(vTbl, interpreter.ExpressionTypeFilter, "v = :x", func(item, attrs map[string]*mtypes.Item) bool {
		filterRan++
		return verdict
	})
	c.GetNativeInterpreter().AddUpdater(vTbl, "SET u = :n", func(item, attrs map[string]*mtypes.Item) {
		updaterRan++
		s := "native"
		item["u"] = &mtypes.Item{S: &s}
	})
	removerRan := 0
	c.GetNativeInterpreter().AddUpdater(vTbl, "REMOVE v SET w = :n", func(item, attrs map[string]*mtypes.Item) {
		removerRan++
		delete(item, "v")
		item["w"] = attrs[":n"]
	})
	v, x := nd.StringN("v", 1), nd.StringN("x", 1)
	nd.Assert(vPut(c, vItem{"p": vS("k"), "v": vS(v)}) == nil, "setup-put")

	switch nd.Choice("op", 11) {
	case 8: // a registered updater that removes an attribute: its whole mutation is what gets stored
		_, err := c.UpdateItem(vCtx, &dynamodb.UpdateItemInput{TableName: aws.String(vTbl), Key: vItem{"p": vS("k")},
			UpdateExpression: aws.String("REMOVE v SET w = :n"), ExpressionAttributeValues: vItem{":n": vS("z")}})
		nd.Assert(err == nil, "C20-client-removing-update-noerr")
		got, _ := vGet(c, vItem{"p": vS("k")})
		nd.Assert(vSameItem(got, vItem{"p": vS("k"), "w": vS("z")}), "C20-client-updater-removal-stored")
		if native {
			nd.Reach("native-removing-updater")
			nd.Assert(removerRan >= 1, "C20-client-removing-updater-ran")
		}
	case 9: // Query: registered key condition, unregistered filter - each expression is dispatched on its own
		nd.Assert(vPut(c, vItem{"p": vS("k2"), "v": vS(v)}) == nil, "setup-put2")
		out, err := c.Query(vCtx, &dynamodb.QueryInput{TableName: aws.String(vTbl), KeyConditionExpression: aws.String("p = :p"), FilterExpression: aws.String("v <> :x"),
			ExpressionAttributeValues: vItem{":p": vS("k"), ":x": vS(x)}})
		nd.Assert(err == nil, "C20-client-query2-noerr")
		if err == nil && native {
			nd.Reach("native-key-builtin-filter")
			// the key matcher's verdict decides which items are candidates (both or none), the built-in filter the rest
			want := 0
			if keyVerdict && v != x {
				want = 2
			}
			nd.Assert(len(out.Items) == want, "C20-client-key-matcher-and-builtin-filter-combine")
			nd.Assert(keyRan >= 2 || !keyVerdict, "C20-client-key-matcher-asked-for-every-item")
			nd.Assert(filterRan == 0, "C20-client-unregistered-filter-never-dispatches")
		}
	case 10: // Scan-like Query: unregistered key condition (built-in), registered filter
		out, err := c.Query(vCtx, &dynamodb.QueryInput{TableName: aws.String(vTbl), KeyConditionExpression: aws.String("p = :k"), FilterExpression: aws.String("v = :x"),
			ExpressionAttributeValues: vItem{":k": vS("k"), ":x": vS(x)}})
		nd.Assert(err == nil, "C20-client-query3-noerr")
		if err == nil && native {
			nd.Reach("builtin-key-native-filter")
			nd.Assert(filterRan >= 1, "C20-client-filter-matcher-ran-after-a-key-condition-without-matcher")
			nd.Assert((len(out.Items) == 1) == verdict, "C20-client-filter-verdict-decides-after-builtin-key-condition")
		}
	case 0: // registered condition text (with extra blanks)
		_, err := c.PutItem(vCtx, &dynamodb.PutItemInput{TableName: aws.String(vTbl), Item: vItem{"p": vS("k"), "v": vS("new")},
			ConditionExpression: aws.String("  v =  :x "), ExpressionAttributeValues: vItem{":x": vS(x)}})
		if native {
			nd.Reach("native-matcher")
			nd.Assert(matcherRan >= 1, "C20-client-matcher-ran")
			nd.Assert((err == nil) == verdict, "C20-client-matcher-verdict-decides")
		} else {
			nd.Assert(matcherRan == 0, "C20-client-native-off-never-dispatches")
			nd.Assert((err == nil) == (v == x), "C20-client-native-off-builtin-decides")
		}
	case 1: // unregistered condition: built-in interpreter decides
		nd.Reach("fallback")
		_, err := c.PutItem(vCtx, &dynamodb.PutItemInput{TableName: aws.String(vTbl), Item: vItem{"p": vS("k"), "v": vS("new")},
			ConditionExpression: aws.String("v <> :x"), ExpressionAttributeValues: vItem{":x": vS(x)}})
		nd.Assert(matcherRan == 0, "C20-client-unregistered-never-dispatches")
		nd.Assert((err == nil) == (v != x), "C20-client-fallback-to-builtin")
	case 2: // update without a registered updater
		_, err := c.UpdateItem(vCtx, &dynamodb.UpdateItemInput{TableName: aws.String(vTbl), Key: vItem{"p": vS("k")},
			UpdateExpression: aws.String("SET w = :n"), ExpressionAttributeValues: vItem{":n": vS("z")}})
		nd.Assert(updaterRan == 0, "C20-client-unregistered-updater-never-dispatches")
		got, _ := vGet(c, vItem{"p": vS("k")})
		if native {
			nd.Reach("missing-updater")
			nd.Assert(err != nil, "C20-client-missing-updater-fails")
			nd.Assert(vSameItem(got, vItem{"p": vS("k"), "v": vS(v)}), "C20-client-missing-updater-leaves-item")
		} else {
			nd.Assert(err == nil && vSameItem(got, vItem{"p": vS("k"), "v": vS(v), "w": vS("z")}), "C20-client-native-off-builtin-updates")
		}
	case 3: // registered updater
		_, err := c.UpdateItem(vCtx, &dynamodb.UpdateItemInput{TableName: aws.String(vTbl), Key: vItem{"p": vS("k")},
			UpdateExpression: aws.String("SET u = :n"), ExpressionAttributeValues: vItem{":n": vS("z")}})
		nd.Assert(err == nil, "C20-client-update-noerr")
		got, _ := vGet(c, vItem{"p": vS("k")})
		if native {
			nd.Reach("native-updater")
			nd.Assert(updaterRan >= 1, "C20-client-updater-ran")
			nd.Assert(vSameItem(got, vItem{"p": vS("k"), "v": vS(v), "u": vS("native")}), "C20-client-updater-mutation-stored")
		} else {
			nd.Assert(updaterRan == 0, "C20-client-native-off-updater-never-dispatches")
			nd.Assert(vSameItem(got, vItem{"p": vS("k"), "v": vS(v), "u": vS("z")}), "C20-client-native-off-builtin-update")
		}
	case 4: // Query: key matcher and filter matcher, each under its own kind
		out, err := c.Query(vCtx, &dynamodb.QueryInput{TableName: aws.String(vTbl), KeyConditionExpression: aws.String("p = :p"), FilterExpression: aws.String("v = :x"),
			ExpressionAttributeValues: vItem{":p": vS("k"), ":x": vS(x)}})
		nd.Assert(err == nil, "C20-client-query-noerr")
		if err == nil {
			if native {
				nd.Reach("native-query")
				nd.Assert(keyRan >= 1 || filterRan >= 1, "C20-client-a-registered-read-matcher-ran")
				nd.Assert(!(keyVerdict && verdict) || (keyRan >= 1 && filterRan >= 1), "C20-client-both-matchers-ran-for-a-returned-item")
				nd.Assert(matcherRan == 0, "C20-client-conditional-matcher-not-used-for-reads")
				nd.Assert((len(out.Items) == 1) == (keyVerdict && verdict), "C20-client-query-result-is-the-matchers-verdict")
			} else {
				nd.Assert(keyRan == 0 && filterRan == 0, "C20-client-native-off-query-never-dispatches")
				nd.Assert((len(out.Items) == 1) == (v == x), "C20-client-native-off-query-builtin-decides")
			}
		}
	case 5: // Scan with the registered filter text
		out, err := c.Scan(vCtx, &dynamodb.ScanInput{TableName: aws.String(vTbl), FilterExpression: aws.String("v  = :x"), ExpressionAttributeValues: vItem{":x": vS(x)}})
		nd.Assert(err == nil, "C20-client-scan-noerr")
		if err == nil {
			if native {
				nd.Reach("native-scan")
				nd.Assert(filterRan >= 1 && keyRan == 0 && matcherRan == 0, "C20-client-scan-filter-matcher-ran")
				nd.Assert((len(out.Items) == 1) == verdict, "C20-client-scan-result-is-the-matchers-verdict")
			} else {
				nd.Assert(filterRan == 0, "C20-client-native-off-scan-never-dispatches")
				nd.Assert((len(out.Items) == 1) == (v == x), "C20-client-native-off-scan-builtin-decides")
			}
		}
	case 6: // Scan with a filter text registered only as a key condition: falls back to the built-in
		out, err := c.Scan(vCtx, &dynamodb.ScanInput{TableName: aws.String(vTbl), FilterExpression: aws.String("p = :p"), ExpressionAttributeValues: vItem{":p": vS(x)}})
		nd.Assert(err == nil, "C20-client-scan2-noerr")
		if err == nil {
			nd.Assert(keyRan == 0 && filterRan == 0, "C20-client-key-registration-never-fires-for-a-filter")
			nd.Assert((len(out.Items) == 1) == (x == "k"), "C20-client-unregistered-filter-falls-back")
		}
	case 7: // a registered key-condition text need not be one the built-in interpreter would accept
		if native {
			nd.Reach("native-odd-key-text")
			out, err := c.Query(vCtx, &dynamodb.QueryInput{TableName: aws.String(vTbl), KeyConditionExpression: aws.String("begins_with(p,  :p)"), ExpressionAttributeValues: vItem{":p": vS("k")}})
			nd.Assert(err == nil, "C20-client-registered-key-text-dispatched-noerr")
			if err == nil {
				nd.Assert(oddRan >= 1, "C20-client-registered-key-text-matcher-ran")
				nd.Assert((len(out.Items) == 1) == keyVerdict, "C20-client-registered-key-text-verdict-decides")
			}
		}
	}
	nd.Assert(staleRan == 0, "C20-client-replaced-registry-never-fires")
	nd.Reach("end")
}

// VerifC20Verdicts: the verdict of a registered matcher is what the operation uses - for every item. A native
// key matcher (and a native filter matcher) is an arbitrary Go function: three items, one symbolic verdict per
// item, Query (both directions, with and without a Limit large enough) and Scan return exactly the items the
// matcher accepted, in key order - also when an accepted item comes after a refused one that follows an
// accepted one.
func VerifC20Verdicts() {
	c := NewClient()
	c.ActivateNativeInterpreter()
	withRange := nd.Choice("range-key", 2) == 1
	r := ""
	if withRange {
		r = "s"
	}
	nd.Assert(AddTable(vCtx, c, vTbl, "p", r) == nil, "setup-addtable")
	keys := []string{"a", "b", "c"}
	verdicts := map[string]bool{}
	for _, k := range keys {
		verdicts[k] = nd.Bool("verdict." + k)
		it := vItem{"p": vS(k), "v": vS("x")}
		if withRange {
			it = vItem{"p": vS("h"), "s": vS(k), "v": vS("x")}
		}
		nd.Assert(vPut(c, it) == nil, "setup-put")
	}
	attr := "p"
	if withRange {
		attr = "s"
	}
	ran := 0
	decide := func(item, attrs map[string]*mtypes.Item) bool {
		ran++
		if item[attr] == nil || item[attr].S == nil {
			return false
		}
		return verdicts[*item[attr].S]
	}
	c.GetNativeInterpreter().AddMatcher(vTbl, interpreter.ExpressionTypeKey, "p = :p", decide)
	c.GetNativeInterpreter().AddMatcher(vTbl, interpreter.ExpressionTypeFilter, "v = :x", decide)
	var got []vItem
	fwd := true
	if nd.Choice("read", 2) == 0 {
		fwd = nd.Choice("forward", 2) == 1
		in := &dynamodb.QueryInput{TableName: aws.String(vTbl), KeyConditionExpression: aws.String("p = :p"), ExpressionAttributeValues: vItem{":p": vS("h")}, ScanIndexForward: aws.Bool(fwd)}
		if nd.Choice("with-limit", 2) == 1 {
			in.Limit = aws.Int32(10)
		}
		out, err := c.Query(vCtx, in)
		nd.Assert(err == nil && len(out.LastEvaluatedKey) == 0, "C20-verdicts-query-noerr")
		if err == nil {
			got = out.Items
		}
	} else {
		out, err := c.Scan(vCtx, &dynamodb.ScanInput{TableName: aws.String(vTbl), FilterExpression: aws.String("v = :x"), ExpressionAttributeValues: vItem{":x": vS("x")}})
		nd.Assert(err == nil, "C20-verdicts-scan-noerr")
		if err == nil {
			got = out.Items
		}
	}
	var want []string
	for _, k := range keys {
		if verdicts[k] {
			want = append(want, k)
		}
	}
	if !fwd {
		for i, j := 0, len(want)-1; i < j; i, j = i+1, j-1 {
			want[i], want[j] = want[j], want[i]
		}
	}
	nd.Assert(ran >= 1, "C20-verdicts-matcher-ran")
	nd.Assert(len(got) == len(want), "C20-verdicts-exactly-the-accepted-items")
	if len(got) == len(want) {
		for i := range want {
			k, _ := vGetS(got[i], attr)
			nd.Assert(k == want[i], "C20-verdicts-accepted-items-in-key-order")
		}
	}
	nd.Reach("end")
}

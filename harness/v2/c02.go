//go:build verif

package client

import (
	"github.com/aws/aws-sdk-go-v2/aws"
	"github.com/aws/aws-sdk-go-v2/service/dynamodb"
	"github.com/truora/minidyn/internal/nd"
)

// vRead describes one Query or Scan request over table "tbl" (hash p, range s) and its GSI "idx"
// (hash g, range h), in a form both the request builder and the reference oracle understand.
type vRead struct {
	scan    bool
	index   bool   // read through the GSI
	hashVal string // key condition: <hash> = :hv
	rangeOp string // "", "=", "<", "<=", ">", ">=", "between", "begins_with"
	r1, r2  string // sort-key operands
	filter  string // "", "=", "<>"   (on attribute f)
	fv      string
	forward bool
}

func (r vRead) hashAttr() string {
	if r.index {
		return "g"
	}
	return "p"
}

func (r vRead) rangeAttr() string {
	if r.index {
		return "h"
	}
	return "s"
}

func hasPrefixStr(s, p string) bool { return len(s) >= len(p) && s[:len(p)] == p }

// matches: the reference semantics of the request on one model row (Go's own string comparisons).
func (r vRead) matches(row vRow) bool {
	attrs := map[string]string{"p": row.k.p, "s": row.k.s}
	for a, v := range row.attrs {
		attrs[a] = v
	}
	if r.index {
		// sparse index: only items that have every index key attribute
		if _, ok := attrs["g"]; !ok {
			return false
		}
		if _, ok := attrs["h"]; !ok {
			return false
		}
	}
	if !r.scan {
		if attrs[r.hashAttr()] != r.hashVal {
			return false
		}
		sv := attrs[r.rangeAttr()]
		switch r.rangeOp {
		case "=":
			if !(sv == r.r1) {
				return false
			}
		case "<":
			if !(sv < r.r1) {
				return false
			}
		case "<=":
			if !(sv <= r.r1) {
				return false
			}
		case ">":
			if !(sv > r.r1) {
				return false
			}
		case ">=":
			if !(sv >= r.r1) {
				return false
			}
		case "between":
			if !(sv >= r.r1 && sv <= r.r2) {
				return false
			}
		case "begins_with":
			if !hasPrefixStr(sv, r.r1) {
				return false
			}
		}
	}
	fv, hasF := attrs["f"]
	switch r.filter {
	case "=":
		if !(hasF && fv == r.fv) {
			return false
		}
	case "<>":
		if hasF && fv == r.fv {
			return false
		}
	}
	return true
}

func (r vRead) exprs() (keyCond, filter string, vals vItem) {
	vals = vItem{}
	if !r.scan {
		keyCond = r.hashAttr() + " = :hv"
		vals[":hv"] = vS(r.hashVal)
		ra := r.rangeAttr()
		switch r.rangeOp {
		case "=", "<", "<=", ">", ">=":
			keyCond += " AND " + ra + " " + r.rangeOp + " :r1"
			vals[":r1"] = vS(r.r1)
		case "between":
			keyCond += " AND " + ra + " BETWEEN :r1 AND :r2"
			vals[":r1"], vals[":r2"] = vS(r.r1), vS(r.r2)
		case "begins_with":
			keyCond += " AND begins_with(" + ra + ", :r1)"
			vals[":r1"] = vS(r.r1)
		}
	}
	switch r.filter {
	case "=":
		filter = "f = :fv"
		vals[":fv"] = vS(r.fv)
	case "<>":
		filter = "f <> :fv"
		vals[":fv"] = vS(r.fv)
	}
	if len(vals) == 0 {
		vals = nil
	}
	return
}

// run issues the request; limit 0 = no Limit.
func (r vRead) run(c *Client, limit int32, start vItem) (items []vItem, count int32, last vItem, err error) {
	keyCond, filter, vals := r.exprs()
	var idx *string
	if r.index {
		idx = aws.String(vIdx)
	}
	var lim *int32
	if limit > 0 {
		lim = aws.Int32(limit)
	}
	var fe *string
	if filter != "" {
		fe = aws.String(filter)
	}
	if r.scan {
		out, e := c.Scan(vCtx, &dynamodb.ScanInput{TableName: aws.String(vTbl), IndexName: idx, FilterExpression: fe,
			ExpressionAttributeValues: vals, Limit: lim, ExclusiveStartKey: start})
		if e != nil {
			return nil, 0, nil, e
		}
		return out.Items, out.Count, out.LastEvaluatedKey, nil
	}
	out, e := c.Query(vCtx, &dynamodb.QueryInput{TableName: aws.String(vTbl), IndexName: idx, KeyConditionExpression: aws.String(keyCond),
		FilterExpression: fe, ExpressionAttributeValues: vals, Limit: lim, ExclusiveStartKey: start, ScanIndexForward: aws.Bool(r.forward)})
	if e != nil {
		return nil, 0, nil, e
	}
	return out.Items, out.Count, out.LastEvaluatedKey, nil
}

var vRangeOps = []string{"", "=", "<", "<=", ">", ">=", "between", "begins_with"}

// vNewRead draws a request shape (forked) with symbolic operand values. With parameter shapes=1 the
// full product index x (scan | 8 sort-key conditions x 2 directions) x 3 filters is explored; with
// shapes=2 a list of 13 representative combinations, with shapes=0 eight of them (each on the base table
// and on the index).
func vNewRead(cap int) vRead {
	r := vRead{forward: true}
	r.index = nd.Choice("rd.index", 2) == 1
	filter := 0
	if nd.Param("shapes", 0) == 1 {
		r.scan = nd.Choice("rd.scan", 2) == 1
		if !r.scan {
			r.rangeOp = vRangeOps[nd.Choice("rd.rangeop", len(vRangeOps))]
			r.forward = nd.Choice("rd.forward", 2) == 1
		}
		filter = nd.Choice("rd.filter", 3)
	} else {
		type shape struct {
			scan    bool
			op      string
			forward bool
			filter  int
		}
		shapes := []shape{
			{true, "", true, 0}, {true, "", true, 1}, {true, "", true, 2},
			{false, "", true, 0}, {false, "", false, 1},
			{false, "=", true, 0}, {false, "<", true, 0}, {false, "<=", true, 0}, {false, ">", true, 0}, {false, ">=", true, 0},
			{false, "between", false, 0}, {false, "begins_with", true, 0}, {false, "<", false, 2},
		}
		if nd.Param("shapes", 0) == 0 {
			// the quick tier's eight shapes
			shapes = []shape{shapes[0], shapes[1], shapes[3], shapes[4], shapes[6], shapes[9], shapes[10], shapes[11]}
		}
		sh := shapes[nd.Choice("rd.shape", len(shapes))]
		r.scan, r.rangeOp, r.forward, filter = sh.scan, sh.op, sh.forward, sh.filter
	}
	if !r.scan {
		r.hashVal = nd.StringN("rd.hv", 1)
		if r.rangeOp != "" {
			r.r1 = vKeyStr("rd.r1", cap)
		}
		if r.rangeOp == "between" {
			r.r2 = vKeyStr("rd.r2", cap)
		}
	}
	switch filter {
	case 1:
		r.filter, r.fv = "=", nd.StringN("rd.fv", 1)
	case 2:
		r.filter, r.fv = "<>", nd.StringN("rd.fv", 1)
	}
	return r
}

// vC02Table: client with table (p, s) and GSI idx (g, h), filled with n symbolic items through PutItem.
func vC02Table(n, cap int) (*Client, *vModel) {
	sparse := nd.Param("sparse", 1) == 1 // items may lack the index key / the filter attribute
	c := vClient(true)
	nd.Assert(AddIndex(vCtx, c, vTbl, vIdx, "g", "h") == nil, "setup-addindex")
	m := &vModel{withRange: true}
	for i := 0; i < n; i++ {
		nm := "k" + string(rune('0'+i))
		// sort keys of variable length (prefix relations) for the first `varlen` items, one byte for the others
		icap := 1
		if i < nd.Param("varlen", n) {
			icap = cap
		}
		k := vKey{p: nd.StringN(nm+".p", 1), s: vKeyStr(nm+".s", icap)}
		attrs := map[string]string{}
		if !sparse || nd.Choice(nm+".indexed", 2) == 1 {
			attrs["g"] = nd.StringN(nm+".g", 1)
			attrs["h"] = vKeyStr(nm+".h", icap)
		}
		if !sparse || nd.Choice(nm+".hasf", 2) == 1 {
			attrs["f"] = nd.StringN(nm+".f", 1)
		}
		nd.Assert(vPut(c, m.full(k, attrs)) == nil, "setup-put")
		m.put(k, attrs)
	}
	return c, m
}

func vFindRow(m *vModel, it vItem) int {
	p, _ := vGetS(it, "p")
	s, _ := vGetS(it, "s")
	return m.find(vKey{p: p, s: s})
}

// vC02Exact: items = exactly the matching rows, each once, ordered by the sort key of the table/index.
func vC02Exact(r vRead, m *vModel, items []vItem, count int32, id string) {
	want := 0
	for _, row := range m.rows {
		if r.matches(row) {
			want++
		}
	}
	nd.Assert(len(items) == want, id+"-result-size")
	nd.Assert(int(count) == len(items), id+"-count-equals-items")
	for _, row := range m.rows {
		n := 0
		for _, it := range items {
			if j := vFindRow(m, it); j >= 0 && m.rows[j].k.eq(row.k, true) {
				n++
				nd.Assert(vSameItem(it, m.full(row.k, row.attrs)), id+"-item-values")
			}
		}
		if r.matches(row) {
			nd.Assert(n == 1, id+"-matching-item-once")
		} else {
			nd.Assert(n == 0, id+"-no-extra-item")
		}
	}
	if !r.scan {
		ra := r.rangeAttr()
		for i := 1; i < len(items); i++ {
			a, _ := vGetS(items[i-1], ra)
			b, _ := vGetS(items[i], ra)
			if r.forward {
				nd.Assert(a <= b, id+"-ascending")
			} else {
				nd.Assert(a >= b, id+"-descending")
			}
		}
	}
}

// VerifC02Read: on any table content reachable through PutItem (n items, overwrites included), every
// supported Query/Scan shape returns exactly the matching items in sort-key order.
func VerifC02Read() {
	n, cap := nd.Param("n", 2), nd.Param("cap", 2)
	c, m := vC02Table(n, cap)
	r := vNewRead(cap)
	items, count, last, err := r.run(c, 0, nil)
	nd.Assert(err == nil, "C02-noerr")
	if err != nil {
		return
	}
	nd.Assert(len(last) == 0, "C02-unlimited-read-is-complete")
	vC02Exact(r, m, items, count, "C02")
	if r.scan {
		nd.Reach("scan")
	} else {
		nd.Reach("query")
	}
	if r.index {
		nd.Reach("index")
	}
	nd.Reach("end")
}

// VerifC02Churn: the contents are reached through a history that is more than PutItem - after the n loaded
// items (one partition, symbolic sort keys and index sort keys), k further operations (DeleteItem of a stored
// or of an absent key, UpdateItem upsert, overwriting PutItem that moves the item in the index) - and are
// then read in the broad ways: Scan and Query in both directions, on the table and through the index. Every
// read must return exactly the model's rows in order.
func VerifC02Churn() {
	n, k := nd.Param("n", 2), nd.Param("k", 1)
	c := vClient(true)
	nd.Assert(AddIndex(vCtx, c, vTbl, vIdx, "g", "h") == nil, "setup-addindex")
	m := &vModel{withRange: true}
	for i := 0; i < n; i++ {
		nm := "k" + string(rune('0'+i))
		key := vKey{p: "k", s: nd.StringN(nm+".s", 1)}
		attrs := map[string]string{}
		if nd.Choice(nm+".indexed", 2) == 1 {
			attrs["g"], attrs["h"] = "k", nd.StringN(nm+".h", 1)
		}
		nd.Assert(vPut(c, m.full(key, attrs)) == nil, "setup-put")
		m.put(key, attrs)
	}
	for step := 0; step < k; step++ {
		nm := "c" + string(rune('0'+step))
		key := vKey{p: "k", s: nd.StringN(nm+".s", 1)}
		_, existed := m.get(key)
		switch nd.Choice(nm+".op", 3) {
		case 0:
			_, err := c.DeleteItem(vCtx, &dynamodb.DeleteItemInput{TableName: aws.String(vTbl), Key: key.item(true)})
			nd.Assert(err == nil, "C02-churn-delete-noerr")
			if !existed {
				nd.Reach("delete-absent")
			}
			m.del(key)
		case 1:
			h := nd.StringN(nm+".h", 1)
			_, err := c.UpdateItem(vCtx, &dynamodb.UpdateItemInput{TableName: aws.String(vTbl), Key: key.item(true),
				UpdateExpression: aws.String("SET g = :g, h = :h"), ExpressionAttributeValues: vItem{":g": vS("k"), ":h": vS(h)}})
			nd.Assert(err == nil, "C02-churn-update-noerr")
			m.put(key, map[string]string{"g": "k", "h": h})
		case 2:
			nd.Assert(vPut(c, m.full(key, map[string]string{})) == nil, "C02-churn-put-noerr")
			m.put(key, map[string]string{})
		}
	}
	reads := []vRead{
		{scan: true, forward: true}, {scan: true, index: true, forward: true},
		{hashVal: "k", forward: true}, {hashVal: "k", forward: false},
		{index: true, hashVal: "k", forward: true}, {index: true, hashVal: "k", forward: false},
	}
	for i, r := range reads {
		items, count, last, err := r.run(c, 0, nil)
		id := "C02-churn-read" + string(rune('0'+i))
		nd.Assert(err == nil && len(last) == 0, id+"-noerr")
		if err == nil {
			vC02Exact(r, m, items, count, id)
		}
	}
	vInvariant(c, "C02-churn")
	nd.Reach("end")
}

// VerifC02Filtered: a filter does not select a contiguous run. One partition with three items whose filter
// attribute is symbolic (so: accepted - refused - accepted among the cases), read by Query (both directions) and
// Scan, on the table and through the index, with a filter: exactly the accepted items, in order.
func VerifC02Filtered() {
	c := vClient(true)
	nd.Assert(AddIndex(vCtx, c, vTbl, vIdx, "g", "h") == nil, "setup-addindex")
	m := &vModel{withRange: true}
	for i, sk := range []string{"a", "b", "c"} {
		nm := "k" + string(rune('0'+i))
		attrs := map[string]string{"f": nd.StringN(nm+".f", 1), "g": "k", "h": sk}
		key := vKey{p: "k", s: sk}
		nd.Assert(vPut(c, m.full(key, attrs)) == nil, "setup-put")
		m.put(key, attrs)
	}
	fv := nd.StringN("fv", 1)
	r := vRead{hashVal: "k", filter: []string{"=", "<>"}[nd.Choice("filter", 2)], fv: fv, forward: nd.Choice("forward", 2) == 1}
	r.index = nd.Choice("index", 2) == 1
	r.scan = nd.Choice("scan", 2) == 1
	items, count, last, err := r.run(c, 0, nil)
	nd.Assert(err == nil && len(last) == 0, "C02-filtered-noerr")
	if err == nil {
		vC02Exact(r, m, items, count, "C02-filtered")
	}
	nd.Reach("end")
}

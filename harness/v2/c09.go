//go:build verif

package client

import (
	"github.com/aws/aws-sdk-go-v2/aws"
	"github.com/aws/aws-sdk-go-v2/service/dynamodb"
	"github.com/truora/minidyn/internal/nd"
)

// VerifC09Client: at the client API an expression that is not a sentence surfaces as an error or as the
// library's panic carrying it - never as a silently successful call - whether or not the table holds items.
func VerifC09Client() {
	c := vClient(false)
	nonEmpty := nd.Choice("table-has-items", 2) == 1
	if nonEmpty {
		nd.Assert(vPut(c, vItem{"p": vS("k"), "v": vS(nd.StringN("v", 1))}) == nil, "setup-put")
	}
	bad := []string{"v = = :x", "v = :x AND", "(v = :x", "v = :x )", "v :x", "v = :x v = :x", "= :x", "v == :x", "v = :x OR OR v = :x", "NOT", "v BETWEEN :x", "v IN :x", "attribute_exists(v", "v = :x ?"}
	badUpd := []string{"SET v = ", "SET v :x", "SET v = :x,", "v = :x", "SET v = :x REMOVE", "SET SET v = :x", "REMOVE v :x", "SET v = :x = :x"}
	tbl := aws.String(vTbl)
	vals := vItem{":x": vS("x")}
	var err error
	var panicked bool
	switch nd.Choice("entry", 8) {
	case 0:
		e := bad[nd.Choice("text", len(bad))]
		err, panicked = vCatch(func() error {
			_, e2 := c.PutItem(vCtx, &dynamodb.PutItemInput{TableName: tbl, Item: vItem{"p": vS("k")}, ConditionExpression: aws.String(e), ExpressionAttributeValues: vals})
			return e2
		})
		nd.Assert(err != nil || panicked, "C09-client-put-condition-rejected ["+e+"]")
	case 1:
		e := badUpd[nd.Choice("text", len(badUpd))]
		err, panicked = vCatch(func() error {
			_, e2 := c.UpdateItem(vCtx, &dynamodb.UpdateItemInput{TableName: tbl, Key: vItem{"p": vS("k")}, UpdateExpression: aws.String(e), ExpressionAttributeValues: vals})
			return e2
		})
		nd.Assert(err != nil || panicked, "C09-client-update-expression-rejected ["+e+"]")
	case 2:
		e := bad[nd.Choice("text", len(bad))]
		err, panicked = vCatch(func() error {
			_, e2 := c.DeleteItem(vCtx, &dynamodb.DeleteItemInput{TableName: tbl, Key: vItem{"p": vS("k")}, ConditionExpression: aws.String(e), ExpressionAttributeValues: vals})
			return e2
		})
		nd.Assert(err != nil || panicked, "C09-client-delete-condition-rejected ["+e+"]")
	case 3:
		e := bad[nd.Choice("text", len(bad))]
		err, panicked = vCatch(func() error {
			_, e2 := c.Query(vCtx, &dynamodb.QueryInput{TableName: tbl, KeyConditionExpression: aws.String("p = :x"), FilterExpression: aws.String(e), ExpressionAttributeValues: vals})
			return e2
		})
		nd.Assert(err != nil || panicked, "C09-client-query-filter-rejected ["+e+"]")
	case 4:
		e := bad[nd.Choice("text", len(bad))]
		err, panicked = vCatch(func() error {
			_, e2 := c.Query(vCtx, &dynamodb.QueryInput{TableName: tbl, KeyConditionExpression: aws.String(e), ExpressionAttributeValues: vals})
			return e2
		})
		nd.Assert(err != nil || panicked, "C09-client-query-key-condition-rejected ["+e+"]")
	case 5:
		e := bad[nd.Choice("text", len(bad))]
		err, panicked = vCatch(func() error {
			_, e2 := c.Scan(vCtx, &dynamodb.ScanInput{TableName: tbl, FilterExpression: aws.String(e), ExpressionAttributeValues: vals})
			return e2
		})
		nd.Assert(err != nil || panicked, "C09-client-scan-filter-rejected ["+e+"]")
	case 6: // through an index none of the items belongs to: no item ever reaches the filter
		nd.Assert(AddIndex(vCtx, c, vTbl, vIdx, "g", "") == nil, "setup-addindex")
		e := bad[nd.Choice("text", len(bad))]
		err, panicked = vCatch(func() error {
			_, e2 := c.Scan(vCtx, &dynamodb.ScanInput{TableName: tbl, IndexName: aws.String(vIdx), FilterExpression: aws.String(e), ExpressionAttributeValues: vals})
			return e2
		})
		nd.Assert(err != nil || panicked, "C09-client-index-scan-filter-rejected ["+e+"]")
	case 7: // resumed behind the last item: nothing is visited
		e := bad[nd.Choice("text", len(bad))]
		err, panicked = vCatch(func() error {
			_, e2 := c.Scan(vCtx, &dynamodb.ScanInput{TableName: tbl, FilterExpression: aws.String(e), ExpressionAttributeValues: vals, ExclusiveStartKey: vItem{"p": vS("k")}})
			return e2
		})
		nd.Assert(err != nil || panicked, "C09-client-resumed-scan-filter-rejected ["+e+"]")
	}
	nd.Reach("end")
}

//go:build verif

package client

import (
	"context"
	"errors"

	"github.com/aws/aws-sdk-go-v2/aws"
	"github.com/aws/aws-sdk-go-v2/service/dynamodb"
	"github.com/aws/aws-sdk-go-v2/service/dynamodb/types"
	"github.com/aws/smithy-go"
	"github.com/truora/minidyn/internal/nd"
)

const vTbl = "tbl"

var vCtx = context.Background()

type vItem = map[string]types.AttributeValue

func vS(s string) types.AttributeValue { return &types.AttributeValueMemberS{Value: s} }

// vStr: every byte string of length 0..cap; vKeyStr: length 1..cap (key attribute values are non-empty).
func vStr(name string, cap int) string { return nd.StringN(name, nd.Choice(name+".len", cap+1)) }
func vKeyStr(name string, cap int) string {
	return nd.StringN(name, 1+nd.Choice(name+".len", cap))
}

func vGetS(it vItem, name string) (string, bool) {
	v, ok := it[name]
	if !ok {
		return "", false
	}
	s, ok := v.(*types.AttributeValueMemberS)
	if !ok {
		return "", false
	}
	return s.Value, true
}

// vClient creates a client with table "tbl" (hash "p", optional range "s").
func vClient(withRange bool) *Client {
	c := NewClient()
	r := ""
	if withRange {
		r = "s"
	}
	err := AddTable(vCtx, c, vTbl, "p", r)
	nd.Assert(err == nil, "setup-addtable")
	return c
}

// vKey is a primary key value; s is ignored on hash-only tables.
type vKey struct{ p, s string }

func (k vKey) eq(o vKey, withRange bool) bool {
	if withRange {
		return k.p == o.p && k.s == o.s
	}
	return k.p == o.p
}

func (k vKey) item(withRange bool) vItem {
	it := vItem{"p": vS(k.p)}
	if withRange {
		it["s"] = vS(k.s)
	}
	return it
}

func vNewKey(name string, cap int, withRange bool) vKey {
	k := vKey{p: vKeyStr(name+".p", cap)}
	if withRange {
		k.s = vKeyStr(name+".s", cap)
	}
	return k
}

// vRow is an entry of the reference model: a key plus S-typed attributes.
type vRow struct {
	k     vKey
	attrs map[string]string
}

// vModel is the reference: an association list from key to attributes (a sequential map).
type vModel struct {
	withRange bool
	rows      []vRow
}

func (m *vModel) find(k vKey) int {
	for i := range m.rows {
		if m.rows[i].k.eq(k, m.withRange) {
			return i
		}
	}
	return -1
}

func (m *vModel) get(k vKey) (map[string]string, bool) {
	if i := m.find(k); i >= 0 {
		return m.rows[i].attrs, true
	}
	return nil, false
}

func (m *vModel) put(k vKey, attrs map[string]string) {
	cp := map[string]string{}
	for a, v := range attrs {
		cp[a] = v
	}
	if i := m.find(k); i >= 0 {
		m.rows[i].attrs = cp
		return
	}
	m.rows = append(m.rows, vRow{k: k, attrs: cp})
}

func (m *vModel) del(k vKey) {
	if i := m.find(k); i >= 0 {
		m.rows = append(m.rows[:i:i], m.rows[i+1:]...)
	}
}

// vFull renders a model row as the item the API must return.
func (m *vModel) full(k vKey, attrs map[string]string) vItem {
	it := k.item(m.withRange)
	for a, v := range attrs {
		it[a] = vS(v)
	}
	return it
}

// vSameItem: same attribute names, all S-typed, same values.
func vSameItem(got, want vItem) bool {
	if len(got) != len(want) {
		return false
	}
	for a, w := range want {
		gs, ok := vGetS(got, a)
		ws, _ := vGetS(vItem{a: w}, a)
		if !ok || gs != ws {
			return false
		}
	}
	return true
}

func vPut(c *Client, it vItem) error {
	_, err := c.PutItem(vCtx, &dynamodb.PutItemInput{TableName: aws.String(vTbl), Item: it})
	return err
}

func vGet(c *Client, key vItem) (vItem, error) {
	out, err := c.GetItem(vCtx, &dynamodb.GetItemInput{TableName: aws.String(vTbl), Key: key})
	if err != nil {
		return nil, err
	}
	return out.Item, nil
}

// vErrCode classifies an error returned by the client: "" for nil, the API error code otherwise.
func vErrCode(err error) string {
	if err == nil {
		return ""
	}
	var ae smithy.APIError
	if errors.As(err, &ae) {
		return ae.ErrorCode()
	}
	// errors of the core package carry their class in Code()
	var ce interface{ Code() string }
	if errors.As(err, &ce) {
		return ce.Code()
	}
	return "other"
}

// vCatch runs f and reports a panic raised by the library (its documented way of surfacing
// expression errors from Query/Scan/conditions) as an error value.
func vCatch(f func() error) (err error, panicked bool) {
	defer func() {
		if r := recover(); r != nil {
			panicked = true
			if e, ok := r.(error); ok {
				err = e
			} else {
				err = errors.New("panic")
			}
		}
	}()
	return f(), false
}

// vInvariant: representation invariant of the base table as seen through the catalogue:
// SortedKeys strictly increasing and exactly the key set of Data.
func vInvariant(c *Client, id string) {
	t := c.tables[vTbl]
	nd.Assert(len(t.SortedKeys) == len(t.Data), id+"-sortedkeys-size")
	for i := range t.SortedKeys {
		_, ok := t.Data[t.SortedKeys[i]]
		nd.Assert(ok, id+"-sortedkeys-in-data")
		if i > 0 {
			nd.Assert(t.SortedKeys[i-1] < t.SortedKeys[i], id+"-sortedkeys-sorted")
		}
	}
}

//go:build verif

package client

import (
	"github.com/aws/aws-sdk-go-v2/aws"
	"github.com/aws/aws-sdk-go-v2/service/dynamodb"
	"github.com/aws/aws-sdk-go-v2/service/dynamodb/types"
	"github.com/truora/minidyn/internal/nd"
)

func vN(s string) types.AttributeValue { return &types.AttributeValueMemberN{Value: s} }

// vObserve: everything a reader can see of table "tbl": base scan, index scan, item and index counts.
type vObservation struct {
	base, index   []vItem
	items, idxCnt int64
}

func vObserveAll(c *Client) vObservation {
	var o vObservation
	b, err := c.Scan(vCtx, &dynamodb.ScanInput{TableName: aws.String(vTbl)})
	nd.Assert(err == nil, "observe-scan")
	if err == nil {
		o.base = b.Items
	}
	i, err := c.Scan(vCtx, &dynamodb.ScanInput{TableName: aws.String(vTbl), IndexName: aws.String(vIdx)})
	nd.Assert(err == nil, "observe-index-scan")
	if err == nil {
		o.index = i.Items
	}
	if c.tables[vTbl].HasIndex("idx2") {
		i2, err := c.Scan(vCtx, &dynamodb.ScanInput{TableName: aws.String(vTbl), IndexName: aws.String("idx2")})
		nd.Assert(err == nil, "observe-index2-scan")
		if err == nil {
			o.index = append(o.index, i2.Items...)
		}
	}
	d, err := c.DescribeTable(vCtx, &dynamodb.DescribeTableInput{TableName: aws.String(vTbl)})
	nd.Assert(err == nil, "observe-describe")
	if err == nil {
		o.items = aws.ToInt64(d.Table.ItemCount)
		for _, g := range d.Table.GlobalSecondaryIndexes {
			o.idxCnt += aws.ToInt64(g.ItemCount)
		}
	}
	return o
}

func vSameAttrValue(a, b types.AttributeValue) bool {
	switch x := a.(type) {
	case *types.AttributeValueMemberS:
		y, ok := b.(*types.AttributeValueMemberS)
		return ok && x.Value == y.Value
	case *types.AttributeValueMemberN:
		y, ok := b.(*types.AttributeValueMemberN)
		return ok && x.Value == y.Value
	}
	return false
}

func vSameRaw(a, b []vItem) bool {
	if len(a) != len(b) {
		return false
	}
	for i := range a {
		if len(a[i]) != len(b[i]) {
			return false
		}
		for k, v := range a[i] {
			w, ok := b[i][k]
			if !ok || !vSameAttrValue(v, w) {
				return false
			}
		}
	}
	return true
}

func (o vObservation) same(p vObservation) bool {
	return o.items == p.items && o.idxCnt == p.idxCnt && vSameRaw(o.base, p.base) && vSameRaw(o.index, p.index)
}

// VerifC08NoTrace: a data request that returns an error (or aborts with the library's panic) leaves
// every table and index exactly as it was.
func VerifC08NoTrace() {
	n := nd.Param("n", 1)
	c := vClient(false)
	// optionally the table holds, from before its indexes existed, an item whose g is a number: it belongs to
	// the table and to no index on g; requests aimed at it (| } ~) must obey the rule like any other
	unfit := nd.Param("reads", 1) == 1 && nd.Choice("unfit-item-first", 2) == 1
	if unfit {
		nd.Assert(vPut(c, vItem{"p": vS("uu"), "g": vN("1"), "v": vS("x")}) == nil, "setup-put-unfit")
	}
	nd.Assert(AddIndex(vCtx, c, vTbl, vIdx, "g", "") == nil, "setup-addindex")
	// a second index: a write is all-or-nothing across *all* indexes, whichever of them rejects the item
	two := nd.Param("indexes", 1) >= 2
	bad := "g" // the index key attribute that the failing requests c and d supply with the wrong type
	if two {
		nd.Assert(AddIndex(vCtx, c, vTbl, "idx2", "g2", "") == nil, "setup-addindex2")
		if nd.Choice("ill-typed-index-key", 2) == 1 {
			bad = "g2"
		}
	}
	for i := 0; i < n; i++ {
		nm := "k" + string(rune('0'+i))
		it := vItem{"p": vS(nd.StringN(nm+".p", 1)), "v": vS(nd.StringN(nm+".v", 1))}
		if nd.Choice(nm+".hasg", 2) == 1 {
			it["g"] = vS(nd.StringN(nm+".g", 1))
		}
		// t: an attribute on which the filter of the failing reads (w, x, y) cannot be evaluated when it is a number
		if nd.Param("reads", 1) == 1 {
			if nd.Choice(nm+".t-is-number", 2) == 1 {
				it["t"] = vN("1")
			} else {
				it["t"] = vS("t")
			}
		}
		nd.Assert(vPut(c, it) == nil, "setup-put")
	}
	before := vObserveAll(c)
	retVals := []types.ReturnValue{types.ReturnValueNone, types.ReturnValueAllOld, types.ReturnValueUpdatedOld, types.ReturnValueAllNew, types.ReturnValueUpdatedNew, types.ReturnValue("BOGUS")}
	kp := nd.StringN("op.p", 1) // the request's key: may name a stored item or not
	x := nd.StringN("op.x", 1)
	tbl := aws.String(vTbl)
	var err error
	var panicked bool
	reqs := []func() error{
		func() error { // 0: key attribute missing
			_, e := c.PutItem(vCtx, &dynamodb.PutItemInput{TableName: tbl, Item: vItem{"v": vS(x)}})
			return e
		},
		func() error { // 1: key attribute of the wrong type
			_, e := c.PutItem(vCtx, &dynamodb.PutItemInput{TableName: tbl, Item: vItem{"p": vN("1"), "v": vS(x)}})
			return e
		},
		func() error { // 2: index key attribute of the wrong type, on Put
			_, e := c.PutItem(vCtx, &dynamodb.PutItemInput{TableName: tbl, Item: vItem{"p": vS(kp), "v": vS(x), bad: vN("1")}})
			return e
		},
		func() error { // 3: index key attribute of the wrong type, on Update
			_, e := c.UpdateItem(vCtx, &dynamodb.UpdateItemInput{TableName: tbl, Key: vItem{"p": vS(kp)},
				UpdateExpression: aws.String("SET " + bad + " = :n, v = :x"), ExpressionAttributeValues: vItem{":n": vN("1"), ":x": vS(x)}})
			return e
		},
		func() error { // 4: malformed update expression
			_, e := c.UpdateItem(vCtx, &dynamodb.UpdateItemInput{TableName: tbl, Key: vItem{"p": vS(kp)},
				UpdateExpression: aws.String("SET v = :x,"), ExpressionAttributeValues: vItem{":x": vS(x)}})
			return e
		},
		func() error { // 5: ill-typed update: the second action fails after the first was evaluated
			_, e := c.UpdateItem(vCtx, &dynamodb.UpdateItemInput{TableName: tbl, Key: vItem{"p": vS(kp)},
				UpdateExpression: aws.String("SET w = :x ADD v :x"), ExpressionAttributeValues: vItem{":x": vS(x)}})
			return e
		},
		func() error { // 6: unknown table
			_, e := c.PutItem(vCtx, &dynamodb.PutItemInput{TableName: aws.String("nope"), Item: vItem{"p": vS(kp), "v": vS(x)}})
			return e
		},
		func() error { // 7: false condition on Put
			_, e := c.PutItem(vCtx, &dynamodb.PutItemInput{TableName: tbl, Item: vItem{"p": vS(kp), "v": vS(x)},
				ConditionExpression: aws.String("attribute_exists(nosuch)")})
			return e
		},
		func() error { // 8: false condition on Update
			_, e := c.UpdateItem(vCtx, &dynamodb.UpdateItemInput{TableName: tbl, Key: vItem{"p": vS(kp)},
				UpdateExpression: aws.String("SET v = :x"), ConditionExpression: aws.String("attribute_exists(nosuch)"), ExpressionAttributeValues: vItem{":x": vS(x)}})
			return e
		},
		func() error { // 9: false condition on Delete
			_, e := c.DeleteItem(vCtx, &dynamodb.DeleteItemInput{TableName: tbl, Key: vItem{"p": vS(kp)},
				ConditionExpression: aws.String("attribute_exists(nosuch)")})
			return e
		},
		func() error { // 10: unused placeholder
			_, e := c.PutItem(vCtx, &dynamodb.PutItemInput{TableName: tbl, Item: vItem{"p": vS(kp), "v": vS(x)},
				ConditionExpression: aws.String("attribute_not_exists(nosuch)"), ExpressionAttributeValues: vItem{":unused": vS(x)}})
			return e
		},
		func() error { // 11: malformed condition on Put (surfaces as error or as the library's panic)
			_, e := c.PutItem(vCtx, &dynamodb.PutItemInput{TableName: tbl, Item: vItem{"p": vS(kp), "v": vS(x)},
				ConditionExpression: aws.String("v = = :x"), ExpressionAttributeValues: vItem{":x": vS(x)}})
			return e
		},
		func() error { // 12: delete with a key of the wrong type
			_, e := c.DeleteItem(vCtx, &dynamodb.DeleteItemInput{TableName: tbl, Key: vItem{"p": vN("1")}})
			return e
		},
		func() error { // 13: update that assigns through a scalar
			_, e := c.UpdateItem(vCtx, &dynamodb.UpdateItemInput{TableName: tbl, Key: vItem{"p": vS(kp)},
				UpdateExpression: aws.String("SET v.k = :x"), ExpressionAttributeValues: vItem{":x": vS(x)}})
			return e
		},
		func() error { // 14: update that removes the key attribute, after a valid first action
			_, e := c.UpdateItem(vCtx, &dynamodb.UpdateItemInput{TableName: tbl, Key: vItem{"p": vS(kp)},
				UpdateExpression: aws.String("SET v = :x REMOVE p"), ExpressionAttributeValues: vItem{":x": vS(x)}})
			return e
		},
		func() error { // 15: update that retypes the key attribute
			_, e := c.UpdateItem(vCtx, &dynamodb.UpdateItemInput{TableName: tbl, Key: vItem{"p": vS(kp)},
				UpdateExpression: aws.String("SET v = :x, p = :n"), ExpressionAttributeValues: vItem{":x": vS(x), ":n": vN("1")}})
			return e
		},
		func() error { // 16: batch whose second request is neither a put nor a delete
			_, e := c.BatchWriteItem(vCtx, &dynamodb.BatchWriteItemInput{RequestItems: map[string][]types.WriteRequest{vTbl: {
				{PutRequest: &types.PutRequest{Item: vItem{"p": vS(kp), "v": vS(x)}}}, {}}}})
			return e
		},
		func() error { // 17: batch whose second request is both a put and a delete
			_, e := c.BatchWriteItem(vCtx, &dynamodb.BatchWriteItemInput{RequestItems: map[string][]types.WriteRequest{vTbl: {
				{DeleteRequest: &types.DeleteRequest{Key: vItem{"p": vS(kp)}}},
				{PutRequest: &types.PutRequest{Item: vItem{"p": vS("zz")}}, DeleteRequest: &types.DeleteRequest{Key: vItem{"p": vS("zz")}}}}}})
			return e
		},
		func() error { // 18: a true condition, then an update that fails in its second action
			_, e := c.UpdateItem(vCtx, &dynamodb.UpdateItemInput{TableName: tbl, Key: vItem{"p": vS(kp)},
				UpdateExpression: aws.String("SET w = :x ADD v :x"), ConditionExpression: aws.String("attribute_not_exists(nosuch)"), ExpressionAttributeValues: vItem{":x": vS(x)}})
			return e
		},
		func() error { // 19 (t): DeleteItem with any ReturnValues setting, valid for the operation or not
			_, e := c.DeleteItem(vCtx, &dynamodb.DeleteItemInput{TableName: tbl, Key: vItem{"p": vS(kp)}, ReturnValues: retVals[nd.Choice("retvals", len(retVals))]})
			return e
		},
		func() error { // 20 (u): PutItem with any ReturnValues setting
			_, e := c.PutItem(vCtx, &dynamodb.PutItemInput{TableName: tbl, Item: vItem{"p": vS(kp), "v": vS(x)}, ReturnValues: retVals[nd.Choice("retvals", len(retVals))]})
			return e
		},
		func() error { // 21 (v): UpdateItem with any ReturnValues setting
			_, e := c.UpdateItem(vCtx, &dynamodb.UpdateItemInput{TableName: tbl, Key: vItem{"p": vS(kp)}, ReturnValues: retVals[nd.Choice("retvals", len(retVals))],
				UpdateExpression: aws.String("SET v = :x"), ExpressionAttributeValues: vItem{":x": vS(x)}})
			return e
		},
		func() error { // 22 (w): Query whose filter cannot be evaluated on an item it visits (t is a number), either direction
			_, e := c.Query(vCtx, &dynamodb.QueryInput{TableName: tbl, KeyConditionExpression: aws.String("p = :p"), FilterExpression: aws.String("begins_with(t, :x)"),
				ExpressionAttributeValues: vItem{":p": vS(kp), ":x": vS(x)}, ScanIndexForward: aws.Bool(nd.Choice("forward", 2) == 1)})
			return e
		},
		func() error { // 23 (x): Scan of the table or of the index with such a filter
			in := &dynamodb.ScanInput{TableName: tbl, FilterExpression: aws.String("begins_with(t, :x)"), ExpressionAttributeValues: vItem{":x": vS(x)}}
			if nd.Choice("through-index", 2) == 1 {
				in.IndexName = aws.String(vIdx)
			}
			_, e := c.Scan(vCtx, in)
			return e
		},
		func() error { // 24 (y): Query through the index with such a filter, either direction
			_, e := c.Query(vCtx, &dynamodb.QueryInput{TableName: tbl, IndexName: aws.String(vIdx), KeyConditionExpression: aws.String("g = :g"), FilterExpression: aws.String("begins_with(t, :x)"),
				ExpressionAttributeValues: vItem{":g": vS(kp), ":x": vS(x)}, ScanIndexForward: aws.Bool(nd.Choice("forward", 2) == 1)})
			return e
		},
		func() error { // 25 (z): Query whose key condition names a non-key attribute, with a Limit
			_, e := c.Query(vCtx, &dynamodb.QueryInput{TableName: tbl, KeyConditionExpression: aws.String("v = :x"), ExpressionAttributeValues: vItem{":x": vS(x)},
				ScanIndexForward: aws.Bool(false), Limit: aws.Int32(1)})
			return e
		},
		func() error { // 26 ({): GetItem with an ill-typed key
			_, e := c.GetItem(vCtx, &dynamodb.GetItemInput{TableName: tbl, Key: vItem{"p": vN("1")}})
			return e
		},
		func() error { // 27 (|): DeleteItem of the item that fits no index
			_, e := c.DeleteItem(vCtx, &dynamodb.DeleteItemInput{TableName: tbl, Key: vItem{"p": vS("uu")}, ReturnValues: retVals[nd.Choice("retvals", 2)]})
			return e
		},
		func() error { // 28 (}): UpdateItem of another attribute of that item
			_, e := c.UpdateItem(vCtx, &dynamodb.UpdateItemInput{TableName: tbl, Key: vItem{"p": vS("uu")},
				UpdateExpression: aws.String("SET v = :x"), ExpressionAttributeValues: vItem{":x": vS(x)}})
			return e
		},
		func() error { // 29 (~): PutItem that replaces it by an item that fits
			_, e := c.PutItem(vCtx, &dynamodb.PutItemInput{TableName: tbl, Item: vItem{"p": vS("uu"), "g": vS(x), "v": vS(x)}})
			return e
		},
	}
	nreq := len(reqs)
	if nd.Param("reads", 1) == 0 {
		nreq = 19
	} else if !unfit {
		nreq = 27
	}
	which := nd.Choice("request", nreq)
	err, panicked = vCatch(reqs[which])
	if err != nil || panicked {
		nd.Reach("failed")
		if which >= 22 && which <= 24 {
			nd.Reach("failed-read")
		}
		after := vObserveAll(c)
		nd.Assert(before.same(after), "C08-failed-request-leaves-no-trace [request "+string(rune('a'+which))+"]")
		vInvariant(c, "C08")
	} else {
		nd.Reach("succeeded")
	}
	nd.Reach("end")
}

// VerifC08LocalIndex: the all-or-nothing rule on a table (p, s) with a local secondary index (p, g), a
// global one (h) and, optionally, a second global one: a write whose index key attribute has the wrong type
// for any of the three, or is an empty string, either succeeds or fails without a trace in the table and
// in every index.
func VerifC08LocalIndex() {
	c := NewClient()
	in := generateAddTableInput(vTbl, "p", "s")
	in.AttributeDefinitions = append(in.AttributeDefinitions,
		types.AttributeDefinition{AttributeName: aws.String("g"), AttributeType: types.ScalarAttributeTypeS},
		types.AttributeDefinition{AttributeName: aws.String("h"), AttributeType: types.ScalarAttributeTypeS})
	in.LocalSecondaryIndexes = []types.LocalSecondaryIndex{{IndexName: aws.String("lsi"),
		KeySchema:  []types.KeySchemaElement{{AttributeName: aws.String("p"), KeyType: types.KeyTypeHash}, {AttributeName: aws.String("g"), KeyType: types.KeyTypeRange}},
		Projection: &types.Projection{ProjectionType: types.ProjectionTypeAll}}}
	in.GlobalSecondaryIndexes = []types.GlobalSecondaryIndex{{IndexName: aws.String("gsi"),
		KeySchema:  []types.KeySchemaElement{{AttributeName: aws.String("h"), KeyType: types.KeyTypeHash}},
		Projection: &types.Projection{ProjectionType: types.ProjectionTypeAll}}}
	_, err := c.CreateTable(vCtx, in)
	nd.Assert(err == nil, "setup-createtable")
	nd.Assert(vPut(c, vItem{"p": vS("k"), "s": vS("r"), "g": vS("a"), "h": vS("b"), "v": vS("x")}) == nil, "setup-put")
	observe := func() string {
		out := ""
		for _, idx := range []string{"", "lsi", "gsi"} {
			sin := &dynamodb.ScanInput{TableName: aws.String(vTbl)}
			if idx != "" {
				sin.IndexName = aws.String(idx)
			}
			o, serr := c.Scan(vCtx, sin)
			nd.Assert(serr == nil, "observe-scan")
			if serr != nil {
				continue
			}
			out += "|" + idx + ":" + nd.Itoa(int64(len(o.Items)))
			for _, it := range o.Items {
				out += "{"
				for _, a := range []string{"p", "s", "g", "h", "v"} {
					switch x := it[a].(type) {
					case *types.AttributeValueMemberS:
						out += a + "=S" + x.Value + ";"
					case *types.AttributeValueMemberN:
						out += a + "=N" + x.Value + ";"
					}
				}
				out += "#" + nd.Itoa(int64(len(it))) + "}"
			}
		}
		return out
	}
	before := observe()
	bad := []string{"g", "h"}[nd.Choice("index-key", 2)]
	var badVal types.AttributeValue = vN("1")
	if nd.Choice("empty-string-instead", 2) == 1 {
		badVal = vS("")
	}
	existing := nd.Choice("existing-item", 2) == 1
	s := "r"
	if !existing {
		s = "new"
	}
	var werr error
	var panicked bool
	if nd.Choice("write", 2) == 0 {
		it := vItem{"p": vS("k"), "s": vS(s), "g": vS("a2"), "h": vS("b2"), "v": vS("y")}
		it[bad] = badVal
		werr, panicked = vCatch(func() error { return vPut(c, it) })
	} else {
		werr, panicked = vCatch(func() error {
			_, e := c.UpdateItem(vCtx, &dynamodb.UpdateItemInput{TableName: aws.String(vTbl), Key: vItem{"p": vS("k"), "s": vS(s)},
				UpdateExpression: aws.String("SET v = :y, " + bad + " = :bad"), ExpressionAttributeValues: vItem{":y": vS("y"), ":bad": badVal}})
			return e
		})
	}
	if werr != nil || panicked {
		nd.Reach("failed")
		nd.Assert(before == observe(), "C08-failed-write-leaves-no-trace-in-table-lsi-gsi ["+bad+"]")
	} else {
		nd.Reach("succeeded")
	}
	vInvariant(c, "C08-lsi")
	nd.Reach("end")
}

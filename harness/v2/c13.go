//go:build verif

package client

import (
	"strconv"

	"github.com/aws/aws-sdk-go-v2/aws"
	"github.com/aws/aws-sdk-go-v2/service/dynamodb"
	"github.com/aws/aws-sdk-go-v2/service/dynamodb/types"
	"github.com/truora/minidyn/internal/nd"
)

// VerifC13API: through the client, two items are the same item iff their key attribute values are equal
// (any bytes, including the separator the implementation uses internally); a key that lacks a key
// attribute or carries it with another type is rejected with a validation error and changes nothing; an
// update cannot change the key attributes of the stored item.
func VerifC13API() {
	cap := nd.Param("cap", 2)
	c := vClient(true)
	k1, k2 := vNewKey("k1", cap, true), vNewKey("k2", cap, true)
	v1, v2 := nd.StringN("v1", 1), nd.StringN("v2", 1)
	it1, it2 := k1.item(true), k2.item(true)
	it1["v"], it2["v"] = vS(v1), vS(v2)
	nd.Assert(vPut(c, it1) == nil && vPut(c, it2) == nil, "C13-put-noerr")
	got1, err := vGet(c, k1.item(true))
	nd.Assert(err == nil, "C13-get-noerr")
	gv, ok := vGetS(got1, "v")
	if k1.eq(k2, true) {
		nd.Reach("same-key")
		nd.Assert(ok && gv == v2, "C13-same-key-same-item")
	} else {
		nd.Reach("distinct-keys")
		nd.Assert(ok && gv == v1, "C13-distinct-keys-never-collide")
		gp, _ := vGetS(got1, "p")
		gs, _ := vGetS(got1, "s")
		nd.Assert(gp == k1.p && gs == k1.s, "C13-stored-key-attributes-equal-the-key")
	}
	// the malformed keys below are also tried on a table that has just been emptied (by ClearTable, or by deleting
	// its items one by one): validation does not depend on what the table holds
	emptied := nd.Choice("table-state", 3)
	switch emptied {
	case 1:
		nd.Assert(ClearTable(c, vTbl) == nil, "C13-clear-noerr")
	case 2:
		for _, k := range []vKey{k1, k2} {
			_, derr := c.DeleteItem(vCtx, &dynamodb.DeleteItemInput{TableName: aws.String(vTbl), Key: k.item(true)})
			nd.Assert(derr == nil, "C13-delete-noerr")
		}
	}
	before := vScanAll(c)
	nd.Assert(emptied == 0 || len(before) == 0, "C13-table-emptied")

	// malformed keys are rejected and change nothing
	bad := []vItem{
		{"p": vS(k1.p)},               // range key missing
		{"s": vS(k1.s)},               // hash key missing
		{"p": vN("1"), "s": vS(k1.s)}, // hash key of another type
		{"p": vS(k1.p), "s": &types.AttributeValueMemberBOOL{Value: true}}, // range key of another type
		{"p": vS(k1.p), "s": &types.AttributeValueMemberNULL{Value: true}},
	}
	bk := bad[nd.Choice("badkey", len(bad))]
	var berr error
	switch nd.Choice("badop", 4) {
	case 0:
		_, berr = vGet(c, bk)
	case 1:
		bi := vItem{"v": vS("x")}
		for a, x := range bk {
			bi[a] = x
		}
		berr = vPut(c, bi)
	case 2:
		_, berr = c.UpdateItem(vCtx, &dynamodb.UpdateItemInput{TableName: aws.String(vTbl), Key: bk,
			UpdateExpression: aws.String("SET v = :x"), ExpressionAttributeValues: vItem{":x": vS("x")}})
	case 3:
		_, berr = c.DeleteItem(vCtx, &dynamodb.DeleteItemInput{TableName: aws.String(vTbl), Key: bk})
	}
	nd.Assert(vErrCode(berr) == "ValidationException", "C13-malformed-key-is-a-validation-error")
	nd.Assert(vSameItems(before, vScanAll(c)), "C13-malformed-key-changes-nothing")
	if emptied != 0 {
		nd.Reach("malformed-key-on-empty-table")
		nd.Reach("end")
		return
	}

	// an update that names a key attribute cannot change the stored item's key
	x := vKeyStr("x", cap)
	exprs := []string{"SET p = :x", "SET s = :x", "SET v = :x, s = :x", "REMOVE s", "REMOVE p", "SET s = :n", "SET p = :n", "SET v = :x, p = :n"}
	ue := exprs[nd.Choice("keyupdate", len(exprs))]
	in := &dynamodb.UpdateItemInput{TableName: aws.String(vTbl), Key: k1.item(true), UpdateExpression: aws.String(ue)}
	sameType := true // the new key value has the key attribute's declared type
	if ue[0] == 'S' {
		in.ExpressionAttributeValues = vItem{}
		for i := 0; i+1 < len(ue); i++ {
			if ue[i] == ':' && ue[i+1] == 'x' {
				in.ExpressionAttributeValues[":x"] = vS(x)
			}
			if ue[i] == ':' && ue[i+1] == 'n' {
				in.ExpressionAttributeValues[":n"] = vN("7")
				sameType = false
			}
		}
	}
	_, uerr := c.UpdateItem(vCtx, in)
	after, gerr := vGet(c, k1.item(true))
	if nd.Known("C13-update-sets-key-attribute") && ue[0] == 'S' && sameType {
		// known finding (core's TestUpdate pins it): an update that SETs a key attribute rewrites it in the
		// stored item, which stays retrievable under the old key; REMOVE of a key attribute is still checked
		nd.Reach("end")
		return
	}
	nd.Assert(gerr == nil && len(after) > 0, "C13-item-still-retrievable-under-its-key ["+ue+"]")
	ap, _ := vGetS(after, "p")
	as, _ := vGetS(after, "s")
	nd.Assert(ap == k1.p && as == k1.s, "C13-update-cannot-change-key-attributes ["+ue+"]")
	if uerr != nil {
		nd.Reach("key-update-rejected")
		nd.Assert(vSameItems(before, vScanAll(c)), "C13-rejected-key-update-changes-nothing")
	}
	nd.Reach("end")
}

// VerifC13NumericKeys: a number-typed key of any magnitude and notation identifies its item before and
// after updates: the stored key attribute keeps the value the item is found under (an update must not
// rewrite it), and the same number in another notation addresses the same item.
func VerifC13NumericKeys() {
	c := NewClient()
	in := generateAddTableInput(vTbl, "p", "")
	in.AttributeDefinitions[0].AttributeType = types.ScalarAttributeTypeN
	_, err := c.CreateTable(vCtx, in)
	nd.Assert(err == nil, "setup-createtable")
	groups := [][]string{{"1e19", "10000000000000000000"}, {"-1e30", "-1000000000000000000000000000000"}, {"9223372036854775808", "9.223372036854775808e18"},
		{"0.5", "5e-1"}, {"-7", "-7.0"}, {"1e-10", "0.0000000001"}, {"10000000000000000", "1e16"}, {"2.5e10", "25000000000"}}
	g := groups[nd.Choice("number", len(groups))]
	w := nd.Choice("written-as", 2)
	nd.Assert(vPut(c, vItem{"p": vN(g[w]), "v": vS("x")}) == nil, "C13-numeric-put-noerr")
	sameNumber := func(av types.AttributeValue) bool {
		n, ok := av.(*types.AttributeValueMemberN)
		if !ok {
			return false
		}
		got, e1 := strconv.ParseFloat(n.Value, 64)
		want, e2 := strconv.ParseFloat(g[0], 64)
		return e1 == nil && e2 == nil && got == want
	}
	for round := 0; round < 2; round++ {
		got, gerr := vGet(c, vItem{"p": vN(g[1-w])})
		nd.Assert(gerr == nil && len(got) > 0, "C13-numeric-key-found-under-the-other-notation")
		if len(got) > 0 {
			nd.Assert(sameNumber(got["p"]), "C13-stored-key-attribute-keeps-its-value")
		}
		// an update of another attribute - plain, or one that copies the key attribute and then computes on the copy
		ue, uv := "SET v = :x", vItem{":x": vS("y")}
		switch nd.Choice("update", 3) {
		case 1:
			ue, uv = "SET nx = p ADD nx :one", vItem{":one": vN("1")}
		case 2:
			ue, uv = "SET nx = p + :one, ny = :one - p", vItem{":one": vN("1")}
		}
		_, uerr := c.UpdateItem(vCtx, &dynamodb.UpdateItemInput{TableName: aws.String(vTbl), Key: vItem{"p": vN(g[w])},
			UpdateExpression: aws.String(ue), ExpressionAttributeValues: uv})
		nd.Assert(uerr == nil, "C13-numeric-update-noerr ["+ue+"]")
	}
	all := vScanAll(c)
	nd.Assert(len(all) == 1 && sameNumber(all[0]["p"]), "C13-one-item-whose-key-attribute-is-the-key")
	nd.Reach("end")
}

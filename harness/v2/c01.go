//go:build verif

package client

import (
	"github.com/aws/aws-sdk-go-v2/aws"
	"github.com/aws/aws-sdk-go-v2/service/dynamodb"
	"github.com/aws/aws-sdk-go-v2/service/dynamodb/types"
	"github.com/truora/minidyn/internal/nd"
	"github.com/truora/minidyn/internal/vspec"
)

// vC01Battery: GetItem of every key in universe equals the model; ItemCount equals the model size.
func vC01Battery(c *Client, m *vModel, universe []vKey, id string) {
	for _, k := range universe {
		got, err := vGet(c, k.item(m.withRange))
		nd.Assert(err == nil, id+"-get-noerr")
		attrs, ok := m.get(k)
		if !ok {
			nd.Assert(len(got) == 0, id+"-get-absent")
		} else {
			nd.Assert(vSameItem(got, m.full(k, attrs)), id+"-get-last-write")
		}
	}
	d, err := c.DescribeTable(vCtx, &dynamodb.DescribeTableInput{TableName: aws.String(vTbl)})
	nd.Assert(err == nil && d.Table != nil && d.Table.ItemCount != nil && int(*d.Table.ItemCount) == len(m.rows), id+"-itemcount")
	vInvariant(c, id)
}

// VerifC01Step: canonical state of N items (built with PutItem) followed by one arbitrary single-item
// operation; every GetItem afterwards and the operation's own return value follow the sequential map.
func VerifC01Step() {
	n := nd.Param("n", 2)
	cap := nd.Param("cap", 2)
	withRange := nd.Choice("schema", 2) == 1
	c := vClient(withRange)
	// a secondary index on the attribute w: it changes nothing the map semantics says, and it gives UpdateItem a
	// second way of being refused after its expression has been applied (an ill-typed index key)
	withIndex := nd.Param("index", 1) == 1
	if withIndex {
		nd.Assert(AddIndex(vCtx, c, vTbl, vIdx, "w", "") == nil, "C01-setup-addindex")
	}
	m := &vModel{withRange: withRange}
	var universe []vKey
	for i := 0; i < n; i++ {
		nm := "k" + string(rune('0'+i))
		k := vNewKey(nm, cap, withRange)
		attrs := map[string]string{"v": nd.StringN(nm+".v", 1)}
		if nd.Choice(nm+".extra", 2) == 1 {
			attrs["w"] = nd.StringN(nm+".w", 1)
		}
		nd.Assert(vPut(c, m.full(k, attrs)) == nil, "C01-setup-put")
		m.put(k, attrs)
		universe = append(universe, k)
	}
	vC01Battery(c, m, universe, "C01-canon")

	k := vNewKey("op", cap, withRange)
	universe = append(universe, k)
	x := nd.StringN("op.x", 1)
	old, existed := m.get(k)
	switch nd.Choice("op", 8) {
	case 0: // PutItem replaces the whole item (attributes not mentioned disappear)
		nd.Reach("put")
		nd.Assert(vPut(c, m.full(k, map[string]string{"v": x})) == nil, "C01-put-noerr")
		m.put(k, map[string]string{"v": x})
	case 1, 2: // UpdateItem SET v / SET w: upsert; other attributes stay
		attr := "v"
		if nd.Choice("op.attr", 2) == 1 {
			attr = "w"
		}
		nd.Reach("update")
		uin := &dynamodb.UpdateItemInput{TableName: aws.String(vTbl), Key: k.item(withRange),
			UpdateExpression: aws.String("SET " + attr + " = :x"), ExpressionAttributeValues: vItem{":x": vS(x)},
			ReturnValues: types.ReturnValueAllNew}
		if nd.Choice("op.via-name", 2) == 1 {
			uin.UpdateExpression, uin.ExpressionAttributeNames = aws.String("SET #a = :x"), map[string]string{"#a": attr}
		}
		out, err := c.UpdateItem(vCtx, uin)
		nd.Assert(err == nil, "C01-update-noerr")
		na := map[string]string{}
		if existed {
			for a, v := range old {
				na[a] = v
			}
		} else {
			nd.Reach("update-creates")
		}
		na[attr] = x
		m.put(k, na)
		if err == nil {
			nd.Assert(vSameItem(out.Attributes, m.full(k, na)), "C01-update-returns-new-item")
		}
	case 3, 4: // DeleteItem, with and without ALL_OLD
		allOld := nd.Choice("op.allold", 2) == 1
		in := &dynamodb.DeleteItemInput{TableName: aws.String(vTbl), Key: k.item(withRange)}
		if allOld {
			in.ReturnValues = types.ReturnValueAllOld
		}
		nd.Reach("delete")
		out, err := c.DeleteItem(vCtx, in)
		nd.Assert(err == nil, "C01-delete-noerr")
		if err == nil {
			if allOld && existed {
				nd.Assert(vSameItem(out.Attributes, m.full(k, old)), "C01-delete-returns-old-item")
			} else {
				nd.Assert(len(out.Attributes) == 0, "C01-delete-returns-nothing")
			}
		}
		if !existed {
			nd.Reach("delete-absent")
		}
		m.del(k)
	case 5: // GetItem changes nothing
		nd.Reach("get")
	case 6: // an UpdateItem that is rejected after its expression was evaluated is not a successful write
		nd.Reach("rejected-update")
		expr := "SET v = :x REMOVE p"
		if withRange {
			expr = "SET v = :x REMOVE s"
		}
		vals := vItem{":x": vS(x)}
		if withIndex && nd.Choice("op.refused-for-index-key", 2) == 1 {
			expr, vals = "SET v = :x, w = :n", vItem{":x": vS(x), ":n": vN("1")}
		}
		_, err := c.UpdateItem(vCtx, &dynamodb.UpdateItemInput{TableName: aws.String(vTbl), Key: k.item(withRange),
			UpdateExpression: aws.String(expr), ExpressionAttributeValues: vals})
		nd.Assert(err != nil, "C01-update-removing-a-key-attribute-is-rejected")
	case 7: // an UpdateItem that adds nothing still upserts: REMOVE of an attribute the item may not have
		nd.Reach("update-remove")
		// the attribute is named directly or through a #name placeholder (what a reserved word would need)
		rin := &dynamodb.UpdateItemInput{TableName: aws.String(vTbl), Key: k.item(withRange),
			UpdateExpression: aws.String("REMOVE w"), ReturnValues: types.ReturnValueAllNew}
		if nd.Choice("op.via-name", 2) == 1 {
			rin.UpdateExpression, rin.ExpressionAttributeNames = aws.String("REMOVE #r"), map[string]string{"#r": "w"}
		}
		out, err := c.UpdateItem(vCtx, rin)
		nd.Assert(err == nil, "C01-update-remove-noerr")
		na := map[string]string{}
		if existed {
			for a, v := range old {
				if a != "w" {
					na[a] = v
				}
			}
		} else {
			nd.Reach("update-remove-creates")
		}
		m.put(k, na)
		if err == nil {
			nd.Assert(vSameItem(out.Attributes, m.full(k, na)), "C01-update-remove-returns-new-item")
		}
	}
	vC01Battery(c, m, universe, "C01-step")
	nd.Reach("end")
}

// VerifC01Typed: the same map semantics on tables whose hash and sort keys have different scalar types
// (N+S, S+N, N+N, S+B): three writes under keys that are different values of their types although their
// texts look alike ("10" / "10.0" as strings, 1 / 2 as numbers), then a delete; every key keeps its own item.
func VerifC01Typed() {
	schema := nd.Choice("schema", 4)
	ht := []types.ScalarAttributeType{types.ScalarAttributeTypeN, types.ScalarAttributeTypeS, types.ScalarAttributeTypeN, types.ScalarAttributeTypeS}[schema]
	rt := []types.ScalarAttributeType{types.ScalarAttributeTypeS, types.ScalarAttributeTypeN, types.ScalarAttributeTypeN, types.ScalarAttributeTypeB}[schema]
	c := NewClient()
	in := generateAddTableInput(vTbl, "p", "s")
	in.AttributeDefinitions[0].AttributeType = ht
	in.AttributeDefinitions[1].AttributeType = rt
	_, err := c.CreateTable(vCtx, in)
	nd.Assert(err == nil, "setup-createtable")
	val := func(t types.ScalarAttributeType, i int) types.AttributeValue {
		switch t {
		case types.ScalarAttributeTypeN:
			return vN([]string{"1", "2", "10"}[i])
		case types.ScalarAttributeTypeB:
			return &types.AttributeValueMemberB{Value: [][]byte{{'1', '0'}, {'1', '0', '.', '0'}, {'1', 'e', '1'}}[i]}
		}
		return vS([]string{"10", "10.0", "1e1"}[i])
	}
	// three keys sharing the hash value, differing in the sort value; and one more differing in the hash value
	keys := []vItem{}
	for i := 0; i < 3; i++ {
		keys = append(keys, vItem{"p": val(ht, 0), "s": val(rt, i)})
	}
	keys = append(keys, vItem{"p": val(ht, 1), "s": val(rt, 0)})
	for i, k := range keys {
		it := vItem{"p": k["p"], "s": k["s"], "v": vS(string(rune('a' + i)))}
		nd.Assert(vPut(c, it) == nil, "C01-typed-put-noerr")
	}
	for i, k := range keys {
		got, gerr := vGet(c, k)
		v, _ := vGetS(got, "v")
		nd.Assert(gerr == nil && v == string(rune('a'+i)), "C01-typed-get-own-item")
	}
	victim := nd.Choice("victim", 4)
	_, derr := c.DeleteItem(vCtx, &dynamodb.DeleteItemInput{TableName: aws.String(vTbl), Key: keys[victim]})
	nd.Assert(derr == nil, "C01-typed-delete-noerr")
	for i, k := range keys {
		got, gerr := vGet(c, k)
		if i == victim {
			nd.Assert(gerr == nil && len(got) == 0, "C01-typed-deleted-is-gone")
		} else {
			v, _ := vGetS(got, "v")
			nd.Assert(gerr == nil && v == string(rune('a'+i)), "C01-typed-others-untouched")
		}
	}
	d, derr2 := c.DescribeTable(vCtx, &dynamodb.DescribeTableInput{TableName: aws.String(vTbl)})
	nd.Assert(derr2 == nil && d.Table.ItemCount != nil && *d.Table.ItemCount == 3, "C01-typed-itemcount")
	if ht == types.ScalarAttributeTypeN {
		// one number, several numerals: 0, -0 and 0.0 name the same item; so do 5, 5.0 and 0.5e1
		// ... and so do the notations of a number beyond the int64 range and of a fraction
		groups := [][]string{{"0", "-0", "0.0"}, {"5", "5.0", "0.5e1"}, {"10000000000000000000", "1e19", "1.0E19"}, {"0.25", ".25", "25e-2"}}
		sel := nd.Choice("numeral-group", len(groups))
		for gi, group := range groups {
			if gi != sel {
				continue
			}
			w := nd.Choice("numeral-written", 3)
			r := nd.Choice("numeral-read", 3)
			it := vItem{"p": vN(group[w]), "s": val(rt, 0), "v": vS("z" + string(rune('0'+gi)))}
			nd.Assert(vPut(c, it) == nil, "C01-typed-put-noerr")
			got, gerr := vGet(c, vItem{"p": vN(group[r]), "s": val(rt, 0)})
			v, _ := vGetS(got, "v")
			nd.Assert(gerr == nil && v == "z"+string(rune('0'+gi)), "C01-typed-number-key-found-under-any-numeral")
			// an update through another numeral changes that item and creates none
			_, uerr := c.UpdateItem(vCtx, &dynamodb.UpdateItemInput{TableName: aws.String(vTbl), Key: vItem{"p": vN(group[(r+1)%3]), "s": val(rt, 0)},
				UpdateExpression: aws.String("SET w = :x"), ExpressionAttributeValues: vItem{":x": vS("u")}})
			nd.Assert(uerr == nil, "C01-typed-update-noerr")
			// the updated item is still the item under that key: its key attribute has the key's value, and the
			// update's own result shows it
			upd, gerr3 := vGet(c, vItem{"p": vN(group[w]), "s": val(rt, 0)})
			pn, _ := upd["p"].(*types.AttributeValueMemberN)
			uw, _ := vGetS(upd, "w")
			nd.Assert(gerr3 == nil && pn != nil && vspec.SameNumeral(pn.Value, group[0]) && uw == "u" && len(upd) == 4, "C01-typed-updated-item-keeps-its-key-value")
			_, derr3 := c.DeleteItem(vCtx, &dynamodb.DeleteItemInput{TableName: aws.String(vTbl), Key: vItem{"p": vN(group[(w+1)%3]), "s": val(rt, 0)}})
			nd.Assert(derr3 == nil, "C01-typed-delete-noerr")
			gone, gerr2 := vGet(c, vItem{"p": vN(group[w]), "s": val(rt, 0)})
			nd.Assert(gerr2 == nil && len(gone) == 0, "C01-typed-number-key-deleted-under-any-numeral")
		}
		d2, derr4 := c.DescribeTable(vCtx, &dynamodb.DescribeTableInput{TableName: aws.String(vTbl)})
		nd.Assert(derr4 == nil && *d2.Table.ItemCount == 3, "C01-typed-itemcount-after-numeral-round")
	}
	vInvariant(c, "C01-typed")
	nd.Reach("end")
}

//go:build verif

package client

import (
	"github.com/aws/aws-sdk-go-v2/aws"
	"github.com/aws/aws-sdk-go-v2/service/dynamodb"
	"github.com/aws/aws-sdk-go-v2/service/dynamodb/types"
	"github.com/truora/minidyn/internal/nd"
)

func vNumTable(rangeType types.ScalarAttributeType) *Client {
	c := NewClient()
	in := generateAddTableInput(vTbl, "p", "s")
	in.AttributeDefinitions[1].AttributeType = rangeType
	_, err := c.CreateTable(vCtx, in)
	nd.Assert(err == nil, "setup-createtable")
	return c
}

// VerifC12SortKeyN: a Query over a number-typed sort key returns the items in numeric order.
func VerifC12SortKeyN() {
	c := vNumTable(types.ScalarAttributeTypeN)
	var n1, n2 int64
	if nd.Param("wide", 0) == 1 {
		// every pair of integers a double represents exactly
		n1, n2 = nd.Int64("n1"), nd.Int64("n2")
		nd.Assume(n1 >= -(1<<53) && n2 <= 1<<53)
	} else {
		n1, n2 = int64(nd.Int16("n1")), int64(nd.Int16("n2"))
	}
	t1, t2 := "", ""
	if bits := nd.Param("fracbits", 0); bits > 0 {
		// sort keys with fraction digits: n1 x 10^-s1 < n2 x 10^-s2, decided exactly on the integers
		n1, n2 = nd.IntBits("f1", bits), nd.IntBits("f2", bits)
		sp := [][2]int{{2, 2}, {1, 2}, {2, 0}}[nd.Choice("scales", 3)]
		p10 := []int64{1, 10, 100}
		nd.Assume(n1*p10[sp[1]] < n2*p10[sp[0]])
		t1, t2 = nd.Decimal(n1, sp[0]), nd.Decimal(n2, sp[1])
	} else {
		nd.Assume(n1 < n2)
		t1, t2 = nd.Itoa(n1), nd.Itoa(n2)
	}
	nd.Assert(vPut(c, vItem{"p": vS("a"), "s": vN(t2)}) == nil && vPut(c, vItem{"p": vS("a"), "s": vN(t1)}) == nil, "setup-put")
	fwd := nd.Choice("forward", 2) == 1
	q, err := c.Query(vCtx, &dynamodb.QueryInput{TableName: aws.String(vTbl), KeyConditionExpression: aws.String("p = :p"),
		ExpressionAttributeValues: vItem{":p": vS("a")}, ScanIndexForward: aws.Bool(fwd)})
	nd.Assert(err == nil && len(q.Items) == 2, "C12-sortkey-query-noerr")
	if err == nil && len(q.Items) == 2 {
		first, _ := q.Items[0]["s"].(*types.AttributeValueMemberN)
		want := t1
		if !fwd {
			want = t2
		}
		nd.Assert(first != nil && first.Value == want, "C12-number-sort-keys-order-by-value")
	}
	nd.Reach("end")
}

// VerifC12SortKeyB: a Query over a binary-typed sort key returns the items in bytewise order.
func VerifC12SortKeyB() {
	c := vNumTable(types.ScalarAttributeTypeB)
	b1 := nd.Bytes("b1", 1+nd.Choice("b1.len", 2))
	b2 := nd.Bytes("b2", 1+nd.Choice("b2.len", 2))
	less := false // bytewise b1 < b2
	for i := 0; ; i++ {
		if i >= len(b1) || i >= len(b2) {
			less = len(b1) < len(b2)
			break
		}
		if b1[i] != b2[i] {
			less = b1[i] < b2[i]
			break
		}
	}
	nd.Assume(less)
	bv := func(b []byte) types.AttributeValue { return &types.AttributeValueMemberB{Value: b} }
	nd.Assert(vPut(c, vItem{"p": vS("a"), "s": bv(b2)}) == nil && vPut(c, vItem{"p": vS("a"), "s": bv(b1)}) == nil, "setup-put")
	q, err := c.Query(vCtx, &dynamodb.QueryInput{TableName: aws.String(vTbl), KeyConditionExpression: aws.String("p = :p"), ExpressionAttributeValues: vItem{":p": vS("a")}})
	nd.Assert(err == nil && len(q.Items) == 2, "C12-binary-sortkey-query-noerr")
	if err == nil && len(q.Items) == 2 {
		first, _ := q.Items[0]["s"].(*types.AttributeValueMemberB)
		nd.Assert(first != nil && vBytesEq(first.Value, b1), "C12-binary-sort-keys-order-by-value")
	}
	nd.Reach("end")
}

// VerifC12KeyNotation: an item written under a number-typed key is found under the same value in another notation.
func VerifC12KeyNotation() {
	c := vNumTable(types.ScalarAttributeTypeN)
	pairs := [][2]string{{"1", "1.0"}, {"1", "01"}, {"10", "1e1"}, {"0", "-0"}, {"10000000000000000", "1e16"}, {"-40000000000000000", "-4e16"}, {"15000000000", "1.5e10"}, {"9007199254740992", "9.007199254740992e15"}}
	p := pairs[nd.Choice("pair", len(pairs))]
	nd.Assert(vPut(c, vItem{"p": vS("a"), "s": vN(p[0]), "v": vS("x")}) == nil, "setup-put")
	got, err := vGet(c, vItem{"p": vS("a"), "s": vN(p[1])})
	nd.Assert(err == nil && len(got) == 3, "C12-number-key-identity-is-by-value")
	nd.Reach("end")
}

// vFracNumerals: numerals in ascending order of value - negative and positive fractions less than one apart,
// and a two-digit value whose text sorts before "2".
var vFracNumerals = []string{"-2.5", "-1.25", "0", "1.25", "1.5", "10"}

// VerifC02NumericRange: Query over a number-typed sort key holding fractional values: every sort-key condition
// (=, <, <=, >, >=, BETWEEN) selects by numeric value - also between values less than one apart - and the
// result is in numeric order in either direction. Items and operands are drawn from a list of numerals whose
// order is known, so the reference works on list positions.
func VerifC02NumericRange() {
	c := vNumTable(types.ScalarAttributeTypeN)
	k := len(vFracNumerals)
	i1 := nd.Choice("item1", k)
	i2 := nd.Choice("item2", k)
	nd.Assume(i1 < i2)
	nd.Assert(vPut(c, vItem{"p": vS("a"), "s": vN(vFracNumerals[i2])}) == nil && vPut(c, vItem{"p": vS("a"), "s": vN(vFracNumerals[i1])}) == nil, "setup-put")
	ops := []string{"=", "<", "<=", ">", ">=", "BETWEEN"}
	op := nd.Choice("op", len(ops))
	o1 := nd.Choice("operand1", k)
	o2 := o1
	cond := "p = :p AND s " + ops[op] + " :a"
	vals := vItem{":p": vS("a"), ":a": vN(vFracNumerals[o1])}
	if ops[op] == "BETWEEN" {
		o2 = nd.Choice("operand2", k)
		nd.Assume(o1 <= o2)
		cond += " AND :b"
		vals[":b"] = vN(vFracNumerals[o2])
	}
	sel := func(i int) bool {
		switch ops[op] {
		case "=":
			return i == o1
		case "<":
			return i < o1
		case "<=":
			return i <= o1
		case ">":
			return i > o1
		case ">=":
			return i >= o1
		}
		return i >= o1 && i <= o2
	}
	fwd := nd.Choice("forward", 2) == 1
	var want []string
	for _, i := range []int{i1, i2} {
		if sel(i) {
			want = append(want, vFracNumerals[i])
		}
	}
	if !fwd && len(want) == 2 {
		want[0], want[1] = want[1], want[0]
	}
	q, err := c.Query(vCtx, &dynamodb.QueryInput{TableName: aws.String(vTbl), KeyConditionExpression: aws.String(cond),
		ExpressionAttributeValues: vals, ScanIndexForward: aws.Bool(fwd)})
	nd.Assert(err == nil, "C02-numeric-range-noerr ["+ops[op]+"]")
	if err == nil {
		nd.Assert(len(q.Items) == len(want) && int(q.Count) == len(want), "C02-numeric-range-selects-by-value ["+ops[op]+"]")
		if len(q.Items) == len(want) {
			for j := range want {
				got, _ := q.Items[j]["s"].(*types.AttributeValueMemberN)
				nd.Assert(got != nil && got.Value == want[j], "C02-numeric-range-in-order ["+ops[op]+"]")
			}
		}
	}
	// the same condition as a Scan filter
	if ops[op] != "BETWEEN" {
		sc, serr := c.Scan(vCtx, &dynamodb.ScanInput{TableName: aws.String(vTbl), FilterExpression: aws.String("s " + ops[op] + " :a"), ExpressionAttributeValues: vItem{":a": vN(vFracNumerals[o1])}})
		nd.Assert(serr == nil && len(sc.Items) == len(want), "C02-numeric-filter-selects-by-value ["+ops[op]+"]")
	}
	nd.Reach("end")
}

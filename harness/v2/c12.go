//go:build verif

package client

import (
	"github.com/aws/aws-sdk-go-v2/aws"
	"github.com/aws/aws-sdk-go-v2/service/dynamodb"
	"github.com/aws/aws-sdk-go-v2/service/dynamodb/types"
	"github.com/truora/minidyn/internal/nd"
)

func vNumTable(rangeType types.ScalarAttributeType) *Client {
	c := NewClient()
	in := generateAddTableInput(vTbl, "p", "s")
	in.AttributeDefinitions[1].AttributeType = rangeType
	_, err := c.CreateTable(vCtx, in)
	nd.Assert(err == nil, "setup-createtable")
	return c
}

// VerifC12SortKeyN: a Query over a number-typed sort key returns the items in numeric order.
func VerifC12SortKeyN() {
	c := vNumTable(types.ScalarAttributeTypeN)
	var n1, n2 int64
	if nd.Param("wide", 0) == 1 {
		// every pair of integers a double represents exactly
		n1, n2 = nd.Int64("n1"), nd.Int64("n2")
		nd.Assume(n1 >= -(1<<53) && n2 <= 1<<53)
	} else {
		n1, n2 = int64(nd.Int16("n1")), int64(nd.Int16("n2"))
	}
	nd.Assume(n1 < n2)
	t1, t2 := nd.Itoa(n1), nd.Itoa(n2)
	nd.Assert(vPut(c, vItem{"p": vS("a"), "s": vN(t2)}) == nil && vPut(c, vItem{"p": vS("a"), "s": vN(t1)}) == nil, "setup-put")
	fwd := nd.Choice("forward", 2) == 1
	q, err := c.Query(vCtx, &dynamodb.QueryInput{TableName: aws.String(vTbl), KeyConditionExpression: aws.String("p = :p"),
		ExpressionAttributeValues: vItem{":p": vS("a")}, ScanIndexForward: aws.Bool(fwd)})
	nd.Assert(err == nil && len(q.Items) == 2, "C12-sortkey-query-noerr")
	if err == nil && len(q.Items) == 2 {
		first, _ := q.Items[0]["s"].(*types.AttributeValueMemberN)
		want := t1
		if !fwd {
			want = t2
		}
		nd.Assert(first != nil && first.Value == want, "C12-number-sort-keys-order-by-value")
	}
	nd.Reach("end")
}

// VerifC12SortKeyB: a Query over a binary-typed sort key returns the items in bytewise order.
func VerifC12SortKeyB() {
	c := vNumTable(types.ScalarAttributeTypeB)
	b1 := nd.Bytes("b1", 1+nd.Choice("b1.len", 2))
	b2 := nd.Bytes("b2", 1+nd.Choice("b2.len", 2))
	less := false // bytewise b1 < b2
	for i := 0; ; i++ {
		if i >= len(b1) || i >= len(b2) {
			less = len(b1) < len(b2)
			break
		}
		if b1[i] != b2[i] {
			less = b1[i] < b2[i]
			break
		}
	}
	nd.Assume(less)
	bv := func(b []byte) types.AttributeValue { return &types.AttributeValueMemberB{Value: b} }
	nd.Assert(vPut(c, vItem{"p": vS("a"), "s": bv(b2)}) == nil && vPut(c, vItem{"p": vS("a"), "s": bv(b1)}) == nil, "setup-put")
	q, err := c.Query(vCtx, &dynamodb.QueryInput{TableName: aws.String(vTbl), KeyConditionExpression: aws.String("p = :p"), ExpressionAttributeValues: vItem{":p": vS("a")}})
	nd.Assert(err == nil && len(q.Items) == 2, "C12-binary-sortkey-query-noerr")
	if err == nil && len(q.Items) == 2 {
		first, _ := q.Items[0]["s"].(*types.AttributeValueMemberB)
		nd.Assert(first != nil && vBytesEq(first.Value, b1), "C12-binary-sort-keys-order-by-value")
	}
	nd.Reach("end")
}

// VerifC12KeyNotation: an item written under a number-typed key is found under the same value in another notation.
func VerifC12KeyNotation() {
	c := vNumTable(types.ScalarAttributeTypeN)
	pairs := [][2]string{{"1", "1.0"}, {"1", "01"}, {"10", "1e1"}, {"0", "-0"}}
	p := pairs[nd.Choice("pair", len(pairs))]
	nd.Assert(vPut(c, vItem{"p": vS("a"), "s": vN(p[0]), "v": vS("x")}) == nil, "setup-put")
	got, err := vGet(c, vItem{"p": vS("a"), "s": vN(p[1])})
	nd.Assert(err == nil && len(got) == 3, "C12-number-key-identity-is-by-value")
	nd.Reach("end")
}

//go:build verif

package client

import (
	"errors"

	"github.com/aws/aws-sdk-go-v2/aws"
	"github.com/aws/aws-sdk-go-v2/service/dynamodb"
	"github.com/aws/aws-sdk-go-v2/service/dynamodb/types"
	"github.com/truora/minidyn/internal/nd"
)

// vSnapshot: every item of the table as (p, attrs) through a full Scan, for before/after comparison.
func vScanAll(c *Client) []vItem {
	out, err := c.Scan(vCtx, &dynamodb.ScanInput{TableName: aws.String(vTbl)})
	nd.Assert(err == nil, "scan-noerr")
	if err != nil {
		return nil
	}
	return out.Items
}

func vSameItems(a, b []vItem) bool {
	if len(a) != len(b) {
		return false
	}
	for i := range a {
		if !vSameItem(a[i], b[i]) {
			return false
		}
	}
	return true
}

// VerifC05Cond: a conditional PutItem / UpdateItem / DeleteItem takes effect iff the condition holds of the
// item stored under the request's own key (empty item if none); bystanders never matter; a refusal is a
// ConditionalCheckFailedException that changes nothing and carries the stored item when asked to.
func VerifC05Cond() {
	nby := nd.Param("bystanders", 1)
	c := vClient(false)
	m := &vModel{}
	target := vKey{p: "t"}
	if nd.Choice("target-present", 2) == 1 {
		attrs := map[string]string{"v": nd.StringN("vt", 1)}
		if nd.Choice("target-has-w", 2) == 1 {
			attrs["w"] = "x"
		}
		nd.Assert(vPut(c, m.full(target, attrs)) == nil, "C05-setup-put")
		m.put(target, attrs)
	}
	for i := 0; i < nby; i++ {
		nm := "b" + string(rune('0'+i))
		k := vKey{p: nm}
		attrs := map[string]string{"v": nd.StringN(nm+".v", 1), "w": "x"}
		if nd.Choice(nm+".created-by-update", 2) == 1 {
			// reachable states include items that an UpdateItem on an absent key created
			_, err := c.UpdateItem(vCtx, &dynamodb.UpdateItemInput{TableName: aws.String(vTbl), Key: k.item(false),
				UpdateExpression: aws.String("SET v = :v, w = :w"), ExpressionAttributeValues: vItem{":v": vS(attrs["v"]), ":w": vS("x")}})
			nd.Assert(err == nil, "C05-setup-upsert")
		} else {
			nd.Assert(vPut(c, m.full(k, attrs)) == nil, "C05-setup-put")
		}
		m.put(k, attrs)
	}
	before := vScanAll(c)
	x := nd.StringN("x", 1)
	tattrs, present := m.get(target)
	tv, hasV := tattrs["v"]
	_, hasW := tattrs["w"]

	var cond string
	var want bool
	vals := vItem{":x": vS(x)}
	var names map[string]string
	switch nd.Choice("cond", 7) {
	case 0:
		cond, want, vals = "attribute_exists(p)", present, nil
	case 1:
		cond, want, vals = "attribute_not_exists(p)", !present, nil
	case 2:
		cond, want = "v = :x", hasV && tv == x
	case 3:
		cond, want = "v <> :x", !(hasV && tv == x)
	case 4:
		cond, want = "v = :x AND attribute_exists(w)", hasV && tv == x && hasW
	case 5: // two placeholders for two different attributes
		cond, want = "#a = :x AND attribute_exists(#b)", hasV && tv == x && hasW
		names = map[string]string{"#a": "v", "#b": "w"}
	case 6:
		cond, want = "attribute_not_exists(#b) OR #a <> :x", !hasW || !(hasV && tv == x)
		names = map[string]string{"#b": "w", "#a": "v"}
	}
	retOld := nd.Choice("return-on-failure", 2) == 1
	var err error
	var failItem vItem
	op := nd.Choice("op", 3)
	switch op {
	case 0:
		nd.Reach("put")
		in := &dynamodb.PutItemInput{TableName: aws.String(vTbl), Item: vItem{"p": vS("t"), "v": vS("n")},
			ConditionExpression: aws.String(cond), ExpressionAttributeValues: vals, ExpressionAttributeNames: names}
		if retOld {
			in.ReturnValuesOnConditionCheckFailure = types.ReturnValuesOnConditionCheckFailureAllOld
		}
		_, err = c.PutItem(vCtx, in)
		if want {
			m.put(target, map[string]string{"v": "n"})
		}
	case 1:
		nd.Reach("update")
		uv := vItem{":n": vS("n")}
		for k, v := range vals {
			uv[k] = v
		}
		in := &dynamodb.UpdateItemInput{TableName: aws.String(vTbl), Key: target.item(false),
			UpdateExpression: aws.String("SET u = :n"), ConditionExpression: aws.String(cond), ExpressionAttributeValues: uv, ExpressionAttributeNames: names}
		if retOld {
			in.ReturnValuesOnConditionCheckFailure = types.ReturnValuesOnConditionCheckFailureAllOld
		}
		_, err = c.UpdateItem(vCtx, in)
		if want {
			na := map[string]string{"u": "n"}
			for a, v := range tattrs {
				na[a] = v
			}
			m.put(target, na)
		}
	case 2:
		nd.Reach("delete")
		in := &dynamodb.DeleteItemInput{TableName: aws.String(vTbl), Key: target.item(false),
			ConditionExpression: aws.String(cond), ExpressionAttributeValues: vals, ExpressionAttributeNames: names}
		if retOld {
			in.ReturnValuesOnConditionCheckFailure = types.ReturnValuesOnConditionCheckFailureAllOld
		} else if nd.Choice("delete-returns-old", 2) == 1 {
			in.ReturnValues = types.ReturnValueAllOld // what a successful delete returns is not what a refusal carries
		}
		_, err = c.DeleteItem(vCtx, in)
		if want {
			m.del(target)
		}
	}
	var ccf *types.ConditionalCheckFailedException
	isCCF := errors.As(err, &ccf)
	if isCCF {
		failItem = ccf.Item
	}
	if want {
		nd.Reach("condition-true")
		nd.Assert(err == nil, "C05-true-condition-takes-effect")
	} else {
		nd.Reach("condition-false")
		nd.Assert(err != nil, "C05-false-condition-is-refused")
		nd.Assert(err == nil || isCCF, "C05-refusal-is-ConditionalCheckFailed")
		after := vScanAll(c)
		nd.Assert(vSameItems(before, after), "C05-refusal-changes-nothing")
		if isCCF && retOld && present {
			nd.Reach("refusal-with-item-requested")
			nd.Assert(vSameItem(failItem, m.full(target, tattrs)), "C05-refusal-carries-stored-item ["+[]string{"PutItem", "UpdateItem", "DeleteItem"}[op]+"]")
		}
	}
	// whatever happened, the table now holds exactly what the model predicts
	for _, r := range m.rows {
		got, gerr := vGet(c, r.k.item(false))
		nd.Assert(gerr == nil && vSameItem(got, m.full(r.k, r.attrs)), "C05-state-follows-target-only")
	}
	if _, still := m.get(target); !still {
		got, gerr := vGet(c, target.item(false))
		nd.Assert(gerr == nil && len(got) == 0, "C05-state-target-absent")
	}
	nd.Reach("end")
}

// VerifC05Boundary: existence guards and value conditions on a target whose attribute z holds a boundary
// value - NULL, false, the number 0, an empty string, an empty list, an empty map: such an attribute exists.
// Table with a sort key; a bystander in the same partition (its sort key is symbolic and may be the target's
// neighbour on either side) has no z and never matters. A refusal changes nothing.
func VerifC05Boundary() {
	c := vClient(true)
	ts := nd.StringN("target.s", 1)
	bs := nd.StringN("bystander.s", 1)
	nd.Assume(ts != bs)
	boundary := []types.AttributeValue{&types.AttributeValueMemberNULL{Value: true}, &types.AttributeValueMemberBOOL{Value: false}, vN("0"), vS(""),
		&types.AttributeValueMemberL{Value: []types.AttributeValue{}}, &types.AttributeValueMemberM{Value: vItem{}}}
	present := nd.Choice("target-present", 2) == 1
	hasZ := false
	if present {
		it := vItem{"p": vS("t"), "s": vS(ts), "v": vS("old"), "d.t": vS("old")}
		if nd.Choice("target-has-z", 2) == 1 {
			hasZ = true
			it["z"] = boundary[nd.Choice("boundary-value", len(boundary))]
		}
		nd.Assert(vPut(c, it) == nil, "C05-setup-put")
	}
	nd.Assert(vPut(c, vItem{"p": vS("t"), "s": vS(bs), "v": vS("by")}) == nil, "C05-setup-put")
	count := func() int { return len(vScanAll(c)) }
	n0 := count()
	var cond string
	var want bool
	var names map[string]string
	switch nd.Choice("cond", 9) {
	case 5: // two attributes neither the target nor anything else has: nothing equals nothing, anything differs
		cond, want = "nosuch1 = nosuch2", false
	case 6:
		cond, want = "nosuch1 <> nosuch2", true
	case 7: // an attribute whose name contains a dot, reachable only through a #name: it is that attribute
		cond, want, names = "attribute_exists(#d)", present, map[string]string{"#d": "d.t"}
	case 8:
		cond, want, names = "attribute_not_exists(#d) OR #d <> :old", !present, map[string]string{"#d": "d.t"}
	case 0:
		cond, want = "attribute_exists(z)", hasZ
	case 1:
		cond, want = "attribute_not_exists(z)", !hasZ
	case 2:
		cond, want = "attribute_exists(z) AND v = :old", hasZ
	case 3:
		cond, want = "attribute_not_exists(z) AND attribute_exists(p)", present && !hasZ
	case 4:
		cond, want = "NOT attribute_exists(z) OR v <> :old", !hasZ
	}
	var vals vItem
	if cond[len(cond)-4:] == ":old" {
		vals = vItem{":old": vS("old")}
	}
	key := vItem{"p": vS("t"), "s": vS(ts)}
	var err error
	op := nd.Choice("op", 3)
	switch op {
	case 0:
		_, err = c.PutItem(vCtx, &dynamodb.PutItemInput{TableName: aws.String(vTbl), Item: vItem{"p": vS("t"), "s": vS(ts), "v": vS("new")},
			ConditionExpression: aws.String(cond), ExpressionAttributeValues: vals, ExpressionAttributeNames: names})
	case 1:
		uv := vItem{":n": vS("new")}
		for k, v := range vals {
			uv[k] = v
		}
		_, err = c.UpdateItem(vCtx, &dynamodb.UpdateItemInput{TableName: aws.String(vTbl), Key: key,
			UpdateExpression: aws.String("SET v = :n"), ConditionExpression: aws.String(cond), ExpressionAttributeValues: uv, ExpressionAttributeNames: names})
	case 2:
		_, err = c.DeleteItem(vCtx, &dynamodb.DeleteItemInput{TableName: aws.String(vTbl), Key: key,
			ConditionExpression: aws.String(cond), ExpressionAttributeValues: vals, ExpressionAttributeNames: names})
	}
	var ccf *types.ConditionalCheckFailedException
	got, gerr := vGet(c, key)
	nd.Assert(gerr == nil, "C05-boundary-get-noerr")
	gv, _ := vGetS(got, "v")
	if want {
		nd.Reach("condition-true")
		nd.Assert(err == nil, "C05-boundary-true-condition-takes-effect ["+cond+"]")
		if op == 2 {
			nd.Assert(len(got) == 0, "C05-boundary-delete-applied")
		} else {
			nd.Assert(gv == "new", "C05-boundary-write-applied")
		}
	} else {
		nd.Reach("condition-false")
		nd.Assert(err != nil && errors.As(err, &ccf), "C05-boundary-false-condition-is-refused ["+cond+"]")
		nd.Assert(count() == n0, "C05-boundary-refusal-changes-nothing")
		if present {
			nd.Assert(gv == "old", "C05-boundary-refusal-keeps-target")
		} else {
			nd.Assert(len(got) == 0, "C05-boundary-refusal-keeps-target-absent")
		}
	}
	by, berr := vGet(c, vItem{"p": vS("t"), "s": vS(bs)})
	bv, _ := vGetS(by, "v")
	nd.Assert(berr == nil && bv == "by" && len(by) == 3, "C05-boundary-bystander-untouched")
	nd.Reach("end")
}

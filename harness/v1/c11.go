//go:build verif

package client

import (
	"github.com/aws/aws-sdk-go/aws"
	"github.com/aws/aws-sdk-go/service/dynamodb"
	"github.com/truora/minidyn/internal/nd"
	"github.com/truora/minidyn/interpreter"
)

// VerifC11LocksV1: the SDK v1 twin of VerifC11Locks.
func VerifC11LocksV1() {
	c := vClient(false)
	nd.Assert(AddIndex(c, vTbl, "idx", "g", "") == nil, "setup-addindex")
	_, err := c.PutItem(&dynamodb.PutItemInput{TableName: aws.String(vTbl), Item: vItem{"p": vS("0"), "v": vS("x"), "g": vS("gv")}})
	nd.Assert(err == nil, "setup-put")
	nd.Assert(AddTable(c, "other", "p", "") == nil, "setup-addtable")
	nd.Track(c)
	tbl := aws.String(vTbl)
	k := nd.StringN("k", 1)
	ctx := aws.BackgroundContext()
	secs := []struct {
		name string
		f    func()
	}{
		{"PutItem", func() { c.PutItem(&dynamodb.PutItemInput{TableName: tbl, Item: vItem{"p": vS(k), "v": vS("x")}}) }},
		{"GetItem", func() { c.GetItem(&dynamodb.GetItemInput{TableName: tbl, Key: vItem{"p": vS(k)}}) }},
		{"UpdateItem", func() {
			c.UpdateItem(&dynamodb.UpdateItemInput{TableName: tbl, Key: vItem{"p": vS(k)}, UpdateExpression: aws.String("SET v = :x"), ExpressionAttributeValues: vItem{":x": vS("y")}})
		}},
		{"DeleteItem", func() { c.DeleteItem(&dynamodb.DeleteItemInput{TableName: tbl, Key: vItem{"p": vS(k)}}) }},
		{"Query", func() {
			c.Query(&dynamodb.QueryInput{TableName: tbl, KeyConditionExpression: aws.String("p = :p"), ExpressionAttributeValues: vItem{":p": vS(k)}})
		}},
		{"Scan", func() { c.Scan(&dynamodb.ScanInput{TableName: tbl}) }},
		{"QueryIndex", func() {
			c.Query(&dynamodb.QueryInput{TableName: tbl, IndexName: aws.String("idx"), KeyConditionExpression: aws.String("g = :g"), ExpressionAttributeValues: vItem{":g": vS("gv")}})
		}},
		{"ScanIndex", func() { c.Scan(&dynamodb.ScanInput{TableName: tbl, IndexName: aws.String("idx")}) }},
		{"BatchWriteItem", func() {
			c.BatchWriteItem(&dynamodb.BatchWriteItemInput{RequestItems: map[string][]*dynamodb.WriteRequest{vTbl: {{PutRequest: &dynamodb.PutRequest{Item: vItem{"p": vS("b")}}}}}})
		}},
		{"TransactWriteItems", func() { c.TransactWriteItems(&dynamodb.TransactWriteItemsInput{}) }},
		{"DescribeTable", func() { c.DescribeTable(&dynamodb.DescribeTableInput{TableName: tbl}) }},
		{"CreateTable", func() { AddTable(c, "other", "p", "") }},
		{"DeleteTable", func() { c.DeleteTable(&dynamodb.DeleteTableInput{TableName: aws.String("other")}) }},
		{"UpdateTable", func() { AddIndex(c, vTbl, "late", "g", "") }},
		{"ClearTable", func() { ClearTable(c, vTbl) }},
		{"EmulateFailure", func() { EmulateFailure(c, FailureConditionNone) }},
		{"ActivateNativeInterpreter", func() { c.ActivateNativeInterpreter() }},
		{"SetInterpreter", func() { c.SetInterpreter(interpreter.NewNativeInterpreter()) }},
		{"ActivateDebug", func() { c.ActivateDebug() }},
		{"SetItemCollectionMetrics", func() { SetItemCollectionMetrics(c, map[string][]*dynamodb.ItemCollectionMetrics{}) }},
		{"GetNativeInterpreter", func() { c.GetNativeInterpreter() }},
		// the ...WithContext entry points of the dynamodbiface.DynamoDBAPI methods the client implements
		{"PutItemWithContext", func() {
			c.PutItemWithContext(ctx, &dynamodb.PutItemInput{TableName: tbl, Item: vItem{"p": vS(k), "v": vS("x")}})
		}},
		{"GetItemWithContext", func() { c.GetItemWithContext(ctx, &dynamodb.GetItemInput{TableName: tbl, Key: vItem{"p": vS(k)}}) }},
		{"UpdateItemWithContext", func() {
			c.UpdateItemWithContext(ctx, &dynamodb.UpdateItemInput{TableName: tbl, Key: vItem{"p": vS(k)}, UpdateExpression: aws.String("SET v = :x"), ExpressionAttributeValues: vItem{":x": vS("y")}})
		}},
		{"DeleteItemWithContext", func() {
			c.DeleteItemWithContext(ctx, &dynamodb.DeleteItemInput{TableName: tbl, Key: vItem{"p": vS(k)}})
		}},
		{"QueryWithContext", func() {
			c.QueryWithContext(ctx, &dynamodb.QueryInput{TableName: tbl, KeyConditionExpression: aws.String("p = :p"), ExpressionAttributeValues: vItem{":p": vS(k)}})
		}},
		{"ScanWithContext", func() { c.ScanWithContext(ctx, &dynamodb.ScanInput{TableName: tbl}) }},
		{"BatchWriteItemWithContext", func() {
			c.BatchWriteItemWithContext(ctx, &dynamodb.BatchWriteItemInput{RequestItems: map[string][]*dynamodb.WriteRequest{vTbl: {{PutRequest: &dynamodb.PutRequest{Item: vItem{"p": vS("b")}}}}}})
		}},
		{"TransactWriteItemsWithContext", func() { c.TransactWriteItemsWithContext(ctx, &dynamodb.TransactWriteItemsInput{}) }},
		{"DescribeTableWithContext", func() { c.DescribeTableWithContext(ctx, &dynamodb.DescribeTableInput{TableName: tbl}) }},
		{"CreateTableWithContext", func() { c.CreateTableWithContext(ctx, generateAddTableInput("other2", "p", "")) }},
		{"DeleteTableWithContext", func() { c.DeleteTableWithContext(ctx, &dynamodb.DeleteTableInput{TableName: aws.String("other2")}) }},
		{"UpdateTableWithContext", func() {
			c.UpdateTableWithContext(ctx, &dynamodb.UpdateTableInput{TableName: tbl, GlobalSecondaryIndexUpdates: []*dynamodb.GlobalSecondaryIndexUpdate{{Delete: &dynamodb.DeleteGlobalSecondaryIndexAction{IndexName: aws.String("late2")}}}})
		}},
	}
	setups := map[string]func(){
		"CreateTableWithContext": func() { c.DeleteTable(&dynamodb.DeleteTableInput{TableName: aws.String("other2")}) },
		"DeleteTableWithContext": func() { AddTable(c, "other2", "p", "") },
		"UpdateTableWithContext": func() { AddIndex(c, vTbl, "late2", "g", "") },
		"CreateTable":            func() { c.DeleteTable(&dynamodb.DeleteTableInput{TableName: aws.String("other")}) },
		"DeleteTable":            func() { AddTable(c, "other", "p", "") },
		"UpdateTable": func() {
			c.UpdateTable(&dynamodb.UpdateTableInput{TableName: tbl, GlobalSecondaryIndexUpdates: []*dynamodb.GlobalSecondaryIndexUpdate{{Delete: &dynamodb.DeleteGlobalSecondaryIndexAction{IndexName: aws.String("late")}}}})
		},
	}
	names := []string{}
	for _, s := range secs {
		if setup := setups[s.name]; setup != nil {
			nd.SectionSetup(s.name, setup, s.f)
		} else {
			nd.Section(s.name, s.f)
		}
		names = append(names, s.name)
	}
	for i := range names {
		for j := i; j < len(names); j++ {
			nd.NoRace(names[i], names[j], "C11v1-no-data-race ["+names[i]+" / "+names[j]+"]")
		}
	}
	nd.Reach("end")
}

// VerifC11AtomicV1: pairs of concurrent v1 calls under all bounded schedules.
func VerifC11AtomicV1() {
	c := vClient(false)
	_, err := c.PutItem(&dynamodb.PutItemInput{TableName: aws.String(vTbl), Item: vItem{"p": vS("k"), "n": {N: aws.String("0")}}})
	nd.Assert(err == nil, "setup-put")
	nd.Track(c)
	tbl := aws.String(vTbl)
	switch nd.Choice("pair", 9) {
	case 0:
		add := func() {
			c.UpdateItem(&dynamodb.UpdateItemInput{TableName: tbl, Key: vItem{"p": vS("k")}, UpdateExpression: aws.String("ADD n :one"), ExpressionAttributeValues: vItem{":one": {N: aws.String("1")}}})
		}
		nd.Par(add, add)
		out, gerr := c.GetItem(&dynamodb.GetItemInput{TableName: tbl, Key: vItem{"p": vS("k")}})
		nd.Assert(gerr == nil && out.Item["n"] != nil && out.Item["n"].N != nil && *out.Item["n"].N == "2", "C11v1-two-concurrent-adds-yield-2")
	case 1:
		var e1, e2 error
		put := func(e *error) func() {
			return func() {
				_, *e = c.PutItem(&dynamodb.PutItemInput{TableName: tbl, Item: vItem{"p": vS("new")}, ConditionExpression: aws.String("attribute_not_exists(p)")})
			}
		}
		nd.Par(put(&e1), put(&e2))
		nd.Assert((e1 == nil) != (e2 == nil), "C11v1-exactly-one-conditional-put-wins")
	case 2:
		var e1, e2 error
		nd.Par(func() { e1 = AddTable(c, "fresh", "p", "") }, func() { e2 = AddTable(c, "fresh", "p", "") })
		nd.Assert((e1 == nil) != (e2 == nil), "C11v1-exactly-one-create-wins")
	case 3: // put racing with delete of the same key
		nd.Par(func() {
			c.PutItem(&dynamodb.PutItemInput{TableName: tbl, Item: vItem{"p": vS("k"), "n": {N: aws.String("5")}}})
		},
			func() { c.DeleteItem(&dynamodb.DeleteItemInput{TableName: tbl, Key: vItem{"p": vS("k")}}) })
		out, gerr := c.GetItem(&dynamodb.GetItemInput{TableName: tbl, Key: vItem{"p": vS("k")}})
		nd.Assert(gerr == nil && (len(out.Item) == 0 || (out.Item["n"] != nil && out.Item["n"].N != nil && *out.Item["n"].N == "5")), "C11v1-put-delete-serializable")
	case 4: // clear racing with put
		nd.Par(func() { ClearTable(c, vTbl) }, func() { c.PutItem(&dynamodb.PutItemInput{TableName: tbl, Item: vItem{"p": vS("z")}}) })
		out, serr := c.Scan(&dynamodb.ScanInput{TableName: tbl})
		ok := serr == nil && len(out.Items) <= 1
		if ok && len(out.Items) == 1 {
			ok = out.Items[0]["p"] != nil && out.Items[0]["p"].S != nil && *out.Items[0]["p"].S == "z"
		}
		nd.Assert(ok, "C11v1-clear-vs-put-serializable")
	case 5: // table deletion racing with a put
		var e2 error
		nd.Par(func() { c.DeleteTable(&dynamodb.DeleteTableInput{TableName: tbl}) }, func() {
			_, e2 = c.PutItem(&dynamodb.PutItemInput{TableName: tbl, Item: vItem{"p": vS("z")}})
		})
		nd.Assert(e2 == nil || vErrCode(e2) == dynamodb.ErrCodeResourceNotFoundException, "C11v1-put-vs-delete-table-outcome")
		_, derr := c.DescribeTable(&dynamodb.DescribeTableInput{TableName: tbl})
		nd.Assert(vErrCode(derr) == dynamodb.ErrCodeResourceNotFoundException, "C11v1-table-gone-after-delete")
	case 6: // failure activation racing with a put
		var e2 error
		nd.Par(func() { EmulateFailure(c, FailureConditionInternalServerError) }, func() {
			_, e2 = c.PutItem(&dynamodb.PutItemInput{TableName: tbl, Item: vItem{"p": vS("z")}})
		})
		EmulateFailure(c, FailureConditionNone)
		out, gerr := c.GetItem(&dynamodb.GetItemInput{TableName: tbl, Key: vItem{"p": vS("z")}})
		nd.Assert(gerr == nil && (e2 == nil) == (len(out.Item) != 0), "C11v1-put-vs-failure-toggle-all-or-nothing")
	case 7: // two conditional updates taking a lock attribute
		var e1, e2 error
		take := func(e *error, who string) func() {
			return func() {
				_, *e = c.UpdateItem(&dynamodb.UpdateItemInput{TableName: tbl, Key: vItem{"p": vS("k")}, UpdateExpression: aws.String("SET holder = :w"),
					ConditionExpression: aws.String("attribute_not_exists(holder)"), ExpressionAttributeValues: vItem{":w": vS(who)}})
			}
		}
		nd.Par(take(&e1, "one"), take(&e2, "two"))
		nd.Assert((e1 == nil) != (e2 == nil), "C11v1-exactly-one-conditional-update-wins")
	case 8: // update of an indexed attribute racing with an index scan
		nd.Assert(AddIndex(c, vTbl, "idx", "g", "") == nil, "setup-addindex")
		_, perr := c.PutItem(&dynamodb.PutItemInput{TableName: tbl, Item: vItem{"p": vS("i"), "g": vS("a")}})
		nd.Assert(perr == nil, "setup-put-indexed")
		var seen []vItem
		var serr error
		nd.Par(func() {
			c.UpdateItem(&dynamodb.UpdateItemInput{TableName: tbl, Key: vItem{"p": vS("i")}, UpdateExpression: aws.String("SET g = :g"), ExpressionAttributeValues: vItem{":g": vS("b")}})
		}, func() {
			out, err := c.Scan(&dynamodb.ScanInput{TableName: tbl, IndexName: aws.String("idx")})
			serr = err
			if err == nil {
				seen = out.Items
			}
		})
		nd.Assert(serr == nil && len(seen) == 1, "C11v1-index-reader-sees-item-once")
	}
	nd.Reach("end")
}

// VerifC11AbortedV1: the SDK v1 twin of VerifC11Aborted.
func VerifC11AbortedV1() {
	c := vClient(false)
	nd.Assert(AddIndex(c, vTbl, "idx", "g", "") == nil, "setup-addindex")
	_, perr := c.PutItem(&dynamodb.PutItemInput{TableName: aws.String(vTbl), Item: vItem{"p": vS("k"), "g": vS("gv"), "v": vS("x")}})
	nd.Assert(perr == nil, "setup-put")
	tbl := aws.String(vTbl)
	bad := aws.String("v = = :x")
	vals := vItem{":x": vS("x")}
	aborting := []func() error{
		func() error {
			_, e := c.Scan(&dynamodb.ScanInput{TableName: tbl, FilterExpression: bad, ExpressionAttributeValues: vals})
			return e
		},
		func() error {
			_, e := c.Scan(&dynamodb.ScanInput{TableName: tbl, IndexName: aws.String("idx"), FilterExpression: bad, ExpressionAttributeValues: vals})
			return e
		},
		func() error {
			_, e := c.Query(&dynamodb.QueryInput{TableName: tbl, KeyConditionExpression: aws.String("p = :p"), FilterExpression: bad, ExpressionAttributeValues: vItem{":p": vS("k"), ":x": vS("x")}})
			return e
		},
		func() error {
			_, e := c.Query(&dynamodb.QueryInput{TableName: tbl, KeyConditionExpression: aws.String("p = = :p"), ExpressionAttributeValues: vItem{":p": vS("k")}})
			return e
		},
		func() error {
			_, e := c.PutItem(&dynamodb.PutItemInput{TableName: tbl, Item: vItem{"p": vS("k")}, ConditionExpression: bad, ExpressionAttributeValues: vals})
			return e
		},
		func() error {
			_, e := c.UpdateItem(&dynamodb.UpdateItemInput{TableName: tbl, Key: vItem{"p": vS("k")}, UpdateExpression: aws.String("SET v = :x"), ConditionExpression: bad, ExpressionAttributeValues: vals})
			return e
		},
		func() error {
			_, e := c.DeleteItem(&dynamodb.DeleteItemInput{TableName: tbl, Key: vItem{"p": vS("k")}, ConditionExpression: bad, ExpressionAttributeValues: vals})
			return e
		},
		func() error {
			_, e := c.UpdateItem(&dynamodb.UpdateItemInput{TableName: tbl, Key: vItem{"p": vS("k")}, UpdateExpression: aws.String("SET v = = :x"), ExpressionAttributeValues: vals})
			return e
		},
		func() error {
			_, e := c.BatchWriteItem(&dynamodb.BatchWriteItemInput{RequestItems: map[string][]*dynamodb.WriteRequest{vTbl: {{}}}})
			return e
		},
		func() error {
			_, e := c.GetItem(&dynamodb.GetItemInput{TableName: tbl, Key: vItem{"p": {N: aws.String("1")}}})
			return e
		},
		func() error {
			_, e := c.Query(&dynamodb.QueryInput{TableName: tbl, IndexName: aws.String("nosuch"), KeyConditionExpression: aws.String("p = :p"), ExpressionAttributeValues: vItem{":p": vS("k")}})
			return e
		},
		func() error { return ClearTable(c, "nosuch") },
		func() error { return AddIndex(c, "nosuch", "late", "g", "") },
		func() error { return AddTable(c, vTbl, "p", "") },
		func() error {
			_, e := c.DeleteTable(&dynamodb.DeleteTableInput{TableName: aws.String("nosuch")})
			return e
		},
		func() error {
			_, e := c.DescribeTable(&dynamodb.DescribeTableInput{TableName: aws.String("nosuch")})
			return e
		},
		func() error {
			_, e := c.UpdateTable(&dynamodb.UpdateTableInput{TableName: tbl, GlobalSecondaryIndexUpdates: []*dynamodb.GlobalSecondaryIndexUpdate{{Delete: &dynamodb.DeleteGlobalSecondaryIndexAction{IndexName: aws.String("nosuch")}}}})
			return e
		},
		func() error {
			_, e := c.Scan(&dynamodb.ScanInput{TableName: aws.String("nosuch")})
			return e
		},
		func() error {
			EmulateFailure(c, FailureConditionInternalServerError)
			_, e := c.Scan(&dynamodb.ScanInput{TableName: tbl})
			EmulateFailure(c, FailureConditionNone)
			return e
		},
	}
	err, panicked := vCatch(aborting[nd.Choice("call", len(aborting))])
	nd.Assert(err != nil || panicked, "C11v1-malformed-request-is-refused")
	if panicked {
		nd.Reach("aborted-with-panic")
	}
	switch nd.Choice("next", 4) {
	case 0:
		_, e := c.PutItem(&dynamodb.PutItemInput{TableName: tbl, Item: vItem{"p": vS("z")}})
		nd.Assert(e == nil, "C11v1-client-usable-after-aborted-call [PutItem]")
	case 1:
		out, serr := c.Scan(&dynamodb.ScanInput{TableName: tbl})
		nd.Assert(serr == nil && len(out.Items) == 1, "C11v1-client-usable-after-aborted-call [Scan]")
	case 2:
		_, derr := c.DescribeTable(&dynamodb.DescribeTableInput{TableName: tbl})
		nd.Assert(derr == nil, "C11v1-client-usable-after-aborted-call [DescribeTable]")
	case 3:
		EmulateFailure(c, FailureConditionNone)
	}
	nd.Reach("end")
}

//go:build verif

package client

import (
	"github.com/aws/aws-sdk-go/aws"
	"github.com/aws/aws-sdk-go/service/dynamodb"
	"github.com/truora/minidyn/internal/nd"
)

func vPlaceholderName(name string) string {
	s := nd.StringN(name, 1+nd.Choice(name+".len", 2))
	for i := 0; i < len(s); i++ {
		nd.Assume(s[i] >= 'a' && s[i] <= 'z' || s[i] >= '0' && s[i] <= '9' || s[i] == '_')
	}
	return s
}

func vScanCount(c *Client, table string) int {
	out, err := c.Scan(&dynamodb.ScanInput{TableName: aws.String(table)})
	nd.Assert(err == nil, "scan-noerr")
	if err != nil {
		return -1
	}
	return len(out.Items)
}

// VerifC16PlaceholdersV1: the SDK v1 twin of VerifC16Placeholders.
func VerifC16PlaceholdersV1() {
	c := vClient(false)
	_, perr := c.PutItem(&dynamodb.PutItemInput{TableName: aws.String(vTbl), Item: vItem{"p": vS("k"), "a": vS("x")}})
	nd.Assert(perr == nil, "setup-put")
	values := nd.Choice("kind", 2) == 0
	sig := "#"
	if values {
		sig = ":"
	}
	used := sig + vPlaceholderName("used")
	nsup := nd.Choice("supplied", 3)
	supplied := []string{}
	for i := 0; i < nsup; i++ {
		supplied = append(supplied, sig+vPlaceholderName("sup"+string(rune('0'+i))))
	}
	if nsup == 2 {
		nd.Assume(supplied[0] != supplied[1])
	}
	in := &dynamodb.PutItemInput{TableName: aws.String(vTbl), Item: vItem{"p": vS("k"), "a": vS("y")}}
	if values {
		in.ConditionExpression = aws.String("a <> " + used)
		in.ExpressionAttributeValues = vItem{}
		for _, s := range supplied {
			in.ExpressionAttributeValues[s] = vS("zz")
		}
	} else {
		in.ConditionExpression = aws.String("attribute_not_exists(" + used + ")")
		in.ExpressionAttributeNames = map[string]*string{}
		for _, s := range supplied {
			in.ExpressionAttributeNames[s] = aws.String("nosuch")
		}
	}
	unused, unusedPrefix, defined := false, false, false
	for _, s := range supplied {
		switch {
		case s == used:
			defined = true
		case len(s) < len(used) && used[:len(s)] == s:
			unusedPrefix = true
		default:
			unused = true
		}
	}
	err, panicked := vCatch(func() error { _, e := c.PutItem(in); return e })
	rejected := err != nil || panicked
	if unused {
		nd.Reach("unused")
		nd.Assert(rejected, "C16v1-unused-placeholder-rejected")
	}
	if unusedPrefix && !unused {
		if !nd.Known("C16-placeholder-prefix-counts-as-used") {
			nd.Assert(rejected, "C16v1-unused-placeholder-that-is-a-prefix-rejected")
		}
	}
	if !defined && !unused && !unusedPrefix {
		if !nd.Known("C16-undefined-placeholder-accepted") {
			nd.Assert(rejected, "C16v1-undefined-placeholder-rejected")
		}
	}
	if defined && !unused && !unusedPrefix {
		nd.Reach("well-formed")
		nd.Assert(!rejected, "C16v1-all-used-and-defined-accepted")
	}
	nd.Reach("end")
}

// VerifC16MalformedV1: placeholder keys that do not have the #name / :value form are rejected - as value
// keys and as name keys.
func VerifC16MalformedV1() {
	c := vClient(false)
	names := nd.Choice("kind", 2) == 1
	sig := byte(':')
	if names {
		sig = '#'
	}
	bad := nd.StringN("key", 1+nd.Choice("len", 3))
	wellFormed := len(bad) >= 2 && bad[0] == sig
	for i := 1; i < len(bad); i++ {
		ch := bad[i]
		if !(ch >= 'a' && ch <= 'z' || ch >= 'A' && ch <= 'Z' || ch >= '0' && ch <= '9' || ch == '_') {
			wellFormed = false
		}
	}
	nd.Assume(!wellFormed)
	for i := 0; i < len(bad); i++ {
		nd.Assume(bad[i] > ' ' && bad[i] < 0x7f && bad[i] != '(' && bad[i] != ')' && bad[i] != ',')
	}
	in := &dynamodb.PutItemInput{TableName: aws.String(vTbl), Item: vItem{"p": vS("k")}}
	if names {
		in.ConditionExpression = aws.String("attribute_not_exists(p) OR attribute_exists(" + bad + ")")
		in.ExpressionAttributeNames = map[string]*string{bad: aws.String("p")}
	} else {
		in.ConditionExpression = aws.String("attribute_not_exists(p) OR p = " + bad)
		in.ExpressionAttributeValues = vItem{bad: vS("x")}
	}
	err, panicked := vCatch(func() error { _, e := c.PutItem(in); return e })
	nd.Assert(err != nil || panicked, "C16v1-malformed-placeholder-key-rejected")
	nd.Reach("end")
}

// VerifC16BatchV1: the SDK v1 twin of VerifC16Batch.
func VerifC16BatchV1() {
	c := vClient(false)
	n := nd.Int("count", 0, 27)
	last := nd.Choice("last-request", 6) // 0 put, 1 delete, 2 both, 3 neither, 4 put + delete with an empty key, 5 put with an empty item + delete
	reqs := []*dynamodb.WriteRequest{}
	for i := 0; i < n; i++ {
		k := "k" + string(rune('a'+i))
		r := &dynamodb.WriteRequest{PutRequest: &dynamodb.PutRequest{Item: vItem{"p": vS(k)}}}
		if i == n-1 {
			switch last {
			case 1:
				r = &dynamodb.WriteRequest{DeleteRequest: &dynamodb.DeleteRequest{Key: vItem{"p": vS(k)}}}
			case 2:
				r.DeleteRequest = &dynamodb.DeleteRequest{Key: vItem{"p": vS(k)}}
			case 3:
				r = &dynamodb.WriteRequest{}
			case 4:
				r.DeleteRequest = &dynamodb.DeleteRequest{Key: vItem{}}
			case 5:
				r = &dynamodb.WriteRequest{PutRequest: &dynamodb.PutRequest{Item: vItem{}}, DeleteRequest: &dynamodb.DeleteRequest{Key: vItem{"p": vS(k)}}}
			}
		}
		reqs = append(reqs, r)
	}
	items := map[string][]*dynamodb.WriteRequest{vTbl: reqs}
	two := len(reqs) >= 2 && nd.Choice("two-tables", 2) == 1
	if two {
		nd.Assert(AddTable(c, "tb2", "p", "") == nil, "setup-addtable2")
		items = map[string][]*dynamodb.WriteRequest{vTbl: reqs[:len(reqs)/2], "tb2": reqs[len(reqs)/2:]}
	}
	err, panicked := vCatch(func() error { _, e := c.BatchWriteItem(&dynamodb.BatchWriteItemInput{RequestItems: items}); return e })
	invalid := n > 25 || (n > 0 && last >= 2)
	if invalid {
		nd.Reach("invalid")
		nd.Assert(!panicked && vErrCode(err) == "ValidationException", "C16v1-invalid-batch-rejected")
		total := vScanCount(c, vTbl)
		if two {
			total += vScanCount(c, "tb2")
		}
		nd.Assert(total == 0, "C16v1-invalid-batch-applies-nothing")
	} else {
		nd.Reach("valid")
		nd.Assert(err == nil && !panicked, "C16v1-valid-batch-accepted")
	}
	nd.Reach("end")
}

// VerifC16ProjectionNamesV1: the SDK v1 twin of VerifC16ProjectionNames.
func VerifC16ProjectionNamesV1() {
	c := vClient(false)
	_, perr := c.PutItem(&dynamodb.PutItemInput{TableName: aws.String(vTbl), Item: vItem{"p": vS("k"), "a": vS("x")}})
	nd.Assert(perr == nil, "setup-put")
	names := map[string]*string{"#a": aws.String("a")}
	extra := nd.Choice("unused-name", 2) == 1
	if extra {
		names["#zz"] = aws.String("a")
	}
	proj := aws.String("#a")
	var err error
	var panicked bool
	switch nd.Choice("call", 3) {
	case 0:
		err, panicked = vCatch(func() error {
			_, e := c.GetItem(&dynamodb.GetItemInput{TableName: aws.String(vTbl), Key: vItem{"p": vS("k")}, ProjectionExpression: proj, ExpressionAttributeNames: names})
			return e
		})
	case 1:
		err, panicked = vCatch(func() error {
			_, e := c.Query(&dynamodb.QueryInput{TableName: aws.String(vTbl), KeyConditionExpression: aws.String("p = :p"), ExpressionAttributeValues: vItem{":p": vS("k")}, ProjectionExpression: proj, ExpressionAttributeNames: names})
			return e
		})
	case 2:
		err, panicked = vCatch(func() error {
			_, e := c.Scan(&dynamodb.ScanInput{TableName: aws.String(vTbl), ProjectionExpression: proj, ExpressionAttributeNames: names})
			return e
		})
	}
	if extra {
		nd.Reach("unused")
		nd.Assert(err != nil || panicked, "C16v1-unused-name-next-to-a-projection-rejected")
	} else {
		nd.Reach("projection-only")
		nd.Assert(err == nil && !panicked, "C16v1-name-used-only-by-the-projection-accepted")
	}
	nd.Reach("end")
}

// VerifC16StraddleV1: the SDK v1 twin of VerifC16Straddle.
func VerifC16StraddleV1() {
	c := vClient(false)
	_, perr := c.PutItem(&dynamodb.PutItemInput{TableName: aws.String(vTbl), Item: vItem{"p": vS("k"), "a": vS("x")}})
	nd.Assert(perr == nil, "setup-put")
	extra := nd.Choice("with-the-straddling-placeholder", 2) == 1
	var err error
	var panicked bool
	switch nd.Choice("request", 5) {
	case 4:
		extra = false
		err, panicked = vCatch(func() error {
			_, e := c.UpdateItem(&dynamodb.UpdateItemInput{TableName: aws.String(vTbl), Key: vItem{"p": vS("k")},
				UpdateExpression: aws.String("SET #n = :v, #n1 = :v2"), ConditionExpression: aws.String("#n <> :v2 AND a <> :v"),
				ExpressionAttributeNames: map[string]*string{"#n": aws.String("b"), "#n1": aws.String("c")}, ExpressionAttributeValues: vItem{":v": vS("y"), ":v2": vS("z")}})
			return e
		})
	case 0:
		vals := vItem{":p": vS("y")}
		if extra {
			vals[":pq"] = vS("z")
		}
		err, panicked = vCatch(func() error {
			_, e := c.UpdateItem(&dynamodb.UpdateItemInput{TableName: aws.String(vTbl), Key: vItem{"p": vS("k")},
				UpdateExpression: aws.String("SET b = :p"), ConditionExpression: aws.String("q <> :p"), ExpressionAttributeValues: vals})
			return e
		})
	case 1:
		vals := vItem{":p": vS("y")}
		if extra {
			vals[":ps"] = vS("z")
		}
		err, panicked = vCatch(func() error {
			_, e := c.UpdateItem(&dynamodb.UpdateItemInput{TableName: aws.String(vTbl), Key: vItem{"p": vS("k")},
				UpdateExpression: aws.String("set b = :p"), ConditionExpression: aws.String("a <> :p"), ExpressionAttributeValues: vals})
			return e
		})
	case 2:
		names := map[string]*string{"#n": aws.String("a")}
		if extra {
			names["#nq"] = aws.String("a")
		}
		err, panicked = vCatch(func() error {
			_, e := c.Scan(&dynamodb.ScanInput{TableName: aws.String(vTbl), ProjectionExpression: aws.String("p, #n"), FilterExpression: aws.String("q <> :v"),
				ExpressionAttributeNames: names, ExpressionAttributeValues: vItem{":v": vS("y")}})
			return e
		})
	case 3:
		vals := vItem{":k": vS("k"), ":f": vS("y")}
		if extra {
			vals[[]string{":ka", ":fp"}[nd.Choice("which-order", 2)]] = vS("z")
		}
		err, panicked = vCatch(func() error {
			_, e := c.Query(&dynamodb.QueryInput{TableName: aws.String(vTbl), KeyConditionExpression: aws.String("p = :k"), FilterExpression: aws.String("a <> :f"),
				ExpressionAttributeValues: vals})
			return e
		})
	}
	if extra {
		nd.Reach("unused")
		nd.Assert(err != nil || panicked, "C16v1-placeholder-straddling-two-expressions-is-unused")
	} else {
		nd.Reach("well-formed")
		nd.Assert(err == nil && !panicked, "C16v1-request-with-two-expressions-accepted")
	}
	nd.Reach("end")
}

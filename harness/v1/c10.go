//go:build verif

package client

import (
	"github.com/aws/aws-sdk-go/aws"
	"github.com/aws/aws-sdk-go/service/dynamodb"
	"github.com/truora/minidyn/internal/nd"
	"github.com/truora/minidyn/internal/vspec"
)

// VerifC10RoundTripV1: the SDK v1 twin of VerifC10RoundTrip (v1 implements no BatchGetItem).
func VerifC10RoundTripV1() {
	depth, width := nd.Param("depth", 1), nd.Param("width", 2)
	c := vClient(false)
	v := vspec.GenTree("a", depth, width)
	key := vItem{"p": vS("k")}
	_, err := c.PutItem(&dynamodb.PutItemInput{TableName: aws.String(vTbl), Item: vItem{"p": vS("k"), "a": vToAV(v)}})
	nd.Assert(err == nil, "C10v1-put-noerr")
	check := func(it vItem, id string) {
		nd.Assert(len(it) == 2, id+"-attribute-names")
		got, ok := it["a"]
		nd.Assert(ok && vSameAV(v, got), id+"-value-unchanged")
		p, ok := it["p"]
		nd.Assert(ok && p.S != nil && *p.S == "k", id+"-key-unchanged")
	}
	g, err := c.GetItem(&dynamodb.GetItemInput{TableName: aws.String(vTbl), Key: key})
	nd.Assert(err == nil, "C10v1-get-noerr")
	if err == nil {
		check(g.Item, "C10v1-get")
	}
	q, err := c.Query(&dynamodb.QueryInput{TableName: aws.String(vTbl), KeyConditionExpression: aws.String("p = :p"), ExpressionAttributeValues: vItem{":p": vS("k")}})
	nd.Assert(err == nil && len(q.Items) == 1, "C10v1-query-noerr")
	if err == nil && len(q.Items) == 1 {
		check(q.Items[0], "C10v1-query")
	}
	s, err := c.Scan(&dynamodb.ScanInput{TableName: aws.String(vTbl)})
	nd.Assert(err == nil && len(s.Items) == 1, "C10v1-scan-noerr")
	if err == nil && len(s.Items) == 1 {
		check(s.Items[0], "C10v1-scan")
	}
	nd.Reach("end")
}

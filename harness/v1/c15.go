//go:build verif

package client

import (
	"errors"

	"github.com/aws/aws-sdk-go/aws"
	"github.com/aws/aws-sdk-go/aws/awserr"
	"github.com/aws/aws-sdk-go/service/dynamodb"
	"github.com/truora/minidyn/internal/nd"
)

func vIsConfigured(err error, internal bool) bool {
	if err == nil {
		return false
	}
	if internal {
		var ae awserr.Error
		return errors.As(err, &ae) && ae.Code() == dynamodb.ErrCodeInternalServerError
	}
	return errors.Is(err, ErrForcedFailure)
}

func vScanV1(c *Client) []vItem {
	out, err := c.Scan(&dynamodb.ScanInput{TableName: aws.String(vTbl)})
	nd.Assert(err == nil, "scan-noerr")
	if err != nil {
		return nil
	}
	return out.Items
}

func vSameS(a, b []vItem) bool {
	if len(a) != len(b) {
		return false
	}
	for i := range a {
		if len(a[i]) != len(b[i]) {
			return false
		}
		for k, v := range a[i] {
			w, ok := b[i][k]
			if !ok || v.S == nil || w.S == nil || *v.S != *w.S {
				return false
			}
		}
	}
	return true
}

// VerifC15FailuresV1: the SDK v1 twin of VerifC15Failures.
func VerifC15FailuresV1() {
	c := vClient(false)
	kv := nd.StringN("k.v", 1)
	_, err := c.PutItem(&dynamodb.PutItemInput{TableName: aws.String(vTbl), Item: vItem{"p": vS("k"), "v": vS(kv)}})
	nd.Assert(err == nil, "setup-put")
	nd.Assert(AddTable(c, "tb2", "p", "") == nil, "setup-addtable2")
	_, err = c.PutItem(&dynamodb.PutItemInput{TableName: aws.String("tb2"), Item: vItem{"p": vS("k2"), "v": vS(kv)}})
	nd.Assert(err == nil, "setup-put2")
	scan2 := func() []vItem {
		out, serr := c.Scan(&dynamodb.ScanInput{TableName: aws.String("tb2")})
		nd.Assert(serr == nil, "scan2-noerr")
		if serr != nil {
			return nil
		}
		return out.Items
	}
	before := vScanV1(c)
	before2 := scan2()
	tbl := aws.String(vTbl)
	switch nd.Choice("already-active", 3) {
	case 1:
		EmulateFailure(c, FailureConditionInternalServerError)
	case 2:
		ActiveForceFailure(c)
	}
	internal := false
	switch nd.Choice("condition", 3) {
	case 0:
		EmulateFailure(c, FailureConditionInternalServerError)
		internal = true
	case 1:
		EmulateFailure(c, FailureConditionDeprecated)
	case 2:
		ActiveForceFailure(c)
	}
	x := nd.StringN("x", 1)
	batch := false
	var unprocessed map[string][]*dynamodb.WriteRequest
	reqs := []*dynamodb.WriteRequest{
		{PutRequest: &dynamodb.PutRequest{Item: vItem{"p": vS("n"), "v": vS(x)}}},
		{DeleteRequest: &dynamodb.DeleteRequest{Key: vItem{"p": vS("k")}}},
	}
	// the failure comes first, whatever else is wrong with the request
	var names map[string]*string
	stored := tbl
	switch nd.Choice("request-flavour", 3) {
	case 1:
		tbl = aws.String("nosuch")
	case 2:
		names = map[string]*string{"#unused": aws.String("v")}
	}
	reqs2 := []*dynamodb.WriteRequest{
		{DeleteRequest: &dynamodb.DeleteRequest{Key: vItem{"p": vS("k2")}}},
		{PutRequest: &dynamodb.PutRequest{Item: vItem{"p": vS("n2"), "v": vS(x)}}},
	}
	twoTables := false
	switch nd.Choice("op", 9) {
	case 8:
		batch, twoTables = true, true
		var out *dynamodb.BatchWriteItemOutput
		out, err = c.BatchWriteItem(&dynamodb.BatchWriteItemInput{RequestItems: map[string][]*dynamodb.WriteRequest{vTbl: reqs, "tb2": reqs2}})
		if out != nil {
			unprocessed = out.UnprocessedItems
		}
	case 0:
		_, err = c.PutItem(&dynamodb.PutItemInput{TableName: tbl, Item: vItem{"p": vS("k"), "v": vS(x)}, ExpressionAttributeNames: names})
	case 1:
		_, err = c.GetItem(&dynamodb.GetItemInput{TableName: tbl, Key: vItem{"p": vS("k")}, ExpressionAttributeNames: names})
	case 2:
		_, err = c.UpdateItem(&dynamodb.UpdateItemInput{TableName: tbl, Key: vItem{"p": vS("k")}, UpdateExpression: aws.String("SET v = :x"), ExpressionAttributeValues: vItem{":x": vS(x)}, ExpressionAttributeNames: names})
	case 3:
		_, err = c.DeleteItem(&dynamodb.DeleteItemInput{TableName: tbl, Key: vItem{"p": vS("k")}, ExpressionAttributeNames: names})
	case 4:
		_, err = c.Query(&dynamodb.QueryInput{TableName: tbl, KeyConditionExpression: aws.String("p = :p"), ExpressionAttributeValues: vItem{":p": vS("k")}, ExpressionAttributeNames: names})
	case 5:
		_, err = c.Scan(&dynamodb.ScanInput{TableName: tbl, ExpressionAttributeNames: names})
	case 6:
		_, err = c.TransactWriteItems(&dynamodb.TransactWriteItemsInput{})
	case 7:
		batch = true
		var out *dynamodb.BatchWriteItemOutput
		out, err = c.BatchWriteItem(&dynamodb.BatchWriteItemInput{RequestItems: map[string][]*dynamodb.WriteRequest{vTbl: reqs}})
		if out != nil {
			unprocessed = out.UnprocessedItems
		}
	}
	if batch && internal {
		nd.Reach("batch-under-internal-failure")
		nd.Assert(err == nil, "C15v1-batch-under-internal-failure-reports-unprocessed")
		nd.Assert(len(unprocessed[vTbl]) == len(reqs), "C15v1-batch-every-request-unprocessed")
		if len(unprocessed[vTbl]) == len(reqs) {
			puts, dels := 0, 0
			for _, u := range unprocessed[vTbl] {
				if u.PutRequest != nil && u.DeleteRequest == nil && len(u.PutRequest.Item) == 2 {
					puts++
				}
				if u.DeleteRequest != nil && u.PutRequest == nil && len(u.DeleteRequest.Key) == 1 {
					dels++
				}
			}
			nd.Assert(puts == 1 && dels == 1, "C15v1-batch-unprocessed-requests-are-the-originals")
		}
		if twoTables {
			nd.Reach("two-table-batch-under-internal-failure")
			puts, dels := 0, 0
			for _, u := range unprocessed["tb2"] {
				if u.PutRequest != nil && u.DeleteRequest == nil && vSameS([]vItem{u.PutRequest.Item}, []vItem{{"p": vS("n2"), "v": vS(x)}}) {
					puts++
				}
				if u.DeleteRequest != nil && u.PutRequest == nil && vSameS([]vItem{u.DeleteRequest.Key}, []vItem{{"p": vS("k2")}}) {
					dels++
				}
			}
			nd.Assert(len(unprocessed["tb2"]) == 2 && puts == 1 && dels == 1 && len(unprocessed) == 2, "C15v1-batch-unprocessed-requests-are-the-originals-per-table")
		} else {
			nd.Assert(len(unprocessed) == 1, "C15v1-batch-unprocessed-only-for-tables-named")
		}
	} else {
		nd.Assert(vIsConfigured(err, internal), "C15v1-data-call-returns-configured-error")
	}
	if nd.Choice("deactivate", 2) == 0 {
		EmulateFailure(c, FailureConditionNone)
	} else {
		DeactiveForceFailure(c)
	}
	nd.Assert(vSameS(before, vScanV1(c)), "C15v1-failing-call-changes-nothing")
	nd.Assert(vSameS(before2, scan2()), "C15v1-failing-call-changes-nothing-in-the-other-table")
	_, err = c.PutItem(&dynamodb.PutItemInput{TableName: stored, Item: vItem{"p": vS("k"), "v": vS("after")}})
	nd.Assert(err == nil, "C15v1-works-after-deactivation")
	nd.Reach("end")
}

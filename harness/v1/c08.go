//go:build verif

package client

import (
	"github.com/aws/aws-sdk-go/aws"
	"github.com/aws/aws-sdk-go/service/dynamodb"
	"github.com/truora/minidyn/internal/nd"
)

func vN(s string) *dynamodb.AttributeValue { return &dynamodb.AttributeValue{N: aws.String(s)} }

// vObserveText: everything a reader can see of table "tbl" through the v1 client, as comparable text:
// base scan, index scan (attribute names in a fixed order), item count and index item count.
func vObserveText(c *Client) string {
	render := func(items []vItem) string {
		s := ""
		for _, it := range items {
			s += "{"
			for _, a := range []string{"p", "v", "w", "g"} {
				if av, ok := it[a]; ok && av != nil {
					s += a + "="
					if av.S != nil {
						s += "S:" + *av.S
					}
					if av.N != nil {
						s += "N:" + *av.N
					}
					s += ";"
				}
			}
			s += "#" + nd.Itoa(int64(len(it))) + "}"
		}
		return s
	}
	out := ""
	b, err := c.Scan(&dynamodb.ScanInput{TableName: aws.String(vTbl)})
	nd.Assert(err == nil, "observe-scan")
	if err == nil {
		out += "base:" + render(b.Items)
	}
	i, err := c.Scan(&dynamodb.ScanInput{TableName: aws.String(vTbl), IndexName: aws.String("idx")})
	nd.Assert(err == nil, "observe-index-scan")
	if err == nil {
		out += "|index:" + render(i.Items)
	}
	d, err := c.DescribeTable(&dynamodb.DescribeTableInput{TableName: aws.String(vTbl)})
	nd.Assert(err == nil, "observe-describe")
	if err == nil {
		out += "|n=" + nd.Itoa(aws.Int64Value(d.Table.ItemCount))
		for _, g := range d.Table.GlobalSecondaryIndexes {
			out += "|gsi=" + nd.Itoa(aws.Int64Value(g.ItemCount))
		}
	}
	return out
}

// VerifC08NoTraceV1: the SDK v1 twin of VerifC08NoTrace - a data request that returns an error (or aborts
// with the library's panic) leaves the table and its index exactly as they were.
func VerifC08NoTraceV1() {
	n := nd.Param("n", 1)
	c := vClient(false)
	nd.Assert(AddIndex(c, vTbl, "idx", "g", "") == nil, "setup-addindex")
	for i := 0; i < n; i++ {
		nm := "k" + string(rune('0'+i))
		it := vItem{"p": vS(nd.StringN(nm+".p", 1)), "v": vS(nd.StringN(nm+".v", 1))}
		if nd.Choice(nm+".hasg", 2) == 1 {
			it["g"] = vS(nd.StringN(nm+".g", 1))
		}
		_, err := c.PutItem(&dynamodb.PutItemInput{TableName: aws.String(vTbl), Item: it})
		nd.Assert(err == nil, "setup-put")
	}
	before := vObserveText(c)
	kp := nd.StringN("op.p", 1)
	x := nd.StringN("op.x", 1)
	tbl := aws.String(vTbl)
	reqs := []func() error{
		func() error { // a: key attribute missing
			_, e := c.PutItem(&dynamodb.PutItemInput{TableName: tbl, Item: vItem{"v": vS(x)}})
			return e
		},
		func() error { // b: key attribute of the wrong type
			_, e := c.PutItem(&dynamodb.PutItemInput{TableName: tbl, Item: vItem{"p": vN("1"), "v": vS(x)}})
			return e
		},
		func() error { // c: index key attribute of the wrong type, on Put
			_, e := c.PutItem(&dynamodb.PutItemInput{TableName: tbl, Item: vItem{"p": vS(kp), "v": vS(x), "g": vN("1")}})
			return e
		},
		func() error { // d: index key attribute of the wrong type, on Update
			_, e := c.UpdateItem(&dynamodb.UpdateItemInput{TableName: tbl, Key: vItem{"p": vS(kp)},
				UpdateExpression: aws.String("SET g = :n, v = :x"), ExpressionAttributeValues: vItem{":n": vN("1"), ":x": vS(x)}})
			return e
		},
		func() error { // e: malformed update expression
			_, e := c.UpdateItem(&dynamodb.UpdateItemInput{TableName: tbl, Key: vItem{"p": vS(kp)},
				UpdateExpression: aws.String("SET v = :x,"), ExpressionAttributeValues: vItem{":x": vS(x)}})
			return e
		},
		func() error { // f: ill-typed update: the second action fails after the first was evaluated
			_, e := c.UpdateItem(&dynamodb.UpdateItemInput{TableName: tbl, Key: vItem{"p": vS(kp)},
				UpdateExpression: aws.String("SET w = :x ADD v :x"), ExpressionAttributeValues: vItem{":x": vS(x)}})
			return e
		},
		func() error { // g: unknown table
			_, e := c.PutItem(&dynamodb.PutItemInput{TableName: aws.String("nope"), Item: vItem{"p": vS(kp), "v": vS(x)}})
			return e
		},
		func() error { // h: false condition on Put
			_, e := c.PutItem(&dynamodb.PutItemInput{TableName: tbl, Item: vItem{"p": vS(kp), "v": vS(x)},
				ConditionExpression: aws.String("attribute_exists(nosuch)")})
			return e
		},
		func() error { // i: false condition on Update
			_, e := c.UpdateItem(&dynamodb.UpdateItemInput{TableName: tbl, Key: vItem{"p": vS(kp)},
				UpdateExpression: aws.String("SET v = :x"), ConditionExpression: aws.String("attribute_exists(nosuch)"), ExpressionAttributeValues: vItem{":x": vS(x)}})
			return e
		},
		func() error { // j: false condition on Delete
			_, e := c.DeleteItem(&dynamodb.DeleteItemInput{TableName: tbl, Key: vItem{"p": vS(kp)},
				ConditionExpression: aws.String("attribute_exists(nosuch)")})
			return e
		},
		func() error { // k: unused placeholder
			_, e := c.PutItem(&dynamodb.PutItemInput{TableName: tbl, Item: vItem{"p": vS(kp), "v": vS(x)},
				ConditionExpression: aws.String("attribute_not_exists(nosuch)"), ExpressionAttributeValues: vItem{":unused": vS(x)}})
			return e
		},
		func() error { // l: update that removes the key attribute, after a valid first action
			_, e := c.UpdateItem(&dynamodb.UpdateItemInput{TableName: tbl, Key: vItem{"p": vS(kp)},
				UpdateExpression: aws.String("SET v = :x REMOVE p"), ExpressionAttributeValues: vItem{":x": vS(x)}})
			return e
		},
		func() error { // m: batch whose second request is neither a put nor a delete
			_, e := c.BatchWriteItem(&dynamodb.BatchWriteItemInput{RequestItems: map[string][]*dynamodb.WriteRequest{vTbl: {
				{PutRequest: &dynamodb.PutRequest{Item: vItem{"p": vS(kp), "v": vS(x)}}}, {}}}})
			return e
		},
		func() error { // n: batch whose second request is both a put and a delete
			_, e := c.BatchWriteItem(&dynamodb.BatchWriteItemInput{RequestItems: map[string][]*dynamodb.WriteRequest{vTbl: {
				{DeleteRequest: &dynamodb.DeleteRequest{Key: vItem{"p": vS(kp)}}},
				{PutRequest: &dynamodb.PutRequest{Item: vItem{"p": vS("zz")}}, DeleteRequest: &dynamodb.DeleteRequest{Key: vItem{"p": vS("zz")}}}}}})
			return e
		},
		func() error { // o: delete with a key of the wrong type
			_, e := c.DeleteItem(&dynamodb.DeleteItemInput{TableName: tbl, Key: vItem{"p": vN("1")}})
			return e
		},
	}
	which := nd.Choice("request", len(reqs))
	err, panicked := vCatch(reqs[which])
	if err != nil || panicked {
		nd.Reach("failed")
		after := vObserveText(c)
		nd.Assert(before == after, "C08v1-failed-request-leaves-no-trace [request "+string(rune('a'+which))+"]")
	} else {
		nd.Reach("succeeded")
	}
	nd.Reach("end")
}

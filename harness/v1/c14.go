//go:build verif

package client

import (
	"errors"
	"github.com/aws/aws-sdk-go/aws"
	"github.com/aws/aws-sdk-go/service/dynamodb"
	"github.com/truora/minidyn/internal/nd"
	"github.com/truora/minidyn/internal/vspec"
	ctypes "github.com/truora/minidyn/types"
)

// vPoke overwrites every mutable location reachable from av: pointer targets, slice elements, map entries.
func vPoke(av *dynamodb.AttributeValue) {
	if av == nil {
		return
	}
	if av.S != nil {
		*av.S += "!"
	}
	if av.N != nil {
		*av.N = "999"
	}
	for i := range av.B {
		av.B[i] ^= 0xff
	}
	if av.BOOL != nil {
		*av.BOOL = !*av.BOOL
	}
	if av.NULL != nil {
		*av.NULL = !*av.NULL
	}
	for _, e := range av.L {
		vPoke(e)
	}
	for i := range av.L {
		av.L[i] = vS("poked")
	}
	for _, e := range av.M {
		vPoke(e)
	}
	if av.M != nil {
		av.M["poked"] = vS("poked")
	}
	for i := range av.SS {
		if av.SS[i] != nil {
			*av.SS[i] += "!"
		}
		av.SS[i] = aws.String("poked")
	}
	for i := range av.NS {
		if av.NS[i] != nil {
			*av.NS[i] = "999"
		}
	}
	for i := range av.BS {
		for j := range av.BS[i] {
			av.BS[i][j] ^= 0xff
		}
	}
}

func vPokeItem(it vItem) {
	for _, av := range it {
		vPoke(av)
	}
	it["poked"] = vS("poked")
}

// VerifC14IsolationV1: the SDK v1 twin of VerifC14Isolation; v1 request and response types are trees of
// pointers, every pointer target is poked.
func VerifC14IsolationV1() {
	depth := nd.Param("depth", 1)
	c := vClient(false)
	v := vspec.GenTree("a", depth, nd.Param("width", 2))
	key := func() vItem { return vItem{"p": vS("k")} }
	same := func(it vItem, id string) {
		got, ok := it["a"]
		nd.Assert(len(it) == 2 && ok && vSameAV(v, got), id)
	}
	read := func(id string) vItem {
		out, err := c.GetItem(&dynamodb.GetItemInput{TableName: aws.String(vTbl), Key: key()})
		nd.Assert(err == nil, id+"-get-noerr")
		if err != nil {
			return vItem{}
		}
		same(out.Item, id)
		return out.Item
	}
	put := func(it vItem) {
		_, err := c.PutItem(&dynamodb.PutItemInput{TableName: aws.String(vTbl), Item: it})
		nd.Assert(err == nil, "C14v1-put-noerr")
	}
	scenario := nd.Choice("scenario", 8)
	switch scenario {
	case 7: // whatever a refused conditional write hands back (the error may carry the stored item) is the caller's
		put(vItem{"p": vS("k"), "a": vToAV(v)})
		var err error
		switch nd.Choice("refused-write", 3) {
		case 0:
			_, err = c.PutItem(&dynamodb.PutItemInput{TableName: aws.String(vTbl), Item: vItem{"p": vS("k"), "a": vS("other")},
				ConditionExpression: aws.String("attribute_not_exists(p)"), ReturnValues: aws.String("ALL_OLD")})
		case 1:
			_, err = c.UpdateItem(&dynamodb.UpdateItemInput{TableName: aws.String(vTbl), Key: key(), UpdateExpression: aws.String("SET z = :z"),
				ConditionExpression: aws.String("attribute_not_exists(p)"), ExpressionAttributeValues: vItem{":z": vS("z")}, ReturnValues: aws.String("ALL_OLD")})
		case 2:
			_, err = c.DeleteItem(&dynamodb.DeleteItemInput{TableName: aws.String(vTbl), Key: key(),
				ConditionExpression: aws.String("attribute_not_exists(p)"), ReturnValues: aws.String("ALL_OLD")})
		}
		var ccf *ctypes.ConditionalCheckFailedException
		nd.Assert(err != nil, "C14v1-conditional-failure")
		if errors.As(err, &ccf) && ccf.Item != nil {
			nd.Reach("failure-carries-item")
			for _, it := range ccf.Item {
				vPokeCore(it)
			}
			ccf.Item["poked"] = &ctypes.Item{S: aws.String("poked")}
			delete(ccf.Item, "a")
		}
		read("C14v1-failure-item-not-shared")
	case 0:
		in := vItem{"p": vS("k"), "a": vToAV(v)}
		put(in)
		vPokeItem(in)
		read("C14v1-put-input-not-shared")
	case 1:
		put(vItem{"p": vS("k")})
		vals := vItem{":a": vToAV(v)}
		_, err := c.UpdateItem(&dynamodb.UpdateItemInput{TableName: aws.String(vTbl), Key: key(), UpdateExpression: aws.String("SET a = :a"), ExpressionAttributeValues: vals})
		nd.Assert(err == nil, "C14v1-update-noerr")
		vPokeItem(vals)
		read("C14v1-update-input-not-shared")
	default:
		put(vItem{"p": vS("k"), "a": vToAV(v)})
		switch scenario {
		case 2:
			vPokeItem(read("C14v1-get"))
			read("C14v1-get-output-not-shared")
		case 3:
			q, err := c.Query(&dynamodb.QueryInput{TableName: aws.String(vTbl), KeyConditionExpression: aws.String("p = :p"), ExpressionAttributeValues: vItem{":p": vS("k")}})
			nd.Assert(err == nil && len(q.Items) == 1, "C14v1-query-noerr")
			if err == nil && len(q.Items) == 1 {
				vPokeItem(q.Items[0])
			}
			read("C14v1-query-output-not-shared")
		case 4:
			s, err := c.Scan(&dynamodb.ScanInput{TableName: aws.String(vTbl)})
			nd.Assert(err == nil && len(s.Items) == 1, "C14v1-scan-noerr")
			if err == nil && len(s.Items) == 1 {
				vPokeItem(s.Items[0])
			}
			read("C14v1-scan-output-not-shared")
		case 5:
			out, err := c.UpdateItem(&dynamodb.UpdateItemInput{TableName: aws.String(vTbl), Key: key(), UpdateExpression: aws.String("SET z = :z"),
				ExpressionAttributeValues: vItem{":z": vS("z")}, ReturnValues: aws.String("ALL_NEW")})
			nd.Assert(err == nil, "C14v1-update-noerr")
			if err == nil {
				vPokeItem(out.Attributes)
			}
			g, gerr := c.GetItem(&dynamodb.GetItemInput{TableName: aws.String(vTbl), Key: key()})
			nd.Assert(gerr == nil, "C14v1-get-noerr")
			if gerr == nil {
				got, ok := g.Item["a"]
				nd.Assert(ok && vSameAV(v, got), "C14v1-update-output-not-shared")
			}
		case 6:
			g := read("C14v1-get")
			put(vItem{"p": vS("k"), "a": vS("other"), "b": vS("b")})
			_, err := c.UpdateItem(&dynamodb.UpdateItemInput{TableName: aws.String(vTbl), Key: key(), UpdateExpression: aws.String("SET a = :z"), ExpressionAttributeValues: vItem{":z": vS("z")}})
			nd.Assert(err == nil, "C14v1-update-noerr")
			_, err = c.DeleteItem(&dynamodb.DeleteItemInput{TableName: aws.String(vTbl), Key: key()})
			nd.Assert(err == nil, "C14v1-delete-noerr")
			same(g, "C14v1-returned-result-unchanged-by-later-writes")
		}
	}
	nd.Reach("end")
}

// VerifC14KeyInputsV1: the SDK v1 twin of VerifC14KeyInputs: the Key and the expression values of an UpdateItem
// are trees of caller-owned pointers; poking every pointer target after the call changes nothing a later read
// returns, whether the update was applied by the built-in interpreter or by a registered native updater, on a
// created and on an updated item.
func VerifC14KeyInputsV1() {
	c := vClient(false)
	v := vspec.GenTree("a", 0, 1)
	native := nd.Choice("native-updater", 2) == 1
	if native {
		nd.Reach("native-updater")
		c.ActivateNativeInterpreter()
		c.GetNativeInterpreter().AddUpdater(vTbl, "SET a = :a", func(item, attrs map[string]*ctypes.Item) { item["a"] = attrs[":a"] })
	}
	if nd.Choice("item-present", 2) == 1 {
		_, err := c.PutItem(&dynamodb.PutItemInput{TableName: aws.String(vTbl), Item: vItem{"p": vS("k"), "z": vS("z")}})
		nd.Assert(err == nil, "C14v1-put-noerr")
	} else {
		nd.Reach("created-by-update")
	}
	key := vItem{"p": vS("k")}
	vals := vItem{":a": vToAV(v)}
	out, err := c.UpdateItem(&dynamodb.UpdateItemInput{TableName: aws.String(vTbl), Key: key, UpdateExpression: aws.String("SET a = :a"),
		ExpressionAttributeValues: vals, ReturnValues: aws.String("ALL_NEW")})
	nd.Assert(err == nil, "C14v1-update-noerr")
	vPokeItem(key)
	vPokeItem(vals)
	if err == nil {
		vPokeItem(out.Attributes)
	}
	g, gerr := c.GetItem(&dynamodb.GetItemInput{TableName: aws.String(vTbl), Key: vItem{"p": vS("k")}})
	nd.Assert(gerr == nil, "C14v1-get-noerr")
	if gerr == nil {
		got, ok := g.Item["a"]
		nd.Assert(g.Item["p"] != nil && g.Item["p"].S != nil && *g.Item["p"].S == "k" && ok && vSameAV(v, got), "C14v1-update-key-and-values-not-shared")
	}
	s, serr := c.Scan(&dynamodb.ScanInput{TableName: aws.String(vTbl)})
	nd.Assert(serr == nil && len(s.Items) == 1, "C14v1-one-item")
	if serr == nil && len(s.Items) == 1 {
		nd.Assert(s.Items[0]["p"] != nil && s.Items[0]["p"].S != nil && *s.Items[0]["p"].S == "k", "C14v1-stored-key-not-shared")
	}
	nd.Reach("end")
}

// vPokeCore overwrites every mutable location reachable from a core attribute value.
func vPokeCore(it *ctypes.Item) {
	if it == nil {
		return
	}
	if it.S != nil {
		*it.S += "!"
	}
	if it.N != nil {
		*it.N = "999"
	}
	for i := range it.B {
		it.B[i] ^= 0xff
	}
	if it.BOOL != nil {
		*it.BOOL = !*it.BOOL
	}
	if it.NULL != nil {
		*it.NULL = !*it.NULL
	}
	for _, e := range it.L {
		vPokeCore(e)
	}
	for i := range it.L {
		it.L[i] = &ctypes.Item{S: aws.String("poked")}
	}
	for _, e := range it.M {
		vPokeCore(e)
	}
	if it.M != nil {
		it.M["poked"] = &ctypes.Item{S: aws.String("poked")}
	}
	for i := range it.SS {
		if it.SS[i] != nil {
			*it.SS[i] += "!"
		}
	}
	for i := range it.NS {
		if it.NS[i] != nil {
			*it.NS[i] = "999"
		}
	}
	for i := range it.BS {
		for j := range it.BS[i] {
			it.BS[i][j] ^= 0xff
		}
	}
}

//go:build verif

package client

import (
	"errors"
	"strconv"

	"github.com/aws/aws-sdk-go/aws"
	"github.com/aws/aws-sdk-go/aws/awserr"
	"github.com/aws/aws-sdk-go/service/dynamodb"
	"github.com/truora/minidyn/internal/nd"
	"github.com/truora/minidyn/internal/vspec"
)

const vTbl = "tbl"

type vItem = map[string]*dynamodb.AttributeValue

func vS(s string) *dynamodb.AttributeValue { return &dynamodb.AttributeValue{S: aws.String(s)} }

func vClient(withRange bool) *Client {
	c := NewClient()
	r := ""
	if withRange {
		r = "s"
	}
	nd.Assert(AddTable(c, vTbl, "p", r) == nil, "setup-addtable")
	return c
}

func vErrCode(err error) string {
	if err == nil {
		return ""
	}
	var ae awserr.Error
	if errors.As(err, &ae) {
		return ae.Code()
	}
	var ce interface{ Code() string }
	if errors.As(err, &ce) {
		return ce.Code()
	}
	return "other"
}

func vCatch(f func() error) (err error, panicked bool) {
	defer func() {
		if r := recover(); r != nil {
			panicked = true
			if e, ok := r.(error); ok {
				err = e
			} else {
				err = errors.New("panic")
			}
		}
	}()
	return f(), false
}

// vToAV renders a reference value in the SDK v1 representation.
func vToAV(v vspec.Val) *dynamodb.AttributeValue {
	switch v.Kind {
	case "S":
		return &dynamodb.AttributeValue{S: aws.String(v.S)}
	case "N":
		t := v.NTxt
		if t == "" {
			t = nd.Itoa(v.N)
		}
		return &dynamodb.AttributeValue{N: aws.String(t)}
	case "B":
		return &dynamodb.AttributeValue{B: append([]byte{}, v.B...)}
	case "BOOL":
		return &dynamodb.AttributeValue{BOOL: aws.Bool(v.Bool)}
	case "NULL":
		return &dynamodb.AttributeValue{NULL: aws.Bool(true)}
	case "L":
		l := []*dynamodb.AttributeValue{}
		for _, x := range v.L {
			l = append(l, vToAV(x))
		}
		return &dynamodb.AttributeValue{L: l}
	case "M":
		m := map[string]*dynamodb.AttributeValue{}
		for k, x := range v.M {
			m[k] = vToAV(x)
		}
		return &dynamodb.AttributeValue{M: m}
	case "SS":
		ss := []*string{}
		for _, s := range v.SS {
			ss = append(ss, aws.String(s))
		}
		return &dynamodb.AttributeValue{SS: ss}
	case "NS":
		ns := []*string{}
		for _, n := range v.NS {
			ns = append(ns, aws.String(nd.Itoa(n)))
		}
		return &dynamodb.AttributeValue{NS: ns}
	case "BS":
		bs := [][]byte{}
		for _, b := range v.BS {
			bs = append(bs, append([]byte{}, b...))
		}
		return &dynamodb.AttributeValue{BS: bs}
	}
	panic("vToAV")
}

func vNumIs(text string, want int64) bool {
	f, err := strconv.ParseFloat(text, 64)
	return err == nil && f == float64(want)
}

func vBytesEq(a, b []byte) bool {
	if len(a) != len(b) {
		return false
	}
	for i := range a {
		if a[i] != b[i] {
			return false
		}
	}
	return true
}

func vKindOfAV(av *dynamodb.AttributeValue) string {
	k, n := "", 0
	set := func(c bool, name string) {
		if c {
			k = name
			n++
		}
	}
	set(av.S != nil, "S")
	set(av.N != nil, "N")
	set(av.B != nil, "B")
	set(av.BOOL != nil, "BOOL")
	set(av.NULL != nil, "NULL")
	set(av.L != nil, "L")
	set(av.M != nil, "M")
	set(av.SS != nil, "SS")
	set(av.NS != nil, "NS")
	set(av.BS != nil, "BS")
	if n != 1 {
		return ""
	}
	return k
}

// vSameAV: the SDK value has the reference value's type and value (sets as sets, numbers numerically).
func vSameAV(v vspec.Val, av *dynamodb.AttributeValue) bool {
	if av == nil || vKindOfAV(av) != v.Kind {
		return false
	}
	switch v.Kind {
	case "S":
		return *av.S == v.S
	case "N":
		return v.NTxt == "" && vNumIs(*av.N, v.N) || v.NTxt != "" && vspec.SameNumeral(*av.N, v.NTxt)
	case "B":
		return vBytesEq(av.B, v.B)
	case "BOOL":
		return *av.BOOL == v.Bool
	case "NULL":
		return *av.NULL
	case "L":
		if len(av.L) != len(v.L) {
			return false
		}
		for i := range v.L {
			if !vSameAV(v.L[i], av.L[i]) {
				return false
			}
		}
		return true
	case "M":
		if len(av.M) != len(v.M) {
			return false
		}
		for k, w := range v.M {
			y, ok := av.M[k]
			if !ok || !vSameAV(w, y) {
				return false
			}
		}
		return true
	case "SS":
		if len(av.SS) != len(v.SS) {
			return false
		}
		for _, s := range v.SS {
			f := false
			for _, g := range av.SS {
				if g != nil && *g == s {
					f = true
				}
			}
			if !f {
				return false
			}
		}
		return true
	case "NS":
		if len(av.NS) != len(v.NS) {
			return false
		}
		for _, n := range v.NS {
			f := false
			for _, g := range av.NS {
				if g != nil && vNumIs(*g, n) {
					f = true
				}
			}
			if !f {
				return false
			}
		}
		return true
	case "BS":
		if len(av.BS) != len(v.BS) {
			return false
		}
		for _, b := range v.BS {
			f := false
			for _, g := range av.BS {
				if vBytesEq(g, b) {
					f = true
				}
			}
			if !f {
				return false
			}
		}
		return true
	}
	return false
}

//go:build verif

package vboth

import (
	"errors"

	aws2 "github.com/aws/aws-sdk-go-v2/aws"
	ddb2 "github.com/aws/aws-sdk-go-v2/service/dynamodb"
	types2 "github.com/aws/aws-sdk-go-v2/service/dynamodb/types"
	aws1 "github.com/aws/aws-sdk-go/aws"
	ddb1 "github.com/aws/aws-sdk-go/service/dynamodb"
	v1 "github.com/truora/minidyn/aws-v1/client"
	v2 "github.com/truora/minidyn/aws-v2/client"
	"github.com/truora/minidyn/internal/nd"
	"github.com/truora/minidyn/internal/vspec"
	mtypes "github.com/truora/minidyn/types"
)

func s1(s string) *ddb1.AttributeValue  { return to1(vspec.Val{Kind: "S", S: s}) }
func s2(s string) types2.AttributeValue { return to2(vspec.Val{Kind: "S", S: s}) }

// VerifC17Reads: the same read request - Query or Scan, on the table or through an index, with every
// combination of sort-key condition, filter, direction and Limit - issued through both clients over the
// same contents returns the same page (items in the same order, Count, ScannedCount, LastEvaluatedKey),
// and following LastEvaluatedKey page by page stays in step until both sides end.
func VerifC17Reads() {
	n := nd.Param("n", 2)
	c1, c2 := v1.NewClient(), v2.NewClient()
	e1, e2 := v1.AddTable(c1, tbl, "p", "s"), v2.AddTable(ctx, c2, tbl, "p", "s")
	nd.Assert(e1 == nil && e2 == nil, "C17r-create")
	e1, e2 = v1.AddIndex(c1, tbl, "idx", "g", "h"), v2.AddIndex(ctx, c2, tbl, "idx", "g", "h")
	nd.Assert(e1 == nil && e2 == nil, "C17r-addindex")
	sorts := []string{}
	for i := 0; i < n; i++ {
		nm := "i" + string(rune('0'+i))
		s := nd.StringN(nm+".s", 1)
		for _, o := range sorts {
			nd.Assume(o != s)
		}
		sorts = append(sorts, s)
		f := nd.StringN(nm+".f", 1)
		a, b := item1{"p": s1("k"), "s": s1(s), "f": s1(f)}, item2{"p": s2("k"), "s": s2(s), "f": s2(f)}
		if nd.Bool(nm + ".indexed") {
			h := nd.StringN(nm+".h", 1)
			a["g"], a["h"], b["g"], b["h"] = s1("k"), s1(h), s2("k"), s2(h)
		}
		_, p1 := c1.PutItem(&ddb1.PutItemInput{TableName: aws1.String(tbl), Item: a})
		_, p2 := c2.PutItem(ctx, &ddb2.PutItemInput{TableName: aws2.String(tbl), Item: b})
		nd.Assert(p1 == nil && p2 == nil, "C17r-load")
	}
	onIndex := nd.Choice("index", 2) == 1
	P, S := "p", "s"
	if onIndex {
		P, S = "g", "h"
	}
	vals1, vals2 := item1{}, item2{}
	setv := func(name, s string) { vals1[name], vals2[name] = s1(s), s2(s) }
	filter := ""
	switch nd.Choice("filter", nd.Param("filters", 5)) {
	case 1:
		filter = "f = :f"
		setv(":f", nd.StringN("fv", 1))
	case 2:
		filter = "f <> :f"
		setv(":f", nd.StringN("fv", 1))
	case 3:
		filter = "attribute_exists(g)"
	case 4:
		filter = "NOT contains(f, :f)"
		setv(":f", nd.StringN("fv", 1))
	}
	limit := nd.Choice("limit", 3)
	isQuery := nd.Choice("query", 2) == 1
	keyCond := ""
	forward := true
	if isQuery {
		setv(":p", "k")
		switch nd.Choice("keycond", nd.Param("keyconds", 5)) {
		case 0:
			keyCond = P + " = :p"
		case 1:
			keyCond = P + " = :p AND " + S + " BETWEEN :a AND :b"
			setv(":a", nd.StringN("a", 1))
			setv(":b", nd.StringN("b", 1))
		case 2:
			keyCond = P + " = :p AND " + S + " < :a"
			setv(":a", nd.StringN("a", 1))
		case 3:
			keyCond = P + " = :p AND " + S + " >= :a"
			setv(":a", nd.StringN("a", 1))
		case 4:
			keyCond = P + " = :p AND begins_with(" + S + ", :a)"
			setv(":a", nd.StringN("a", 1))
		}
		forward = nd.Bool("forward")
	}
	// a projection (names through a placeholder used nowhere else, or written out) on the plain requests
	proj := ""
	var names1 map[string]*string
	var names2 map[string]string
	if filter == "" && limit == 0 {
		switch nd.Choice("projection", 3) {
		case 1:
			proj = "#a, s"
			names1, names2 = map[string]*string{"#a": aws1.String("f")}, map[string]string{"#a": "f"}
		case 2:
			proj = "f"
		}
	}
	var esk1 item1
	var esk2 item2
	for page := 0; page <= n+1; page++ {
		var items1 []item1
		var items2 []item2
		var lek1 item1
		var lek2 item2
		var cnt1, cnt2, sc1, sc2 int64
		var err1, err2 error
		if isQuery {
			in1 := &ddb1.QueryInput{TableName: aws1.String(tbl), KeyConditionExpression: aws1.String(keyCond), ExpressionAttributeValues: vals1, ScanIndexForward: aws1.Bool(forward), ExclusiveStartKey: esk1}
			in2 := &ddb2.QueryInput{TableName: aws2.String(tbl), KeyConditionExpression: aws2.String(keyCond), ExpressionAttributeValues: vals2, ScanIndexForward: aws2.Bool(forward), ExclusiveStartKey: esk2}
			if filter != "" {
				in1.FilterExpression, in2.FilterExpression = aws1.String(filter), aws2.String(filter)
			}
			if onIndex {
				in1.IndexName, in2.IndexName = aws1.String("idx"), aws2.String("idx")
			}
			if limit > 0 {
				in1.Limit, in2.Limit = aws1.Int64(int64(limit)), aws2.Int32(int32(limit))
			}
			if proj != "" {
				in1.ProjectionExpression, in2.ProjectionExpression = aws1.String(proj), aws2.String(proj)
				in1.ExpressionAttributeNames, in2.ExpressionAttributeNames = names1, names2
			}
			err1 = catch(func() error {
				o, e := c1.Query(in1)
				if e == nil {
					items1, lek1, cnt1, sc1 = o.Items, o.LastEvaluatedKey, aws1.Int64Value(o.Count), aws1.Int64Value(o.ScannedCount)
				}
				return e
			})
			err2 = catch(func() error {
				o, e := c2.Query(ctx, in2)
				if e == nil {
					items2, lek2, cnt2, sc2 = o.Items, o.LastEvaluatedKey, int64(o.Count), int64(o.ScannedCount)
				}
				return e
			})
		} else {
			in1 := &ddb1.ScanInput{TableName: aws1.String(tbl), ExclusiveStartKey: esk1}
			in2 := &ddb2.ScanInput{TableName: aws2.String(tbl), ExclusiveStartKey: esk2}
			if len(vals1) > 0 {
				in1.ExpressionAttributeValues, in2.ExpressionAttributeValues = vals1, vals2
			}
			if filter != "" {
				in1.FilterExpression, in2.FilterExpression = aws1.String(filter), aws2.String(filter)
			}
			if onIndex {
				in1.IndexName, in2.IndexName = aws1.String("idx"), aws2.String("idx")
			}
			if limit > 0 {
				in1.Limit, in2.Limit = aws1.Int64(int64(limit)), aws2.Int32(int32(limit))
			}
			if proj != "" {
				in1.ProjectionExpression, in2.ProjectionExpression = aws1.String(proj), aws2.String(proj)
				in1.ExpressionAttributeNames, in2.ExpressionAttributeNames = names1, names2
			}
			err1 = catch(func() error {
				o, e := c1.Scan(in1)
				if e == nil {
					items1, lek1, cnt1, sc1 = o.Items, o.LastEvaluatedKey, aws1.Int64Value(o.Count), aws1.Int64Value(o.ScannedCount)
				}
				return e
			})
			err2 = catch(func() error {
				o, e := c2.Scan(ctx, in2)
				if e == nil {
					items2, lek2, cnt2, sc2 = o.Items, o.LastEvaluatedKey, int64(o.Count), int64(o.ScannedCount)
				}
				return e
			})
		}
		nd.Assert(class1(err1) == class2(err2), "C17r-same-error-class")
		if err1 != nil || err2 != nil {
			break
		}
		nd.Assert(sameItems(items1, items2), "C17r-same-items-in-same-order")
		nd.Assert(cnt1 == cnt2, "C17r-same-count")
		nd.Assert(sc1 == sc2, "C17r-same-scanned-count")
		nd.Assert(sameItem(lek1, lek2), "C17r-same-last-evaluated-key")
		if len(lek1) == 0 || len(lek2) == 0 {
			break
		}
		nd.Reach("second-page")
		esk1, esk2 = lek1, lek2
	}
	nd.Reach("end")
}

// describe1 / describe2 summarise a table description as comparable text.
func describe1(c *v1.Client, name string) (string, error) {
	o, err := c.DescribeTable(&ddb1.DescribeTableInput{TableName: aws1.String(name)})
	if err != nil {
		return "", err
	}
	s := aws1.StringValue(o.Table.TableName) + "|n=" + nd.Itoa(aws1.Int64Value(o.Table.ItemCount)) + "|keys="
	for _, k := range o.Table.KeySchema {
		s += aws1.StringValue(k.AttributeName) + ":" + aws1.StringValue(k.KeyType) + ","
	}
	s += "|gsi="
	for _, want := range []string{"gsi", "late"} {
		for _, g := range o.Table.GlobalSecondaryIndexes {
			if aws1.StringValue(g.IndexName) != want {
				continue
			}
			s += want + "(" + nd.Itoa(aws1.Int64Value(g.ItemCount)) + ";"
			for _, k := range g.KeySchema {
				s += aws1.StringValue(k.AttributeName) + ":" + aws1.StringValue(k.KeyType) + ","
			}
			if g.Projection != nil {
				s += ";" + aws1.StringValue(g.Projection.ProjectionType)
			}
			s += ")"
		}
	}
	s += "|ngsi=" + nd.Itoa(int64(len(o.Table.GlobalSecondaryIndexes))) + "|lsi="
	for _, g := range o.Table.LocalSecondaryIndexes {
		s += aws1.StringValue(g.IndexName) + "(" + nd.Itoa(aws1.Int64Value(g.ItemCount)) + ";"
		for _, k := range g.KeySchema {
			s += aws1.StringValue(k.AttributeName) + ":" + aws1.StringValue(k.KeyType) + ","
		}
		if g.Projection != nil {
			s += ";" + aws1.StringValue(g.Projection.ProjectionType)
		}
		s += ")"
	}
	return s, nil
}

func describe2(c *v2.Client, name string) (string, error) {
	o, err := c.DescribeTable(ctx, &ddb2.DescribeTableInput{TableName: aws2.String(name)})
	if err != nil {
		return "", err
	}
	s := aws2.ToString(o.Table.TableName) + "|n=" + nd.Itoa(aws2.ToInt64(o.Table.ItemCount)) + "|keys="
	for _, k := range o.Table.KeySchema {
		s += aws2.ToString(k.AttributeName) + ":" + string(k.KeyType) + ","
	}
	s += "|gsi="
	for _, want := range []string{"gsi", "late"} {
		for _, g := range o.Table.GlobalSecondaryIndexes {
			if aws2.ToString(g.IndexName) != want {
				continue
			}
			s += want + "(" + nd.Itoa(aws2.ToInt64(g.ItemCount)) + ";"
			for _, k := range g.KeySchema {
				s += aws2.ToString(k.AttributeName) + ":" + string(k.KeyType) + ","
			}
			if g.Projection != nil {
				s += ";" + string(g.Projection.ProjectionType)
			}
			s += ")"
		}
	}
	s += "|ngsi=" + nd.Itoa(int64(len(o.Table.GlobalSecondaryIndexes))) + "|lsi="
	for _, g := range o.Table.LocalSecondaryIndexes {
		s += aws2.ToString(g.IndexName) + "(" + nd.Itoa(aws2.ToInt64(g.ItemCount)) + ";"
		for _, k := range g.KeySchema {
			s += aws2.ToString(k.AttributeName) + ":" + string(k.KeyType) + ","
		}
		if g.Projection != nil {
			s += ";" + string(g.Projection.ProjectionType)
		}
		s += ")"
	}
	return s, nil
}

// VerifC17Catalogue: table management issued through both clients - CreateTable in every configuration
// (key schema, billing mode, GSI, LSI), UpdateTable creating and deleting an index, AddIndex, DeleteTable,
// ClearTable, writes - has the same outcome class at every step and leaves the same DescribeTable summary,
// the same table contents and the same index contents.
func VerifC17Catalogue() {
	k := nd.Param("k", 2)
	c1, c2 := v1.NewClient(), v2.NewClient()
	if nd.Param("rich", 1) == 1 && nd.Choice("start", 2) == 1 {
		// a reachable starting point with two global indexes of different shape (on g, and on g + h): an item that
		// has g but no h belongs to one of them only, so the two indexes report different item counts
		nd.Reach("rich-start")
		nd.Assert(v1.AddTable(c1, tbl, "p", "") == nil && v2.AddTable(ctx, c2, tbl, "p", "") == nil, "C17c-start-create")
		nd.Assert(v1.AddIndex(c1, tbl, "gsi", "g", "") == nil && v2.AddIndex(ctx, c2, tbl, "gsi", "g", "") == nil, "C17c-start-addindex")
		nd.Assert(v1.AddIndex(c1, tbl, "late", "g", "h") == nil && v2.AddIndex(ctx, c2, tbl, "late", "g", "h") == nil, "C17c-start-addindex2")
	}
	for step := 0; step < k; step++ {
		nm := "s" + string(rune('0'+step))
		var err1, err2 error
		id := "C17c"
		switch nd.Choice("op", 10) {
		case 8: // UpdateTable that only declares an attribute (no index update)
			err1 = catch(func() error {
				_, e := c1.UpdateTable(&ddb1.UpdateTableInput{TableName: aws1.String(tbl), AttributeDefinitions: []*ddb1.AttributeDefinition{{AttributeName: aws1.String("d"), AttributeType: aws1.String("S")}}})
				return e
			})
			err2 = catch(func() error {
				_, e := c2.UpdateTable(ctx, &ddb2.UpdateTableInput{TableName: aws2.String(tbl), AttributeDefinitions: []types2.AttributeDefinition{{AttributeName: aws2.String("d"), AttributeType: types2.ScalarAttributeTypeS}}})
				return e
			})
			id = "C17c-declare-attribute"
		case 9: // UpdateTable that creates an index on d without declaring d in the same request
			err1 = catch(func() error {
				_, e := c1.UpdateTable(&ddb1.UpdateTableInput{TableName: aws1.String(tbl), GlobalSecondaryIndexUpdates: []*ddb1.GlobalSecondaryIndexUpdate{{
					Create: &ddb1.CreateGlobalSecondaryIndexAction{IndexName: aws1.String("dix"), KeySchema: []*ddb1.KeySchemaElement{{AttributeName: aws1.String("d"), KeyType: aws1.String("HASH")}},
						Projection: &ddb1.Projection{ProjectionType: aws1.String("ALL")}}}}})
				return e
			})
			err2 = catch(func() error {
				_, e := c2.UpdateTable(ctx, &ddb2.UpdateTableInput{TableName: aws2.String(tbl), GlobalSecondaryIndexUpdates: []types2.GlobalSecondaryIndexUpdate{{
					Create: &types2.CreateGlobalSecondaryIndexAction{IndexName: aws2.String("dix"), KeySchema: []types2.KeySchemaElement{{AttributeName: aws2.String("d"), KeyType: types2.KeyTypeHash}},
						Projection: &types2.Projection{ProjectionType: types2.ProjectionTypeAll}}}}})
				return e
			})
			id = "C17c-create-index-on-declared-attribute"
		case 0: // CreateTable
			withRange, withGSI, withLSI := nd.Bool(nm+".range"), nd.Bool(nm+".gsi"), nd.Bool(nm+".lsi")
			billing := nd.Choice(nm+".billing", 3)
			in1 := &ddb1.CreateTableInput{TableName: aws1.String(tbl),
				AttributeDefinitions: []*ddb1.AttributeDefinition{{AttributeName: aws1.String("p"), AttributeType: aws1.String("S")}},
				KeySchema:            []*ddb1.KeySchemaElement{{AttributeName: aws1.String("p"), KeyType: aws1.String("HASH")}}}
			in2 := &ddb2.CreateTableInput{TableName: aws2.String(tbl),
				AttributeDefinitions: []types2.AttributeDefinition{{AttributeName: aws2.String("p"), AttributeType: types2.ScalarAttributeTypeS}},
				KeySchema:            []types2.KeySchemaElement{{AttributeName: aws2.String("p"), KeyType: types2.KeyTypeHash}}}
			if withRange {
				in1.AttributeDefinitions = append(in1.AttributeDefinitions, &ddb1.AttributeDefinition{AttributeName: aws1.String("s"), AttributeType: aws1.String("S")})
				in1.KeySchema = append(in1.KeySchema, &ddb1.KeySchemaElement{AttributeName: aws1.String("s"), KeyType: aws1.String("RANGE")})
				in2.AttributeDefinitions = append(in2.AttributeDefinitions, types2.AttributeDefinition{AttributeName: aws2.String("s"), AttributeType: types2.ScalarAttributeTypeS})
				in2.KeySchema = append(in2.KeySchema, types2.KeySchemaElement{AttributeName: aws2.String("s"), KeyType: types2.KeyTypeRange})
			}
			switch billing {
			case 0:
				in1.BillingMode, in2.BillingMode = aws1.String("PAY_PER_REQUEST"), types2.BillingModePayPerRequest
			case 1:
				in1.BillingMode, in2.BillingMode = aws1.String("PROVISIONED"), types2.BillingModeProvisioned
				in1.ProvisionedThroughput = &ddb1.ProvisionedThroughput{ReadCapacityUnits: aws1.Int64(1), WriteCapacityUnits: aws1.Int64(1)}
				in2.ProvisionedThroughput = &types2.ProvisionedThroughput{ReadCapacityUnits: aws2.Int64(1), WriteCapacityUnits: aws2.Int64(1)}
			case 2: // provisioned without throughput
				in1.BillingMode, in2.BillingMode = aws1.String("PROVISIONED"), types2.BillingModeProvisioned
			}
			if withGSI || withLSI {
				in1.AttributeDefinitions = append(in1.AttributeDefinitions, &ddb1.AttributeDefinition{AttributeName: aws1.String("g"), AttributeType: aws1.String("S")})
				in2.AttributeDefinitions = append(in2.AttributeDefinitions, types2.AttributeDefinition{AttributeName: aws2.String("g"), AttributeType: types2.ScalarAttributeTypeS})
			}
			if withGSI {
				in1.GlobalSecondaryIndexes = []*ddb1.GlobalSecondaryIndex{{IndexName: aws1.String("gsi"),
					KeySchema:  []*ddb1.KeySchemaElement{{AttributeName: aws1.String("g"), KeyType: aws1.String("HASH")}},
					Projection: &ddb1.Projection{ProjectionType: aws1.String("ALL")}, ProvisionedThroughput: in1.ProvisionedThroughput}}
				in2.GlobalSecondaryIndexes = []types2.GlobalSecondaryIndex{{IndexName: aws2.String("gsi"),
					KeySchema:  []types2.KeySchemaElement{{AttributeName: aws2.String("g"), KeyType: types2.KeyTypeHash}},
					Projection: &types2.Projection{ProjectionType: types2.ProjectionTypeAll}, ProvisionedThroughput: in2.ProvisionedThroughput}}
			}
			if withLSI {
				in1.LocalSecondaryIndexes = []*ddb1.LocalSecondaryIndex{{IndexName: aws1.String("lsi"),
					KeySchema:  []*ddb1.KeySchemaElement{{AttributeName: aws1.String("p"), KeyType: aws1.String("HASH")}, {AttributeName: aws1.String("g"), KeyType: aws1.String("RANGE")}},
					Projection: &ddb1.Projection{ProjectionType: aws1.String("ALL")}}}
				in2.LocalSecondaryIndexes = []types2.LocalSecondaryIndex{{IndexName: aws2.String("lsi"),
					KeySchema:  []types2.KeySchemaElement{{AttributeName: aws2.String("p"), KeyType: types2.KeyTypeHash}, {AttributeName: aws2.String("g"), KeyType: types2.KeyTypeRange}},
					Projection: &types2.Projection{ProjectionType: types2.ProjectionTypeAll}}}
			}
			err1 = catch(func() error { _, e := c1.CreateTable(in1); return e })
			err2 = catch(func() error { _, e := c2.CreateTable(ctx, in2); return e })
			id = "C17c-create"
		case 1: // DeleteTable
			err1 = catch(func() error { _, e := c1.DeleteTable(&ddb1.DeleteTableInput{TableName: aws1.String(tbl)}); return e })
			err2 = catch(func() error {
				_, e := c2.DeleteTable(ctx, &ddb2.DeleteTableInput{TableName: aws2.String(tbl)})
				return e
			})
			id = "C17c-delete-table"
		case 2: // UpdateTable: create the index "late"
			withRange := nd.Bool(nm + ".irange")
			ks1 := []*ddb1.KeySchemaElement{{AttributeName: aws1.String("g"), KeyType: aws1.String("HASH")}}
			ks2 := []types2.KeySchemaElement{{AttributeName: aws2.String("g"), KeyType: types2.KeyTypeHash}}
			ad1 := []*ddb1.AttributeDefinition{{AttributeName: aws1.String("g"), AttributeType: aws1.String("S")}}
			ad2 := []types2.AttributeDefinition{{AttributeName: aws2.String("g"), AttributeType: types2.ScalarAttributeTypeS}}
			if withRange {
				ks1 = append(ks1, &ddb1.KeySchemaElement{AttributeName: aws1.String("h"), KeyType: aws1.String("RANGE")})
				ks2 = append(ks2, types2.KeySchemaElement{AttributeName: aws2.String("h"), KeyType: types2.KeyTypeRange})
				ad1 = append(ad1, &ddb1.AttributeDefinition{AttributeName: aws1.String("h"), AttributeType: aws1.String("S")})
				ad2 = append(ad2, types2.AttributeDefinition{AttributeName: aws2.String("h"), AttributeType: types2.ScalarAttributeTypeS})
			}
			var pt1 *ddb1.ProvisionedThroughput
			var pt2 *types2.ProvisionedThroughput
			if nd.Bool(nm + ".throughput") {
				pt1 = &ddb1.ProvisionedThroughput{ReadCapacityUnits: aws1.Int64(1), WriteCapacityUnits: aws1.Int64(1)}
				pt2 = &types2.ProvisionedThroughput{ReadCapacityUnits: aws2.Int64(1), WriteCapacityUnits: aws2.Int64(1)}
			}
			err1 = catch(func() error {
				_, e := c1.UpdateTable(&ddb1.UpdateTableInput{TableName: aws1.String(tbl), AttributeDefinitions: ad1, GlobalSecondaryIndexUpdates: []*ddb1.GlobalSecondaryIndexUpdate{{
					Create: &ddb1.CreateGlobalSecondaryIndexAction{IndexName: aws1.String("late"), KeySchema: ks1, Projection: &ddb1.Projection{ProjectionType: aws1.String("ALL")}, ProvisionedThroughput: pt1}}}})
				return e
			})
			err2 = catch(func() error {
				_, e := c2.UpdateTable(ctx, &ddb2.UpdateTableInput{TableName: aws2.String(tbl), AttributeDefinitions: ad2, GlobalSecondaryIndexUpdates: []types2.GlobalSecondaryIndexUpdate{{
					Create: &types2.CreateGlobalSecondaryIndexAction{IndexName: aws2.String("late"), KeySchema: ks2, Projection: &types2.Projection{ProjectionType: types2.ProjectionTypeAll}, ProvisionedThroughput: pt2}}}})
				return e
			})
			id = "C17c-create-index"
		case 3: // UpdateTable: delete an index
			name := []string{"gsi", "late", "none"}[nd.Choice(nm+".which", 3)]
			err1 = catch(func() error {
				_, e := c1.UpdateTable(&ddb1.UpdateTableInput{TableName: aws1.String(tbl), GlobalSecondaryIndexUpdates: []*ddb1.GlobalSecondaryIndexUpdate{{
					Delete: &ddb1.DeleteGlobalSecondaryIndexAction{IndexName: aws1.String(name)}}}})
				return e
			})
			err2 = catch(func() error {
				_, e := c2.UpdateTable(ctx, &ddb2.UpdateTableInput{TableName: aws2.String(tbl), GlobalSecondaryIndexUpdates: []types2.GlobalSecondaryIndexUpdate{{
					Delete: &types2.DeleteGlobalSecondaryIndexAction{IndexName: aws2.String(name)}}}})
				return e
			})
			id = "C17c-delete-index"
		case 4: // AddTable helper
			r := ""
			if nd.Bool(nm + ".range") {
				r = "s"
			}
			err1 = catch(func() error { return v1.AddTable(c1, tbl, "p", r) })
			err2 = catch(func() error { return v2.AddTable(ctx, c2, tbl, "p", r) })
			id = "C17c-addtable"
		case 5: // AddIndex helper
			r := ""
			if nd.Bool(nm + ".irange") {
				r = "h"
			}
			err1 = catch(func() error { return v1.AddIndex(c1, tbl, "late", "g", r) })
			err2 = catch(func() error { return v2.AddIndex(ctx, c2, tbl, "late", "g", r) })
			id = "C17c-addindex"
		case 6: // ClearTable helper
			err1 = catch(func() error { return v1.ClearTable(c1, tbl) })
			err2 = catch(func() error { return v2.ClearTable(c2, tbl) })
			id = "C17c-clear"
		case 7: // a write that may or may not carry the keys of the table and of its indexes
			a, b := item1{"p": s1("k")}, item2{"p": s2("k")}
			if nd.Bool(nm + ".s") {
				a["s"], b["s"] = s1("r"), s2("r")
			}
			if nd.Bool(nm + ".g") {
				a["g"], b["g"] = s1("gv"), s2("gv")
			}
			if nd.Bool(nm + ".h") {
				a["h"], b["h"] = s1("hv"), s2("hv")
			}
			err1 = catch(func() error { _, e := c1.PutItem(&ddb1.PutItemInput{TableName: aws1.String(tbl), Item: a}); return e })
			err2 = catch(func() error {
				_, e := c2.PutItem(ctx, &ddb2.PutItemInput{TableName: aws2.String(tbl), Item: b})
				return e
			})
			id = "C17c-put"
		}
		nd.Assert(class1(err1) == class2(err2), id+"-same-error-class")
		d1, de1 := describe1(c1, tbl)
		d2, de2 := describe2(c2, tbl)
		nd.Assert(class1(de1) == class2(de2), id+"-describe-same-error-class")
		nd.Assert(d1 == d2, id+"-same-description")
		if de1 == nil && de2 == nil {
			nd.Reach("described")
			o1, se1 := c1.Scan(&ddb1.ScanInput{TableName: aws1.String(tbl)})
			o2, se2 := c2.Scan(ctx, &ddb2.ScanInput{TableName: aws2.String(tbl)})
			nd.Assert(se1 == nil && se2 == nil && sameItems(o1.Items, o2.Items), id+"-same-contents")
			for _, idx := range []string{"gsi", "late", "lsi", "dix"} {
				var i1 []item1
				var i2 []item2
				ie1 := catch(func() error {
					o, e := c1.Scan(&ddb1.ScanInput{TableName: aws1.String(tbl), IndexName: aws1.String(idx)})
					if e == nil {
						i1 = o.Items
					}
					return e
				})
				ie2 := catch(func() error {
					o, e := c2.Scan(ctx, &ddb2.ScanInput{TableName: aws2.String(tbl), IndexName: aws2.String(idx)})
					if e == nil {
						i2 = o.Items
					}
					return e
				})
				nd.Assert(class1(ie1) == class2(ie2), id+"-index-scan-same-error-class")
				nd.Assert(sameItems(i1, i2), id+"-same-index-contents")
			}
		}
	}
	nd.Reach("end")
}

// VerifC17Batch: a BatchWriteItem of any size 0..27 and composition (last request a put, a delete, both or
// neither; one table or two) has the same outcome class through both clients and leaves the same contents.
func VerifC17Batch() {
	c1, c2 := v1.NewClient(), v2.NewClient()
	for _, name := range []string{tbl, "tb2"} {
		e1, e2 := v1.AddTable(c1, name, "p", ""), v2.AddTable(ctx, c2, name, "p", "")
		nd.Assert(e1 == nil && e2 == nil, "C17b-create")
	}
	n := nd.Int("count", 0, 27)
	last := nd.Choice("last-request", 5) // 0 put, 1 delete, 2 both, 3 neither, 4 a put that is refused when it is carried out (no key attribute)
	// the odd request is the last one of the batch or the first one (with two tables: in the table walked first,
	// with well-formed requests for the other table after it)
	oddAt := n - 1
	if n >= 2 && last >= 1 && nd.Choice("odd-request-first", 2) == 1 {
		oddAt = 0
	}
	r1 := []*ddb1.WriteRequest{}
	r2 := []types2.WriteRequest{}
	for i := 0; i < n; i++ {
		k := "k" + string(rune('a'+i))
		a := &ddb1.WriteRequest{PutRequest: &ddb1.PutRequest{Item: item1{"p": s1(k)}}}
		b := types2.WriteRequest{PutRequest: &types2.PutRequest{Item: item2{"p": s2(k)}}}
		if i == oddAt {
			switch last {
			case 1:
				a = &ddb1.WriteRequest{DeleteRequest: &ddb1.DeleteRequest{Key: item1{"p": s1(k)}}}
				b = types2.WriteRequest{DeleteRequest: &types2.DeleteRequest{Key: item2{"p": s2(k)}}}
			case 2:
				a.DeleteRequest = &ddb1.DeleteRequest{Key: item1{"p": s1(k)}}
				b.DeleteRequest = &types2.DeleteRequest{Key: item2{"p": s2(k)}}
			case 3:
				a, b = &ddb1.WriteRequest{}, types2.WriteRequest{}
			case 4:
				a = &ddb1.WriteRequest{PutRequest: &ddb1.PutRequest{Item: item1{"q": s1(k)}}}
				b = types2.WriteRequest{PutRequest: &types2.PutRequest{Item: item2{"q": s2(k)}}}
			}
		}
		r1, r2 = append(r1, a), append(r2, b)
	}
	in1, in2 := map[string][]*ddb1.WriteRequest{tbl: r1}, map[string][]types2.WriteRequest{tbl: r2}
	if h := len(r1) / 2; h >= 1 && nd.Choice("two-tables", 2) == 1 {
		in1 = map[string][]*ddb1.WriteRequest{tbl: r1[:h], "tb2": r1[h:]}
		in2 = map[string][]types2.WriteRequest{tbl: r2[:h], "tb2": r2[h:]}
	}
	var u1, u2 int
	err1 := catch(func() error {
		o, e := c1.BatchWriteItem(&ddb1.BatchWriteItemInput{RequestItems: in1})
		if e == nil {
			for _, l := range o.UnprocessedItems {
				u1 += len(l)
			}
		}
		return e
	})
	err2 := catch(func() error {
		o, e := c2.BatchWriteItem(ctx, &ddb2.BatchWriteItemInput{RequestItems: in2})
		if e == nil {
			for _, l := range o.UnprocessedItems {
				u2 += len(l)
			}
		}
		return e
	})
	nd.Assert(class1(err1) == class2(err2), "C17b-batch-same-error-class")
	nd.Assert(u1 == u2, "C17b-batch-same-unprocessed-count")
	for _, name := range []string{tbl, "tb2"} {
		o1, e1 := c1.Scan(&ddb1.ScanInput{TableName: aws1.String(name)})
		o2, e2 := c2.Scan(ctx, &ddb2.ScanInput{TableName: aws2.String(name)})
		nd.Assert(e1 == nil && e2 == nil && sameItems(o1.Items, o2.Items), "C17b-batch-same-contents")
	}
	nd.Reach("end")
}

// VerifC17Refusal: a conditional PutItem / UpdateItem / DeleteItem whose condition may hold or not through
// both clients over the same stored item: same outcome class, a refusal recognisable as a conditional check
// failure in both (v1 hands out the library's own exception type, v2 the SDK's), the same contents afterwards.
func VerifC17Refusal() {
	c1, c2 := v1.NewClient(), v2.NewClient()
	e1, e2 := v1.AddTable(c1, tbl, "p", ""), v2.AddTable(ctx, c2, tbl, "p", "")
	nd.Assert(e1 == nil && e2 == nil, "C17f-create")
	if nd.Bool("stored") {
		v := nd.StringN("v", 1)
		_, p1 := c1.PutItem(&ddb1.PutItemInput{TableName: aws1.String(tbl), Item: item1{"p": s1("k"), "v": s1(v), "w": s1("keep")}})
		_, p2 := c2.PutItem(ctx, &ddb2.PutItemInput{TableName: aws2.String(tbl), Item: item2{"p": s2("k"), "v": s2(v), "w": s2("keep")}})
		nd.Assert(p1 == nil && p2 == nil, "C17f-load")
	}
	cond := []string{"attribute_not_exists(p)", "v = :x", "attribute_exists(p) AND v <> :x"}[nd.Choice("condition", 3)]
	x := nd.StringN("x", 1)
	var vals1 item1
	var vals2 item2
	if cond != "attribute_not_exists(p)" {
		vals1, vals2 = item1{":x": s1(x)}, item2{":x": s2(x)}
	}
	allOld := nd.Bool("all-old")
	// the v1 SDK vendored here has no ReturnValuesOnConditionCheckFailure; only v2 can ask for the item
	var rv2 types2.ReturnValuesOnConditionCheckFailure
	if allOld {
		rv2 = types2.ReturnValuesOnConditionCheckFailureAllOld
	}
	var err1, err2 error
	switch nd.Choice("op", 3) {
	case 0:
		_, err1 = c1.PutItem(&ddb1.PutItemInput{TableName: aws1.String(tbl), Item: item1{"p": s1("k"), "v": s1("new")}, ConditionExpression: aws1.String(cond), ExpressionAttributeValues: vals1})
		_, err2 = c2.PutItem(ctx, &ddb2.PutItemInput{TableName: aws2.String(tbl), Item: item2{"p": s2("k"), "v": s2("new")}, ConditionExpression: aws2.String(cond), ExpressionAttributeValues: vals2, ReturnValuesOnConditionCheckFailure: rv2})
	case 1:
		u1, u2 := item1{":n": s1("new")}, item2{":n": s2("new")}
		for k, v := range vals1 {
			u1[k] = v
		}
		for k, v := range vals2 {
			u2[k] = v
		}
		_, err1 = c1.UpdateItem(&ddb1.UpdateItemInput{TableName: aws1.String(tbl), Key: item1{"p": s1("k")}, UpdateExpression: aws1.String("SET v = :n"), ConditionExpression: aws1.String(cond), ExpressionAttributeValues: u1})
		_, err2 = c2.UpdateItem(ctx, &ddb2.UpdateItemInput{TableName: aws2.String(tbl), Key: item2{"p": s2("k")}, UpdateExpression: aws2.String("SET v = :n"), ConditionExpression: aws2.String(cond), ExpressionAttributeValues: u2, ReturnValuesOnConditionCheckFailure: rv2})
	case 2:
		_, err1 = c1.DeleteItem(&ddb1.DeleteItemInput{TableName: aws1.String(tbl), Key: item1{"p": s1("k")}, ConditionExpression: aws1.String(cond), ExpressionAttributeValues: vals1})
		_, err2 = c2.DeleteItem(ctx, &ddb2.DeleteItemInput{TableName: aws2.String(tbl), Key: item2{"p": s2("k")}, ConditionExpression: aws2.String(cond), ExpressionAttributeValues: vals2, ReturnValuesOnConditionCheckFailure: rv2})
	}
	nd.Assert(class1(err1) == class2(err2), "C17f-same-error-class")
	if err1 != nil && err2 != nil {
		nd.Reach("refused")
		var f1 *mtypes.ConditionalCheckFailedException
		var f2 *types2.ConditionalCheckFailedException
		ok1, ok2 := errors.As(err1, &f1), errors.As(err2, &f2)
		nd.Assert(ok1 == ok2, "C17f-refusal-is-a-conditional-check-failure-in-both")
		if ok1 && ok2 && !allOld {
			// nothing was asked for through either client: what the refusals carry must agree
			nd.Assert(len(f1.Item) == len(f2.Item), "C17f-refusals-carry-the-same-when-nothing-is-asked")
		}
	}
	o1, se1 := c1.Scan(&ddb1.ScanInput{TableName: aws1.String(tbl)})
	o2, se2 := c2.Scan(ctx, &ddb2.ScanInput{TableName: aws2.String(tbl)})
	nd.Assert(se1 == nil && se2 == nil && sameItems(o1.Items, o2.Items), "C17f-same-contents")
	nd.Reach("end")
}

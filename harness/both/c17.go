//go:build verif

// Package vboth drives the SDK v1 and the SDK v2 client side by side (C17).
package vboth

import (
	"context"
	"errors"

	aws2 "github.com/aws/aws-sdk-go-v2/aws"
	ddb2 "github.com/aws/aws-sdk-go-v2/service/dynamodb"
	types2 "github.com/aws/aws-sdk-go-v2/service/dynamodb/types"
	aws1 "github.com/aws/aws-sdk-go/aws"
	"github.com/aws/aws-sdk-go/aws/awserr"
	ddb1 "github.com/aws/aws-sdk-go/service/dynamodb"
	"github.com/aws/smithy-go"
	v1 "github.com/truora/minidyn/aws-v1/client"
	v2 "github.com/truora/minidyn/aws-v2/client"
	"github.com/truora/minidyn/internal/nd"
	"github.com/truora/minidyn/internal/vspec"
)

const tbl = "tbl"

var ctx = context.Background()

type item1 = map[string]*ddb1.AttributeValue
type item2 = map[string]types2.AttributeValue

func to1(v vspec.Val) *ddb1.AttributeValue {
	switch v.Kind {
	case "S":
		return &ddb1.AttributeValue{S: aws1.String(v.S)}
	case "N":
		return &ddb1.AttributeValue{N: aws1.String(v.NTxt)}
	case "B":
		return &ddb1.AttributeValue{B: append([]byte{}, v.B...)}
	case "BOOL":
		return &ddb1.AttributeValue{BOOL: aws1.Bool(v.Bool)}
	case "NULL":
		return &ddb1.AttributeValue{NULL: aws1.Bool(true)}
	case "L":
		l := []*ddb1.AttributeValue{}
		for _, x := range v.L {
			l = append(l, to1(x))
		}
		return &ddb1.AttributeValue{L: l}
	case "M":
		m := item1{}
		for k, x := range v.M {
			m[k] = to1(x)
		}
		return &ddb1.AttributeValue{M: m}
	case "SS":
		ss := []*string{}
		for _, s := range v.SS {
			ss = append(ss, aws1.String(s))
		}
		return &ddb1.AttributeValue{SS: ss}
	case "NS":
		ns := []*string{}
		for _, n := range v.NS {
			ns = append(ns, aws1.String(nd.Itoa(n)))
		}
		return &ddb1.AttributeValue{NS: ns}
	case "BS":
		bs := [][]byte{}
		for _, b := range v.BS {
			bs = append(bs, append([]byte{}, b...))
		}
		return &ddb1.AttributeValue{BS: bs}
	}
	panic("to1: " + v.Kind)
}

func to2(v vspec.Val) types2.AttributeValue {
	switch v.Kind {
	case "S":
		return &types2.AttributeValueMemberS{Value: v.S}
	case "N":
		return &types2.AttributeValueMemberN{Value: v.NTxt}
	case "B":
		return &types2.AttributeValueMemberB{Value: append([]byte{}, v.B...)}
	case "BOOL":
		return &types2.AttributeValueMemberBOOL{Value: v.Bool}
	case "NULL":
		return &types2.AttributeValueMemberNULL{Value: true}
	case "L":
		l := []types2.AttributeValue{}
		for _, x := range v.L {
			l = append(l, to2(x))
		}
		return &types2.AttributeValueMemberL{Value: l}
	case "M":
		m := item2{}
		for k, x := range v.M {
			m[k] = to2(x)
		}
		return &types2.AttributeValueMemberM{Value: m}
	case "SS":
		return &types2.AttributeValueMemberSS{Value: append([]string{}, v.SS...)}
	case "NS":
		ns := []string{}
		for _, n := range v.NS {
			ns = append(ns, nd.Itoa(n))
		}
		return &types2.AttributeValueMemberNS{Value: ns}
	case "BS":
		bs := [][]byte{}
		for _, b := range v.BS {
			bs = append(bs, append([]byte{}, b...))
		}
		return &types2.AttributeValueMemberBS{Value: bs}
	}
	panic("to2: " + v.Kind)
}

func from1(av *ddb1.AttributeValue) vspec.Val {
	switch {
	case av == nil:
		return vspec.Val{Kind: "nil"}
	case av.S != nil:
		return vspec.Val{Kind: "S", S: *av.S}
	case av.N != nil:
		return vspec.Val{Kind: "N", NTxt: *av.N}
	case av.B != nil:
		return vspec.Val{Kind: "B", B: av.B}
	case av.BOOL != nil:
		return vspec.Val{Kind: "BOOL", Bool: *av.BOOL}
	case av.NULL != nil:
		return vspec.Val{Kind: "NULL"}
	case av.L != nil:
		l := []vspec.Val{}
		for _, x := range av.L {
			l = append(l, from1(x))
		}
		return vspec.Val{Kind: "L", L: l}
	case av.M != nil:
		m := map[string]vspec.Val{}
		for k, x := range av.M {
			m[k] = from1(x)
		}
		return vspec.Val{Kind: "M", M: m}
	case av.SS != nil:
		ss := []string{}
		for _, s := range av.SS {
			ss = append(ss, *s)
		}
		return vspec.Val{Kind: "SS", SS: ss}
	case av.NS != nil:
		ss := []string{}
		for _, s := range av.NS {
			ss = append(ss, *s)
		}
		return vspec.Val{Kind: "NS", SS: ss} // numeral texts, compared as a set of texts
	case av.BS != nil:
		return vspec.Val{Kind: "BS", BS: av.BS}
	}
	return vspec.Val{Kind: "?"}
}

func from2(av types2.AttributeValue) vspec.Val {
	switch x := av.(type) {
	case *types2.AttributeValueMemberS:
		return vspec.Val{Kind: "S", S: x.Value}
	case *types2.AttributeValueMemberN:
		return vspec.Val{Kind: "N", NTxt: x.Value}
	case *types2.AttributeValueMemberB:
		return vspec.Val{Kind: "B", B: x.Value}
	case *types2.AttributeValueMemberBOOL:
		return vspec.Val{Kind: "BOOL", Bool: x.Value}
	case *types2.AttributeValueMemberNULL:
		return vspec.Val{Kind: "NULL"}
	case *types2.AttributeValueMemberL:
		l := []vspec.Val{}
		for _, e := range x.Value {
			l = append(l, from2(e))
		}
		return vspec.Val{Kind: "L", L: l}
	case *types2.AttributeValueMemberM:
		m := map[string]vspec.Val{}
		for k, e := range x.Value {
			m[k] = from2(e)
		}
		return vspec.Val{Kind: "M", M: m}
	case *types2.AttributeValueMemberSS:
		return vspec.Val{Kind: "SS", SS: x.Value}
	case *types2.AttributeValueMemberNS:
		return vspec.Val{Kind: "NS", SS: x.Value}
	case *types2.AttributeValueMemberBS:
		return vspec.Val{Kind: "BS", BS: x.Value}
	}
	return vspec.Val{Kind: "?"}
}

// sameVal: structural equality including the numeral text (both adapters must hand back the same text).
func sameVal(a, b vspec.Val) bool {
	if a.Kind == "N" && b.Kind == "N" {
		return a.NTxt == b.NTxt
	}
	if a.Kind == "L" && b.Kind == "L" {
		if len(a.L) != len(b.L) {
			return false
		}
		for i := range a.L {
			if !sameVal(a.L[i], b.L[i]) {
				return false
			}
		}
		return true
	}
	if a.Kind == "M" && b.Kind == "M" {
		if len(a.M) != len(b.M) {
			return false
		}
		for k, x := range a.M {
			y, ok := b.M[k]
			if !ok || !sameVal(x, y) {
				return false
			}
		}
		return true
	}
	if a.Kind == "NS" && b.Kind == "NS" {
		return vspec.Equal(vspec.Val{Kind: "SS", SS: a.SS}, vspec.Val{Kind: "SS", SS: b.SS})
	}
	return vspec.Equal(a, b)
}

func sameItem(a item1, b item2) bool {
	if len(a) != len(b) {
		return false
	}
	for k, x := range a {
		y, ok := b[k]
		if !ok || !sameVal(from1(x), from2(y)) {
			return false
		}
	}
	return true
}

func sameItems(a []item1, b []item2) bool {
	if len(a) != len(b) {
		return false
	}
	for i := range a {
		if !sameItem(a[i], b[i]) {
			return false
		}
	}
	return true
}

// class1 / class2: the error class of an outcome ("" = success).
func class1(err error) string {
	if err == nil {
		return ""
	}
	if errors.Is(err, v1.ErrForcedFailure) {
		return "forced"
	}
	var ae awserr.Error
	if errors.As(err, &ae) {
		return ae.Code()
	}
	var ce interface{ Code() string }
	if errors.As(err, &ce) {
		return ce.Code()
	}
	return "other"
}

func class2(err error) string {
	if err == nil {
		return ""
	}
	if errors.Is(err, v2.ErrForcedFailure) {
		return "forced"
	}
	var ae smithy.APIError
	if errors.As(err, &ae) {
		return ae.ErrorCode()
	}
	var ce interface{ Code() string }
	if errors.As(err, &ce) {
		return ce.Code()
	}
	return "other"
}

func catch(f func() error) (err error) {
	defer func() {
		if r := recover(); r != nil {
			err = errors.New("panic")
			if e, ok := r.(error); ok {
				err = e
			}
		}
	}()
	return f()
}

// VerifC17Equivalence: the same abstract history issued through both clients has the same outcome at every
// step: error class, returned items, counts, pagination keys, table description.
func VerifC17Equivalence() {
	k := nd.Param("k", 2)
	c1, c2 := v1.NewClient(), v2.NewClient()
	withRange := nd.Choice("range", 2) == 1
	r := ""
	if withRange {
		r = "s"
	}
	e1, e2 := v1.AddTable(c1, tbl, "p", r), v2.AddTable(ctx, c2, tbl, "p", r)
	nd.Assert(e1 == nil && e2 == nil, "C17-create")
	key := func(name string) (item1, item2) {
		p := nd.StringN(name+".p", 1)
		a, b := item1{"p": to1(vspec.Val{Kind: "S", S: p})}, item2{"p": to2(vspec.Val{Kind: "S", S: p})}
		if withRange {
			a["s"], b["s"] = to1(vspec.Val{Kind: "S", S: "r"}), to2(vspec.Val{Kind: "S", S: "r"})
		}
		return a, b
	}
	for step := 0; step < k; step++ {
		nm := "s" + string(rune('0'+step))
		k1, k2 := key(nm)
		x := vspec.Val{Kind: "S", S: nd.StringN(nm+".x", 1)}
		var err1, err2 error
		id := "C17"
		switch op := nd.Choice("op", 11); op {
		case 0: // PutItem of a value tree, optionally conditional
			var v vspec.Val
			if d := nd.Param("depth", 0); d > 0 {
				v = vspec.GenTree(nm+".v", d, 1)
				if nd.Known("C10-v2-empty-list-or-map-reads-as-null") {
					nd.Assume(!(v.Kind == "L" && len(v.L) == 0) && !(v.Kind == "M" && len(v.M) == 0))
				}
			} else {
				// one value of every type, and a set nested in a list
				sv := vspec.Val{Kind: "S", S: nd.StringN(nm+".vs", 1)}
				shapes := []vspec.Val{sv, {Kind: "N", N: 10, NTxt: "1e1"}, {Kind: "B", B: nd.Bytes(nm+".vb", 1)}, {Kind: "BOOL", Bool: nd.Bool(nm + ".vbool")},
					{Kind: "NULL"}, {Kind: "SS", SS: []string{sv.S}}, {Kind: "NS", NS: []int64{7}}, {Kind: "BS", BS: [][]byte{{1}}},
					{Kind: "L", L: []vspec.Val{sv}}, {Kind: "M", M: map[string]vspec.Val{"x": sv}}, {Kind: "L", L: []vspec.Val{{Kind: "NS", NS: []int64{7}}}},
					// boundary members: the empty string, the empty binary (also nested), NULL inside a list
					{Kind: "S", S: ""}, {Kind: "B", B: []byte{}}, {Kind: "L", L: []vspec.Val{{Kind: "B", B: []byte{}}, {Kind: "NULL"}}}, {Kind: "M", M: map[string]vspec.Val{"e": {Kind: "S", S: ""}}}}
				v = shapes[nd.Choice(nm+".shape", len(shapes))]
			}
			if v.Kind == "N" && v.NTxt == "" {
				v.NTxt = "7"
			}
			i1, i2 := item1{"v": to1(v)}, item2{"v": to2(v)}
			for a, b := range k1 {
				i1[a] = b
			}
			for a, b := range k2 {
				i2[a] = b
			}
			in1, in2 := &ddb1.PutItemInput{TableName: aws1.String(tbl), Item: i1}, &ddb2.PutItemInput{TableName: aws2.String(tbl), Item: i2}
			switch nd.Choice("cond", 3) {
			case 1:
				in1.ConditionExpression, in2.ConditionExpression = aws1.String("attribute_not_exists(p)"), aws2.String("attribute_not_exists(p)")
			case 2: // through a #name placeholder (names starting with a letter, a digit, an underscore)
				al := []string{"#a", "#0", "#_v"}[nd.Choice(nm+".alias", 3)]
				in1.ConditionExpression, in2.ConditionExpression = aws1.String("attribute_not_exists("+al+")"), aws2.String("attribute_not_exists("+al+")")
				in1.ExpressionAttributeNames, in2.ExpressionAttributeNames = map[string]*string{al: aws1.String("p")}, map[string]string{al: "p"}
			}
			_, err1 = c1.PutItem(in1)
			_, err2 = c2.PutItem(ctx, in2)
			id = "C17-put"
		case 1:
			o1, e1 := c1.GetItem(&ddb1.GetItemInput{TableName: aws1.String(tbl), Key: k1})
			o2, e2 := c2.GetItem(ctx, &ddb2.GetItemInput{TableName: aws2.String(tbl), Key: k2})
			err1, err2 = e1, e2
			if e1 == nil && e2 == nil {
				nd.Assert(sameItem(o1.Item, o2.Item), "C17-get-same-item")
			}
			id = "C17-get"
		case 2:
			in1 := &ddb1.UpdateItemInput{TableName: aws1.String(tbl), Key: k1, UpdateExpression: aws1.String("SET v = :x"), ExpressionAttributeValues: item1{":x": to1(x)}, ReturnValues: aws1.String("ALL_NEW")}
			in2 := &ddb2.UpdateItemInput{TableName: aws2.String(tbl), Key: k2, UpdateExpression: aws2.String("SET v = :x"), ExpressionAttributeValues: item2{":x": to2(x)}, ReturnValues: types2.ReturnValueAllNew}
			if nd.Choice("cond", 2) == 1 {
				in1.ConditionExpression, in2.ConditionExpression = aws1.String("attribute_exists(p)"), aws2.String("attribute_exists(p)")
			}
			// a request that is refused for its own sake is refused alike (also while a failure is emulated: the
			// two clients must agree on which refusal comes first)
			switch nd.Choice("flaw", 3) {
			case 1:
				in1.ExpressionAttributeNames, in2.ExpressionAttributeNames = map[string]*string{"#unused": aws1.String("v")}, map[string]string{"#unused": "v"}
			case 2:
				in1.UpdateExpression, in2.UpdateExpression = aws1.String("SET v = :x,"), aws2.String("SET v = :x,")
			}
			var o1 *ddb1.UpdateItemOutput
			var o2 *ddb2.UpdateItemOutput
			e1 := catch(func() error { var e error; o1, e = c1.UpdateItem(in1); return e })
			e2 := catch(func() error { var e error; o2, e = c2.UpdateItem(ctx, in2); return e })
			err1, err2 = e1, e2
			if e1 == nil && e2 == nil {
				nd.Assert(sameItem(o1.Attributes, o2.Attributes), "C17-update-same-attributes")
			}
			id = "C17-update"
		case 3:
			in1 := &ddb1.DeleteItemInput{TableName: aws1.String(tbl), Key: k1}
			in2 := &ddb2.DeleteItemInput{TableName: aws2.String(tbl), Key: k2}
			if nd.Choice("allold", 2) == 1 {
				in1.ReturnValues, in2.ReturnValues = aws1.String("ALL_OLD"), types2.ReturnValueAllOld
			}
			if nd.Choice("cond", 2) == 1 {
				in1.ConditionExpression, in2.ConditionExpression = aws1.String("attribute_exists(p)"), aws2.String("attribute_exists(p)")
			}
			o1, e1 := c1.DeleteItem(in1)
			o2, e2 := c2.DeleteItem(ctx, in2)
			err1, err2 = e1, e2
			if e1 == nil && e2 == nil {
				nd.Assert(sameItem(o1.Attributes, o2.Attributes), "C17-delete-same-attributes")
			}
			id = "C17-delete"
		case 4:
			// the key condition: proper, or one of three kinds both clients must refuse alike - on an empty table too
			kc := []string{"p = :p", "p = :p", "p <> :p", "v = :p", "p = :p AND"}[nd.Choice("keycond", 5)]
			in1 := &ddb1.QueryInput{TableName: aws1.String(tbl), KeyConditionExpression: aws1.String(kc), ExpressionAttributeValues: item1{":p": k1["p"]}}
			in2 := &ddb2.QueryInput{TableName: aws2.String(tbl), KeyConditionExpression: aws2.String(kc), ExpressionAttributeValues: item2{":p": k2["p"]}}
			if nd.Choice("bad-filter", 2) == 1 {
				in1.FilterExpression, in2.FilterExpression = aws1.String("v = = :p"), aws2.String("v = = :p")
			}
			if nd.Choice("limit", 2) == 1 {
				in1.Limit, in2.Limit = aws1.Int64(1), aws2.Int32(1)
			}
			var o1 *ddb1.QueryOutput
			var o2 *ddb2.QueryOutput
			err1 = catch(func() error { var e error; o1, e = c1.Query(in1); return e })
			err2 = catch(func() error { var e error; o2, e = c2.Query(ctx, in2); return e })
			if err1 == nil && err2 == nil {
				nd.Assert(sameItems(o1.Items, o2.Items) && aws1.Int64Value(o1.Count) == int64(o2.Count), "C17-query-same-items")
				nd.Assert(sameItem(o1.LastEvaluatedKey, o2.LastEvaluatedKey), "C17-query-same-pagination-key")
			}
			id = "C17-query"
		case 5:
			in1, in2 := &ddb1.ScanInput{TableName: aws1.String(tbl)}, &ddb2.ScanInput{TableName: aws2.String(tbl)}
			if nd.Choice("limit", 2) == 1 {
				in1.Limit, in2.Limit = aws1.Int64(1), aws2.Int32(1)
			}
			var o1 *ddb1.ScanOutput
			var o2 *ddb2.ScanOutput
			err1 = catch(func() error { var e error; o1, e = c1.Scan(in1); return e })
			err2 = catch(func() error { var e error; o2, e = c2.Scan(ctx, in2); return e })
			if err1 == nil && err2 == nil {
				nd.Assert(sameItems(o1.Items, o2.Items) && aws1.Int64Value(o1.Count) == int64(o2.Count), "C17-scan-same-items")
				nd.Assert(sameItem(o1.LastEvaluatedKey, o2.LastEvaluatedKey), "C17-scan-same-pagination-key")
			}
			id = "C17-scan"
		case 6:
			d1, d2 := key(nm + ".del")
			p1, p2 := item1{"v": to1(x)}, item2{"v": to2(x)}
			for a, b := range k1 {
				p1[a] = b
			}
			for a, b := range k2 {
				p2[a] = b
			}
			o1, e1 := c1.BatchWriteItem(&ddb1.BatchWriteItemInput{RequestItems: map[string][]*ddb1.WriteRequest{tbl: {
				{PutRequest: &ddb1.PutRequest{Item: p1}}, {DeleteRequest: &ddb1.DeleteRequest{Key: d1}}}}})
			o2, e2 := c2.BatchWriteItem(ctx, &ddb2.BatchWriteItemInput{RequestItems: map[string][]types2.WriteRequest{tbl: {
				{PutRequest: &types2.PutRequest{Item: p2}}, {DeleteRequest: &types2.DeleteRequest{Key: d2}}}}})
			err1, err2 = e1, e2
			if e1 == nil && e2 == nil {
				nd.Assert(len(o1.UnprocessedItems[tbl]) == len(o2.UnprocessedItems[tbl]), "C17-batchwrite-same-unprocessed")
			}
			id = "C17-batchwrite"
		case 7:
			name := []string{tbl, "other"}[nd.Choice("table", 2)]
			o1, e1 := c1.DescribeTable(&ddb1.DescribeTableInput{TableName: aws1.String(name)})
			o2, e2 := c2.DescribeTable(ctx, &ddb2.DescribeTableInput{TableName: aws2.String(name)})
			err1, err2 = e1, e2
			if e1 == nil && e2 == nil {
				nd.Assert(aws1.Int64Value(o1.Table.ItemCount) == aws2.ToInt64(o2.Table.ItemCount) && len(o1.Table.KeySchema) == len(o2.Table.KeySchema), "C17-describe-same")
			}
			id = "C17-describe"
		case 8:
			switch nd.Choice("failure", 3) {
			case 0:
				v1.EmulateFailure(c1, v1.FailureConditionInternalServerError)
				v2.EmulateFailure(c2, v2.FailureConditionInternalServerError)
			case 1:
				v1.ActiveForceFailure(c1)
				v2.ActiveForceFailure(c2)
			case 2:
				v1.DeactiveForceFailure(c1)
				v2.DeactiveForceFailure(c2)
			}
			id = "C17-toggle"
		case 9:
			err1, err2 = v1.AddTable(c1, tbl, "p", r), v2.AddTable(ctx, c2, tbl, "p", r)
			id = "C17-create-existing"
		case 10:
			_, err1 = c1.PutItem(&ddb1.PutItemInput{TableName: aws1.String("other"), Item: k1})
			_, err2 = c2.PutItem(ctx, &ddb2.PutItemInput{TableName: aws2.String("other"), Item: k2})
			id = "C17-put-missing-table"
		}
		nd.Assert(class1(err1) == class2(err2), id+"-same-error-class")
	}
	// final states agree
	v1.DeactiveForceFailure(c1)
	v2.DeactiveForceFailure(c2)
	s1, e1 := c1.Scan(&ddb1.ScanInput{TableName: aws1.String(tbl)})
	s2, e2 := c2.Scan(ctx, &ddb2.ScanInput{TableName: aws2.String(tbl)})
	nd.Assert(e1 == nil && e2 == nil && sameItems(s1.Items, s2.Items), "C17-final-state-same")
	nd.Reach("end")
}

//go:build verif

package language

import (
	"sort"

	"github.com/truora/minidyn/internal/nd"
	"github.com/truora/minidyn/types"
)

func vReservedList() []string {
	words := make([]string, 0, len(reservedWords))
	for w := range reservedWords {
		words = append(words, w)
	}
	sort.Strings(words)
	return words
}

// vCased spells word with symbolic letter case in its first three letters (one bit each) and, for the
// rest, either all lower or all upper case (a forked choice).
func vCased(word string) string {
	restLower := nd.Choice("rest-lower", 2) == 1
	b := []byte(word)
	for i := range b {
		if b[i] < 'A' || b[i] > 'Z' {
			continue
		}
		if i < 3 {
			// the case bit is a solver variable, not a fork: 'A'+32*bit
			b[i] += (nd.Byte("lower") & 1) * 32
		} else if restLower {
			b[i] += 32
		}
	}
	return string(b)
}

func vItemS(s string) *types.Item { return &types.Item{S: &s} }
func vItemN(s string) *types.Item { return &types.Item{N: &s} }

// vEvalCondition / vEvalUpdate: the same pipeline interpreter.Language runs (the harness lives in this
// package because the reserved-word table is unexported).
func vEvalCondition(text string, item, vals map[string]*types.Item) bool {
	p := NewParser(NewLexer(text))
	cond := p.ParseConditionalExpression()
	if len(p.Errors()) != 0 {
		return false
	}
	env := NewEnvironment()
	if env.AddAttributes(item) != nil || env.AddAttributes(vals) != nil {
		return false
	}
	return Eval(cond, env).Type() != ObjectTypeError
}

func vEvalUpdate(text string, item, vals map[string]*types.Item) bool {
	p := NewUpdateParser(NewLexer(text))
	upd := p.ParseUpdateExpression()
	if len(p.Errors()) != 0 {
		return false
	}
	env := NewEnvironment()
	if env.AddAttributes(item) != nil || env.AddAttributes(vals) != nil {
		return false
	}
	return EvalUpdate(upd, env).Type() != ObjectTypeError
}

var vCondPositions = []string{"W = :v", "W.k = :v", ":v = W", "W[0] = :v", "attribute_exists(W)", "W BETWEEN :v AND :v", "W IN (:v)", "begins_with(W, :v)", "size(W) > :n", "NOT W = :v", "a = :v AND W <> :v", "m.W = :v"}
var vUpdPositions = []string{"SET W = :v", "SET W.k = :v", "SET a = W", "REMOVE W", "REMOVE W[0]", "ADD W :n", "SET a = if_not_exists(W, :v)"}

func vSubst(template, word string) string {
	out := ""
	for i := 0; i < len(template); i++ {
		if template[i] == 'W' && (i+1 == len(template) || template[i+1] == ' ' || template[i+1] == ')' || template[i+1] == ',' || template[i+1] == '.' || template[i+1] == '[') && (i == 0 || template[i-1] == ' ' || template[i-1] == '(' || template[i-1] == '.') {
			out += word
		} else {
			out += string(template[i])
		}
	}
	return out
}

// VerifC16Reserved: every word of the reserved-word table, in any letter case, used as a bare attribute
// name in any operand position of a condition or update expression, makes the expression be rejected.
func VerifC16Reserved() {
	words := vReservedList()
	nd.Assert(len(words) > 500, "C16-reserved-table-loaded")
	w := vCased(words[nd.Choice("word", len(words))])
	npos := nd.Param("positions", 3)
	item := map[string]*types.Item{"a": vItemS("x"), "m": {M: map[string]*types.Item{"k": vItemS("x")}}}
	vals := map[string]*types.Item{":v": vItemS("x"), ":n": vItemN("1")}
	// whether the item at hand happens to have an attribute of that very name makes no difference
	if nd.Choice("item-has-the-word", 2) == 1 {
		item[w] = vItemS("x")
	}
	if nd.Choice("grammar", 2) == 0 {
		if npos > len(vCondPositions) {
			npos = len(vCondPositions)
		}
		t := vCondPositions[nd.Choice("position", npos)]
		if t == "m.W = :v" && nd.Known("C16-reserved-word-as-nested-member") {
			// known finding (pinned by TestEvalReservedKeywords): a reserved word after '.' is accepted
			nd.Reach("end")
			return
		}
		nd.Assert(!vEvalCondition(vSubst(t, w), item, vals), "C16-reserved-word-rejected-in-condition ["+t+"]")
	} else {
		if npos > len(vUpdPositions) {
			npos = len(vUpdPositions)
		}
		t := vUpdPositions[nd.Choice("position", npos)]
		nd.Assert(!vEvalUpdate(vSubst(t, w), item, vals), "C16-reserved-word-rejected-in-update ["+t+"]")
	}
	nd.Reach("end")
}

// VerifC16NotReserved: an attribute name of 1..cap letters that is not in the reserved-word table is never
// rejected on that account.
func VerifC16NotReserved() {
	cap := nd.Param("cap", 3)
	name := nd.StringN("name", 1+nd.Choice("len", cap))
	up := []byte(name)
	for i := range up {
		nd.Assume(up[i] >= 'a' && up[i] <= 'z' || up[i] >= 'A' && up[i] <= 'Z')
		if up[i] >= 'a' {
			up[i] -= 32
		}
	}
	nd.Assume(!reservedWords[string(up)])
	// keywords of the expression grammar itself are not names
	for _, kw := range []string{"AND", "OR", "NOT", "IN", "SET", "ADD"} {
		nd.Assume(string(up) != kw)
	}
	item := map[string]*types.Item{"a": vItemS("x")}
	vals := map[string]*types.Item{":v": vItemS("x"), ":n": vItemN("1")}
	t := []string{"W = :v", "attribute_exists(W)", "SET W = :v", "REMOVE W"}[nd.Choice("position", 4)]
	text := vSubst(t, name)
	if t[0] == 'S' || t[0] == 'R' {
		nd.Assert(vEvalUpdate(text, item, vals), "C16-unreserved-name-accepted-in-update")
	} else {
		nd.Assert(vEvalCondition(text, item, vals), "C16-unreserved-name-accepted-in-condition")
	}
	nd.Reach("end")
}

// VerifC16ReservedLogic: a reserved word is rejected wherever it stands inside a compound condition - in
// either operand of AND / OR, under NOT, in parentheses - and whatever the other operand evaluates to on
// the item at hand (both a true and a false companion are tried), so the verdict cannot depend on data.
func VerifC16ReservedLogic() {
	words := []string{"STATUS", "size", "Name", "ABORT", "zone", "Year", "COMMENT", "data"}
	w := words[nd.Choice("word", len(words))]
	templates := []string{
		"a = :v OR W = :v", "W = :v OR a = :v", "a = :v AND W = :v", "W = :v AND a = :v",
		"a = :v OR NOT W = :v", "a = :v OR ( W = :v )", "a = :v OR attribute_exists(W)", "a = :v OR W BETWEEN :v AND :v",
		"a = :v OR W IN (:v)", "NOT ( a = :v OR W = :v )", "a = :v OR a = :v OR W = :v", "a = :v AND ( a = :v OR size(W) > :n )",
	}
	t := templates[nd.Choice("template", len(templates))]
	// the companion "a = :v" is true for one item and false for the other
	av := "x"
	if nd.Choice("companion-true", 2) == 0 {
		av = "y"
	}
	item := map[string]*types.Item{"a": vItemS(av)}
	vals := map[string]*types.Item{":v": vItemS("x"), ":n": vItemN("1")}
	nd.Assert(!vEvalCondition(vSubst(t, w), item, vals), "C16-reserved-word-rejected-whatever-the-companion-evaluates-to ["+t+"]")
	nd.Reach("end")
}

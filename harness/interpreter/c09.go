//go:build verif

package interpreter

import (
	"github.com/truora/minidyn/internal/nd"
	"github.com/truora/minidyn/internal/vspec"
	"github.com/truora/minidyn/types"
)

// vRepeat: the harnesses whose texts are concrete (token sequences, compositions, separators) ask every text
// twice (the raw-byte harnesses do not: re-lexing a symbolic text doubles their cost).
var vRepeat bool

func vC09Env() (map[string]vspec.Val, map[string]vspec.Val) {
	item := map[string]vspec.Val{
		"a": {Kind: "S", S: "v"},
		"n": {Kind: "N", N: 7},
		"l": {Kind: "L", L: []vspec.Val{{Kind: "S", S: "e"}}},
		"m": {Kind: "M", M: map[string]vspec.Val{"k": {Kind: "S", S: "w"}}},
	}
	// :n is any 16-bit integer: as an operand it compares with n = 7 either way, as a list index (l[:n]) it may
	// lie before, inside or beyond the list
	vals := map[string]vspec.Val{":x": {Kind: "S", S: "v"}, ":n": {Kind: "N", N: int64(nd.Int16("n"))}}
	return item, vals
}

// vC09Condition: the front end is total (any crash is caught by the engine's implicit checks) and strict:
// what it accepts is a sentence of the condition grammar, and its value is the sentence's value.
func vC09Condition(text string, id string) {
	item, vals := vC09Env()
	li := &Language{}
	got, err := li.Match(MatchInput{TableName: "t", Expression: text, ExpressionType: ExpressionTypeConditional,
		Item: vspec.ToItems(item, []string{"a", "n", "l", "m"}), Attributes: vspec.ToItems(vals, []string{":x", ":n"})})
	if vRepeat {
		// the verdict on a text does not depend on whether the interpreter has seen that text before: the same
		// interpreter, asked again (with the item's attributes in the other order), answers the same
		got2, err2 := li.Match(MatchInput{TableName: "t", Expression: text, ExpressionType: ExpressionTypeConditional,
			Item: vspec.ToItems(item, []string{"m", "l", "n", "a"}), Attributes: vspec.ToItems(vals, []string{":n", ":x"})})
		nd.Assert((err == nil) == (err2 == nil) && got == got2, id+"-same-verdict-when-asked-again")
	}
	if err != nil {
		nd.Reach("rejected")
		return
	}
	nd.Reach("accepted")
	ast := vspec.ParseCondition(text)
	nd.Assert(ast != nil, id+"-accepted-text-is-a-sentence")
	if ast != nil {
		env := &vspec.Env{Item: item, Values: vals}
		if want := env.Eval(ast); want != vspec.Unspec {
			nd.Assert(got == (want == vspec.True), id+"-accepted-text-fully-evaluated")
		}
	}
}

func vC09Update(text string, id string) {
	item, vals := vC09Env()
	li := &Language{}
	err := li.Update(UpdateInput{TableName: "t", Expression: text,
		Item: vspec.ToItems(item, []string{"a", "n", "l", "m"}), Attributes: vspec.ToItems(vals, []string{":x", ":n"})})
	if vRepeat {
		err2 := li.Update(UpdateInput{TableName: "t", Expression: text,
			Item: vspec.ToItems(item, []string{"a", "n", "l", "m"}), Attributes: vspec.ToItems(vals, []string{":x", ":n"})})
		nd.Assert((err == nil) == (err2 == nil), id+"-same-verdict-when-asked-again")
	}
	if err != nil {
		nd.Reach("rejected")
		return
	}
	nd.Reach("accepted")
	nd.Assert(vspec.IsUpdateSentence(text), id+"-accepted-update-is-a-sentence")
}

// VerifC09Bytes: every byte string of length 0..len (all 256 byte values per position) as a condition.
func VerifC09Bytes() {
	vRepeat = false
	text := nd.StringN("text", nd.Choice("len", nd.Param("len", 3)+1))
	vC09Condition(text, "C09-bytes")
	nd.Reach("end")
}

// VerifC09UpdateBytes: the same for the update grammar.
func VerifC09UpdateBytes() {
	vRepeat = false
	text := nd.StringN("text", nd.Choice("len", nd.Param("len", 3)+1))
	vC09Update(text, "C09-ubytes")
	nd.Reach("end")
}

var vCondVocab = []string{"a", "n", ":x", "=", "<", "AND", "and", "NOT", "(", ")", ",", "attribute_exists",
	"OR", "BETWEEN", "IN", "<>", "l", "m", "[", "]", ".", "0", ":n", "size", "contains", "begins_with", "k", "#a", "Not", "between"}

var vUpdVocab = []string{"SET", "REMOVE", "ADD", "a", "l", ":x", "=", "+", ",", "[", "]", "0",
	"DELETE", "set", "n", ":n", "-", "(", ")", "if_not_exists", "list_append", "m", ".", "k"}

func vJoin(words []string) string {
	s := ""
	for i, w := range words {
		if i > 0 {
			s += " "
		}
		s += w
	}
	return s
}

// VerifC09Tokens: every sequence of 1..k lexemes of a vocabulary, joined by blanks, as a condition.
func VerifC09Tokens() {
	vRepeat = true
	k, v := nd.Param("k", 3), nd.Param("vocab", 12)
	n := 1 + nd.Choice("ntok", k)
	words := make([]string, n)
	for i := range words {
		words[i] = vCondVocab[nd.Choice("tok", v)]
	}
	vC09Condition(vJoin(words), "C09-tokens")
	nd.Reach("end")
}

// VerifC09UpdateTokens: the same for the update grammar.
func VerifC09UpdateTokens() {
	vRepeat = true
	k, v := nd.Param("k", 3), nd.Param("vocab", 12)
	n := 1 + nd.Choice("ntok", k)
	words := make([]string, n)
	for i := range words {
		words[i] = vUpdVocab[nd.Choice("tok", v)]
	}
	vC09Update(vJoin(words), "C09-utokens")
	nd.Reach("end")
}

// VerifC09Separators: between the tokens of a sentence only blanks, tabs, line feeds and carriage returns are
// white space; the separator is one symbolic byte (any value that cannot be part of a token).
func VerifC09Separators() {
	vRepeat = true
	sep := nd.StringN("sep", 1)
	c := sep[0]
	// bytes that are (part of) tokens on their own are not separators
	nd.Assume(!(c >= 'a' && c <= 'z' || c >= 'A' && c <= 'Z' || c >= '0' && c <= '9' || c == '_' || c == ':' || c == '#'))
	for _, t := range []byte("=<>()[].,+-") {
		nd.Assume(c != t)
	}
	if nd.Choice("grammar", 2) == 0 {
		texts := [][]string{{"a", "=", ":x"}, {"a", "=", ":x", "AND", "n", "=", ":n"}, {"NOT", "a", "=", ":x"}, {"attribute_exists", "(", "a", ")"}}
		words := texts[nd.Choice("text", len(texts))]
		pos := nd.Choice("where", 3) // leading, between tokens, trailing
		text := ""
		for i, w := range words {
			if i > 0 {
				if pos == 1 {
					text += sep
				} else {
					text += " "
				}
			}
			text += w
		}
		if pos == 0 {
			text = sep + text
		}
		if pos == 2 {
			text += sep
		}
		vC09Condition(text, "C09-separator")
	} else {
		words := [][]string{{"SET", "a", "=", ":x"}, {"REMOVE", "a"}}[nd.Choice("text", 2)]
		text := ""
		for i, w := range words {
			if i > 0 {
				text += sep
			}
			text += w
		}
		vC09Update(text, "C09-useparator")
	}
	nd.Reach("end")
}

// vCompose enumerates expression texts built without type discipline from the productions of the grammar:
// operands in condition positions and conditions in operand positions included.
func vCompose(depth int, name string) string {
	atoms := []string{"a", ":x", "n"}
	if depth == 0 {
		return atoms[nd.Choice(name+".atom", len(atoms))]
	}
	switch nd.Choice(name+".form", 12) {
	case 10: // arithmetic belongs to update expressions: not a condition, nor an operand of one
		return vCompose(depth-1, name+".l") + " + " + vCompose(depth-1, name+".r")
	case 11:
		return vCompose(depth-1, name+".l") + " - " + vCompose(depth-1, name+".r")
	case 0:
		return vCompose(0, name+".0")
	case 1:
		return vCompose(depth-1, name+".l") + " = " + vCompose(depth-1, name+".r")
	case 2:
		return vCompose(depth-1, name+".l") + " < " + vCompose(depth-1, name+".r")
	case 3:
		return vCompose(depth-1, name+".l") + " AND " + vCompose(depth-1, name+".r")
	case 4:
		return "NOT " + vCompose(depth-1, name+".x")
	case 5:
		return "( " + vCompose(depth-1, name+".x") + " )"
	case 6:
		return vCompose(depth-1, name+".v") + " BETWEEN " + vCompose(0, name+".lo") + " AND " + vCompose(depth-1, name+".hi")
	case 7:
		return vCompose(depth-1, name+".v") + " IN ( " + vCompose(depth-1, name+".e") + " )"
	case 8:
		return vCompose(depth-1, name+".l") + " OR " + vCompose(depth-1, name+".r")
	default:
		return "attribute_exists ( " + vCompose(depth-1, name+".x") + " )"
	}
}

// VerifC09Compose: every text composed from the grammar's productions up to the given depth, well-typed or not.
func VerifC09Compose() {
	vRepeat = true
	vC09Condition(vCompose(nd.Param("depth", 2), "e"), "C09-compose")
	nd.Reach("end")
}

// VerifC09Index: list indexes. minidyn accepts a value placeholder as a list index (l[:n]); whatever integer it
// holds - negative, inside the list, beyond its end - and whatever is written between the brackets, evaluating
// the expression ends in a result or an error, never in a runtime fault, and an accepted text is a sentence.
func VerifC09Index() {
	vRepeat = true
	conds := []string{"l[:n] = :x", "attribute_exists(l[:n])", "l[:n][:n] = :x", "m.k[:n] = :x", "l[ :n ] <> :x", "size(l[:n]) > :n", "l[-1] = :x", "l[:x] = :x", "l[a] = :x", "l[n] = :x", "l[] = :x", "l[0][0] = :x"}
	upds := []string{"SET l[:n] = :x", "REMOVE l[:n]", "SET l[:n] = l[:n]", "REMOVE l[:n], l[0]", "SET a = l[:n]", "SET l[:n][:n] = :x", "REMOVE m.k[:n]", "SET l[-1] = :x", "REMOVE l[-1]",
		"SET l[:x] = :x", "REMOVE l[n]", "SET l[n] = :x", "ADD l[:n] :n", "DELETE l[:n] :x", "SET l = list_append(l[:n], l)", "SET a = if_not_exists(l[:n], :x)"}
	if nd.Choice("grammar", 2) == 0 {
		vC09Condition(conds[nd.Choice("text", len(conds))], "C09-index")
	} else {
		vC09Update(upds[nd.Choice("text", len(upds))], "C09-uindex")
	}
	nd.Reach("end")
}

// VerifC09Aliases: an ExpressionAttributeNames entry may map a #name to any attribute name - any bytes,
// including a name that itself starts with '#' or ':' or equals the placeholder. Whatever the entry and whether
// or not the item has such an attribute, evaluating a condition or an update through it terminates with a result
// or an error (no unbounded recursion, no runtime fault); where the attribute exists, "#a = :x" is its
// comparison with :x and attribute_exists(#a) is true.
func VerifC09Aliases() {
	target := nd.StringN("target", 1+nd.Choice("target.len", 2))
	has := nd.Choice("item-has-target", 2) == 1
	val := nd.StringN("val", 1)
	x := nd.StringN("x", 1)
	mk := func() map[string]*types.Item {
		v, w := val, "w"
		it := map[string]*types.Item{"a": {S: &w}}
		if has {
			it[target] = &types.Item{S: &v}
		}
		return it
	}
	xs := x
	attrs := map[string]*types.Item{":x": {S: &xs}}
	aliases := map[string]string{"#a": target}
	if nd.Choice("second-name", 2) == 1 {
		// two names, each bound to any 2 bytes - to one another, for instance
		nd.Reach("two-names")
		aliases["#b"] = nd.StringN("target2", 2)
		it := mk()
		got, err := (&Language{}).Match(MatchInput{TableName: "t", Expression: "#a = :x OR #b = :x", ExpressionType: ExpressionTypeFilter, Item: it, Attributes: attrs, Aliases: aliases})
		_, _ = got, err
		uerr := (&Language{}).Update(UpdateInput{TableName: "t", Expression: "SET #a = #b", Item: mk(), Attributes: attrs, Aliases: aliases})
		_ = uerr
		nd.Reach("end")
		return
	}
	li := &Language{}
	// what the #name means is asserted only for plain targets: the library reads a target with a dot as a document
	// path when no attribute has that name (its tests pin "#pos": ":nestedMap.lvl1.lvl2") and keeps values and
	// attributes in one name space, so that a target starting with ':' names a value. Termination and the absence
	// of runtime faults are asserted for every target.
	plain := target[0] != ':'
	for i := 0; i < len(target); i++ {
		if target[i] == '.' {
			plain = false
		}
	}
	if !plain {
		has = has && false
	}
	switch nd.Choice("use", 4) {
	case 0:
		got, err := li.Match(MatchInput{TableName: "t", Expression: "#a = :x", ExpressionType: ExpressionTypeFilter, Item: mk(), Attributes: attrs, Aliases: aliases})
		if has && target != "a" {
			nd.Assert(err == nil && got == (val == x), "C09-alias-names-the-attribute")
		}
	case 1:
		got, err := li.Match(MatchInput{TableName: "t", Expression: "attribute_exists(#a)", ExpressionType: ExpressionTypeConditional, Item: mk(), Aliases: aliases})
		if target != "a" && plain {
			nd.Assert(err == nil && got == has, "C09-alias-existence")
		}
	case 2:
		it := mk()
		err := li.Update(UpdateInput{TableName: "t", Expression: "SET #a = :x", Item: it, Attributes: attrs, Aliases: aliases})
		if err == nil && plain {
			nd.Assert(it[target] != nil && it[target].S != nil && *it[target].S == x, "C09-alias-set-names-the-attribute")
		}
	case 3:
		it := mk()
		err := li.Update(UpdateInput{TableName: "t", Expression: "REMOVE #a", Item: it, Aliases: aliases})
		if err == nil && plain {
			nd.Assert(it[target] == nil, "C09-alias-remove-names-the-attribute")
		}
	}
	nd.Reach("end")
}

// VerifC09Nested: a condition that is refused is refused wherever it stands: each malformed condition of a list
// (a comparison used as an operand, chained comparators, a bare operand where a condition is expected) is wrapped in
// NOT, parentheses, AND / OR with a well-formed companion that is true or false on the item - the whole text is
// rejected every time.
func VerifC09Nested() {
	vRepeat = true
	bad := []string{"n > :n = :x", "a = :x = :x", "( a = :x ) = :x", "a AND n > :n", "attribute_exists ( a ) = :x", "a = ( n > :n )", ":x AND a = :x", "a BETWEEN :x AND ( a = :x )", "a IN ( a = :x )"}
	wraps := []string{"M", "NOT M", "NOT ( M )", "C AND NOT ( M )", "C OR NOT ( M )", "( NOT ( M ) )", "NOT ( C AND ( M ) )", "NOT NOT ( M )", "C AND ( M )", "( M ) OR C", "NOT ( ( M ) OR C )"}
	m := bad[nd.Choice("malformed", len(bad))]
	w := wraps[nd.Choice("wrapper", len(wraps))]
	c := []string{"a = :x", "a <> :x"}[nd.Choice("companion", 2)] // true / false on the item of vC09Env
	text := ""
	for i := 0; i < len(w); i++ {
		switch w[i] {
		case 'M':
			text += m
		case 'C':
			text += c
		default:
			text += string(w[i])
		}
	}
	item, vals := vC09Env()
	li := &Language{}
	_, err := li.Match(MatchInput{TableName: "t", Expression: text, ExpressionType: ExpressionTypeConditional,
		Item: vspec.ToItems(item, []string{"a", "n", "l", "m"}), Attributes: vspec.ToItems(vals, []string{":x", ":n"})})
	nd.Assert(err != nil, "C09-malformed-condition-rejected-wherever-it-stands ["+w+"]")
	nd.Assert(vspec.ParseCondition(text) == nil, "C09-nested-text-is-no-sentence")
	nd.Reach("end")
}

//go:build verif

package interpreter

import (
	"errors"

	"github.com/truora/minidyn/internal/nd"
	"github.com/truora/minidyn/types"
)

// vText: every string of length 1..cap over printable ASCII including the space.
func vText(name string, cap int) string {
	s := nd.StringN(name, 1+nd.Choice(name+".len", cap))
	for i := 0; i < len(s); i++ {
		nd.Assume(s[i] >= ' ' && s[i] < 0x7f)
	}
	return s
}

// vNormal: the text with surrounding blanks removed and inner runs of blanks collapsed to one.
func vNormal(s string) string {
	out := []byte{}
	pendingSpace := false
	for i := 0; i < len(s); i++ {
		if s[i] == ' ' {
			pendingSpace = len(out) > 0
			continue
		}
		if pendingSpace {
			out = append(out, ' ')
			pendingSpace = false
		}
		out = append(out, s[i])
	}
	return string(out)
}

var vKinds = []ExpressionType{ExpressionTypeKey, ExpressionTypeFilter, ExpressionTypeConditional}

// VerifC20Dispatch: a registered matcher (updater) runs for exactly its table, kind and text up to
// surrounding/repeated blanks; its verdict is what Match returns; nothing else ever triggers it.
func VerifC20Dispatch() {
	cap := nd.Param("cap", 3)
	e1, e2 := vText("e1", cap), vText("e2", cap)
	tables := []string{"t", "tx"} // one name is a prefix of the other: the registry key must keep them apart
	regTable, reqTable := tables[nd.Choice("regtable", 2)], tables[nd.Choice("reqtable", 2)]
	ni := NewNativeInterpreter()
	same := vNormal(e1) == vNormal(e2)
	if nd.Choice("what", 2) == 0 {
		nd.Reach("matcher")
		regKind, reqKind := vKinds[nd.Choice("regkind", 3)], vKinds[nd.Choice("reqkind", 3)]
		verdict := nd.Bool("verdict")
		called := 0
		ni.AddMatcher(regTable, regKind, e1, func(a, b map[string]*types.Item) bool { called++; return verdict })
		if nd.Param("prime", 1) == 1 {
			// a look-up that finds nothing must not change what a later look-up finds: the requested text is first
			// looked up under the two other kinds and on the other table (outcomes ignored)
			for _, k := range vKinds {
				if k != reqKind {
					ni.Match(MatchInput{TableName: reqTable, Expression: e2, ExpressionType: k})
				}
			}
			for _, t := range tables {
				if t != reqTable {
					ni.Match(MatchInput{TableName: t, Expression: e2, ExpressionType: reqKind})
				}
			}
			called = 0
		}
		got, err := ni.Match(MatchInput{TableName: reqTable, Expression: e2, ExpressionType: reqKind})
		want := same && regTable == reqTable && regKind == reqKind
		nd.Assert((err == nil) == want, "C20-matcher-dispatched-exactly")
		nd.Assert((called >= 1) == want, "C20-matcher-callback-ran-iff-dispatched")
		if err == nil {
			nd.Assert(got == verdict, "C20-matcher-verdict-used")
		} else {
			nd.Assert(errors.Is(err, ErrUnsupportedFeature), "C20-matcher-missing-is-unsupported")
		}
	} else {
		nd.Reach("updater")
		called := 0
		ni.AddUpdater(regTable, e1, func(item, attrs map[string]*types.Item) {
			called++
			item["touched"] = &types.Item{BOOL: &[]bool{true}[0]}
		})
		if nd.Param("prime", 1) == 1 {
			for _, t := range tables {
				if t != reqTable {
					ni.Update(UpdateInput{TableName: t, Expression: e2, Item: map[string]*types.Item{}})
				}
			}
			for _, k := range vKinds {
				ni.Match(MatchInput{TableName: reqTable, Expression: e2, ExpressionType: k})
			}
			called = 0
		}
		item := map[string]*types.Item{}
		err := ni.Update(UpdateInput{TableName: reqTable, Expression: e2, Item: item})
		want := same && regTable == reqTable
		nd.Assert((err == nil) == want, "C20-updater-dispatched-exactly")
		nd.Assert((called >= 1) == want, "C20-updater-callback-ran-iff-dispatched")
		if err != nil {
			nd.Assert(errors.Is(err, ErrUnsupportedFeature), "C20-updater-missing-is-unsupported")
			nd.Assert(len(item) == 0, "C20-updater-missing-leaves-item")
		} else {
			nd.Assert(len(item) == 1, "C20-updater-mutation-used")
		}
	}
	nd.Reach("end")
}

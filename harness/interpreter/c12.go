//go:build verif

package interpreter

import (
	"github.com/truora/minidyn/internal/nd"
	"github.com/truora/minidyn/types"
	"strconv"
)

const vTwo53 = int64(1) << 53

func vNum(n int64) *types.Item {
	s := nd.Itoa(n)
	return &types.Item{N: &s}
}

func vInRange(n int64) bool { return n >= -vTwo53 && n <= vTwo53 }

// VerifC12Compare: "a OP :x" on integer numerals equals the integer relation - for all 64-bit integers,
// or (while the float64 finding is confirmed) for all integers of magnitude up to 2^53.
func VerifC12Compare() {
	n1, n2 := nd.Int64("n1"), nd.Int64("n2")
	if nd.Known("C12-numbers-are-float64") {
		nd.Assume(vInRange(n1) && vInRange(n2))
	}
	ops := []string{"=", "<>", "<", "<=", ">", ">="}
	k := nd.Choice("op", len(ops))
	li := &Language{}
	got, err := li.Match(MatchInput{TableName: "t", Expression: "a " + ops[k] + " :x", ExpressionType: ExpressionTypeFilter,
		Item: map[string]*types.Item{"a": vNum(n1)}, Attributes: map[string]*types.Item{":x": vNum(n2)}})
	nd.Assert(err == nil, "C12-compare-noerr")
	want := false
	switch k {
	case 0:
		want = n1 == n2
	case 1:
		want = n1 != n2
	case 2:
		want = n1 < n2
	case 3:
		want = n1 <= n2
	case 4:
		want = n1 > n2
	case 5:
		want = n1 >= n2
	}
	nd.Assert(got == want, "C12-integers-compare-by-value ["+ops[k]+"]")
	nd.Reach("end")
}

// VerifC12Arith: SET a = a + :n, SET a = a - :n and ADD a :n compute the exact integer, and an attribute
// the update does not target keeps its numeric value.
func VerifC12Arith() {
	bits := nd.Param("bits", 16)
	var n1, n2, b int64
	if bits <= 16 {
		n1, n2, b = int64(nd.Int16("n1")), int64(nd.Int16("n2")), int64(nd.Int16("b"))
	} else {
		if nd.Known("C12-numbers-are-float64") {
			// the range in which doubles are exact: operands of 52 bits (sums of 53), bystander of 53 bits
			n1, n2, b = nd.IntBits("n1", 52), nd.IntBits("n2", 52), nd.IntBits("b", 53)
		} else {
			n1, n2, b = nd.Int64("n1"), nd.Int64("n2"), nd.Int64("b")
		}
	}
	exprs := []string{"SET a = a + :n", "SET a = a - :n", "ADD a :n", "SET a = :n - a", "SET a = :n - b", "SET a = :n + b", "SET a = a - :n, c = :n - a"}
	k := nd.Choice("expr", len(exprs))
	item := map[string]*types.Item{"a": vNum(n1), "b": vNum(b)}
	li := &Language{}
	err := li.Update(UpdateInput{TableName: "t", Expression: exprs[k], Item: item, Attributes: map[string]*types.Item{":n": vNum(n2)}})
	nd.Assert(err == nil, "C12-arith-noerr")
	if err != nil {
		return
	}
	want := n1 + n2
	switch k {
	case 1, 6:
		want = n1 - n2
	case 3:
		want = n2 - n1
	case 4: // an operand that is an attribute of the item: it is read, not changed (b is checked below)
		want = n2 - b
	case 5:
		want = n2 + b
	}
	if k == 6 {
		// two actions share the placeholder and the attribute a: each right-hand side sees the values of the pre-image
		gc, okc := int64(0), false
		if item["c"] != nil && item["c"].N != nil {
			gc, okc = nd.ParseInt(*item["c"].N)
		}
		nd.Assert(okc && gc == n2-n1, "C12-integer-arithmetic-is-exact [second action of "+exprs[k]+"]")
	}
	nd.Assert(item["a"] != nil && item["a"].N != nil && item["b"] != nil && item["b"].N != nil, "C12-arith-result-is-a-number")
	got, ok := nd.ParseInt(*item["a"].N)
	nd.Assert(ok && got == want, "C12-integer-arithmetic-is-exact ["+exprs[k]+"]")
	gb, ok := nd.ParseInt(*item["b"].N)
	nd.Assert(ok && gb == b, "C12-untargeted-number-keeps-its-value")
	nd.Reach("end")
}

// VerifC12Notation: numerals of equal value written differently are equal in conditions, in set membership
// and under IN; a finite list of notations (leading zeros, trailing zeros, exponent form, negative zero).
func VerifC12Notation() {
	pairs := [][2]string{{"1", "1.0"}, {"1", "01"}, {"10", "1e1"}, {"0", "-0"}, {"0.5", ".5"}, {"100", "1.00E2"}, {"7", "7.000"}, {"0.1", "0.10"},
		{"25000000000", "2.5e10"}, {"125000000000000000000", "1.25E+20"}, {"0.00000000015", "1.50e-10"}, {"10000000000000000", "1e16"}}
	p := pairs[nd.Choice("pair", len(pairs))]
	a, b := p[0], p[1]
	li := &Language{}
	num := func(s string) *types.Item { return &types.Item{N: &s} }
	checks := []struct {
		expr string
		item map[string]*types.Item
		vals map[string]*types.Item
	}{
		{"a = :x", map[string]*types.Item{"a": num(a)}, map[string]*types.Item{":x": num(b)}},
		{"a IN (:x)", map[string]*types.Item{"a": num(a)}, map[string]*types.Item{":x": num(b)}},
		{"contains(s, :x)", map[string]*types.Item{"s": {NS: []*string{&a}}}, map[string]*types.Item{":x": num(b)}},
		{"a BETWEEN :x AND :x", map[string]*types.Item{"a": num(a)}, map[string]*types.Item{":x": num(b)}},
		{"NOT a <> :x", map[string]*types.Item{"a": num(a)}, map[string]*types.Item{":x": num(b)}},
	}
	c := checks[nd.Choice("check", len(checks))]
	got, err := li.Match(MatchInput{TableName: "t", Expression: c.expr, ExpressionType: ExpressionTypeFilter, Item: c.item, Attributes: c.vals})
	nd.Assert(err == nil && got, "C12-equal-values-in-different-notation-are-equal ["+c.expr+"]")
	// and the converse on numbers that are close together but not equal (lo < hi): no tolerance, no truncation
	close := [][2]string{{"0.0000000004", "0.0000000005"}, {"3.1415926535", "3.1415926536"}, {"-0.75", "-0.5"}, {"1e-20", "2e-20"}, {"999999999.9999", "1000000000"}, {"4503599627370495.5", "4503599627370496"}}
	lh := close[nd.Choice("close-pair", len(close))]
	lo, hi := lh[0], lh[1]
	for _, t := range []struct {
		expr string
		want bool
	}{{"a = :x", false}, {"a <> :x", true}, {"a < :x", true}, {"a >= :x", false}, {"a BETWEEN :x AND :x", false}, {":x > a", true}, {"a IN (:x)", false}} {
		g, e := li.Match(MatchInput{TableName: "t", Expression: t.expr, ExpressionType: ExpressionTypeFilter,
			Item: map[string]*types.Item{"a": num(lo)}, Attributes: map[string]*types.Item{":x": num(hi)}})
		nd.Assert(e == nil && g == t.want, "C12-close-but-different-numbers-are-different ["+t.expr+"]")
	}
	nd.Reach("end")
}

// VerifC12Decimal: decimal arithmetic is exact (0.1 + 0.2 = 0.3). Concrete cases only: symbolic decimal text
// is outside the numeral model; the cases document the float64 finding and are skipped while it is confirmed.
func VerifC12Decimal() {
	if nd.Known("C12-numbers-are-float64") {
		nd.Reach("end")
		return
	}
	cases := [][3]string{{"0.1", "0.2", "0.3"}, {"1.1", "2.2", "3.3"}, {"0.7", "0.1", "0.8"}}
	c := cases[nd.Choice("case", len(cases))]
	a, n := c[0], c[1]
	item := map[string]*types.Item{"a": {N: &a}}
	li := &Language{}
	err := li.Update(UpdateInput{TableName: "t", Expression: "SET a = a + :n", Item: item, Attributes: map[string]*types.Item{":n": {N: &n}}})
	nd.Assert(err == nil && item["a"] != nil && item["a"].N != nil, "C12-decimal-noerr")
	nd.Assert(*item["a"].N == c[2], "C12-decimal-arithmetic-is-exact")
	nd.Reach("end")
}

// VerifC12Bystander: an update leaves the numeric value of numbers it does not target unchanged, for
// numerals in exponent form and beyond the int64 range that a double represents exactly.
func VerifC12Bystander() {
	numerals := []string{"1e20", "100000000000000000000", "-1e19", "1e22", "9223372036854775808", "-9223372036854775808", "4611686018427387904", "1.5", "-0.25", "1e-3", "0",
		"0.1", "16777217", "1e39", "123456789.125"}
	b := numerals[nd.Choice("numeral", len(numerals))]
	exprs := []string{"SET a = :v", "REMOVE a", "ADD n :one", "SET c = b"}
	e := exprs[nd.Choice("expr", len(exprs))]
	one, seven, v := "1", "7", nd.StringN("v", 1)
	item := map[string]*types.Item{"a": {S: &v}, "n": {N: &seven}, "b": {N: &b}, "l": {L: []*types.Item{{N: &b}}},
		"ns": {NS: []*string{&b}}, "m": {M: map[string]*types.Item{"k": {N: &b}}}}
	vals := map[string]*types.Item{}
	if e == "SET a = :v" {
		vals[":v"] = &types.Item{S: &v}
	}
	if e == "ADD n :one" {
		vals[":one"] = &types.Item{N: &one}
	}
	li := &Language{}
	err := li.Update(UpdateInput{TableName: "t", Expression: e, Item: item, Attributes: vals})
	nd.Assert(err == nil, "C12-bystander-noerr")
	same := func(it *types.Item) bool {
		if it == nil || it.N == nil {
			return false
		}
		got, err1 := strconv.ParseFloat(*it.N, 64)
		want, err2 := strconv.ParseFloat(b, 64)
		return err1 == nil && err2 == nil && got == want
	}
	nd.Assert(same(item["b"]), "C12-untargeted-number-keeps-its-value ["+b+"]")
	nd.Assert(item["l"] != nil && len(item["l"].L) == 1 && same(item["l"].L[0]), "C12-untargeted-nested-number-keeps-its-value ["+b+"]")
	nd.Assert(item["m"] != nil && same(item["m"].M["k"]), "C12-untargeted-map-member-number-keeps-its-value ["+b+"]")
	nd.Assert(item["ns"] != nil && len(item["ns"].NS) == 1 && item["ns"].NS[0] != nil && same(&types.Item{N: item["ns"].NS[0]}), "C12-untargeted-number-set-member-keeps-its-value ["+b+"]")
	if e == "SET c = b" {
		nd.Assert(same(item["c"]), "C12-copied-number-keeps-its-value ["+b+"]")
	}
	nd.Reach("end")
}

//go:build verif

package interpreter

import (
	"github.com/truora/minidyn/internal/nd"
	"github.com/truora/minidyn/types"
)

// vPow10 for the small scales of the decimal harnesses.
func vPow10(k int) int64 {
	r := int64(1)
	for ; k > 0; k-- {
		r *= 10
	}
	return r
}

// VerifC12Decimals: numbers with a fractional part compare by value. a = n1 x 10^-s1 and x = n2 x 10^-s2 for
// ALL integers n1, n2 of the given number of bits and scales s1, s2 in 0..2 (so: values less than one apart, equal
// values written with different numbers of fraction digits, negative fractions); "a OP :x" for the six
// comparators, "a BETWEEN :x AND :x", IN and set membership equal the exact relation between the two rationals,
// n1 x 10^s2 OP n2 x 10^s1. The texts are symbolic decimal numerals (nd.Decimal); the engine models
// strconv.ParseFloat of such a text as the correctly rounded quotient, and the solver decides the relation
// between the two quotients for every n1, n2.
func VerifC12Decimals() {
	bits := nd.Param("bits", 8)
	n1, n2 := nd.IntBits("n1", bits), nd.IntBits("n2", bits)
	s1, s2 := 0, 0
	light := nd.Param("light", 0) == 1 // the quick tier: four scale pairs and five expressions
	if light {
		sp := [][2]int{{2, 2}, {1, 2}, {2, 0}, {0, 1}}[nd.Choice("scales", 4)]
		s1, s2 = sp[0], sp[1]
	} else {
		s1, s2 = []int{0, 1, 2, 10}[nd.Choice("scale1", 4)], []int{0, 1, 2, 10}[nd.Choice("scale2", 4)]
	}
	a, x := nd.Decimal(n1, s1), nd.Decimal(n2, s2)
	// exact comparison of the two rationals on integers
	l, r := n1*vPow10(s2), n2*vPow10(s1)
	exprs := []string{"a = :x", "a <> :x", "a < :x", "a <= :x", "a > :x", "a >= :x", "a BETWEEN :x AND :x", "a IN (:x)", "NOT a = :x", "contains(s, :x)"}
	k := 0
	if light {
		k = []int{0, 2, 5, 6, 9}[nd.Choice("expr", 5)]
	} else {
		k = nd.Choice("expr", len(exprs))
	}
	item := map[string]*types.Item{"a": {N: &a}}
	if k == 9 {
		item = map[string]*types.Item{"s": {NS: []*string{&a}}}
	}
	li := &Language{}
	got, err := li.Match(MatchInput{TableName: "t", Expression: exprs[k], ExpressionType: ExpressionTypeFilter,
		Item: item, Attributes: map[string]*types.Item{":x": {N: &x}}})
	nd.Assert(err == nil, "C12-decimals-noerr ["+exprs[k]+"]")
	want := false
	switch k {
	case 0, 6, 7, 9:
		want = l == r
	case 1, 8:
		want = l != r
	case 2:
		want = l < r
	case 3:
		want = l <= r
	case 4:
		want = l > r
	case 5:
		want = l >= r
	}
	nd.Assert(got == want, "C12-decimal-fractions-compare-by-value ["+exprs[k]+"]")
	nd.Reach("end")
}

//go:build verif

package interpreter

import (
	"strconv"

	"github.com/truora/minidyn/internal/nd"
	"github.com/truora/minidyn/internal/vspec"
	"github.com/truora/minidyn/types"
)

type vVals = map[string]vspec.Val

func vCopyVals(m vVals) vVals {
	out := vVals{}
	for k, v := range m {
		out[k] = v
	}
	return out
}

func vS1(name string) vspec.Val { return vspec.Val{Kind: "S", S: nd.StringN(name, 1)} }
func vN(n int64) vspec.Val      { return vspec.Val{Kind: "N", N: n} }

// vUpdTemplate: a concrete update text and the reference transformation of the pre-image (nil = the
// statement does not fix the outcome for this pre-image, e.g. the right-hand side names a missing attribute).
type vUpdTemplate struct {
	text string
	vals []string
	ref  func(pre vVals, b vVals) vVals
}

func vWith(pre vVals, name string, v vspec.Val) vVals {
	out := vCopyVals(pre)
	out[name] = v
	return out
}

func vWithout(pre vVals, names ...string) vVals {
	out := vCopyVals(pre)
	for _, n := range names {
		delete(out, n)
	}
	return out
}

func vSetMember(m vspec.Val, k string, v vspec.Val) vspec.Val {
	nm := map[string]vspec.Val{}
	for a, x := range m.M {
		nm[a] = x
	}
	nm[k] = v
	return vspec.Val{Kind: "M", M: nm}
}

func vDelMember(m vspec.Val, k string) vspec.Val {
	nm := map[string]vspec.Val{}
	for a, x := range m.M {
		if a != k {
			nm[a] = x
		}
	}
	return vspec.Val{Kind: "M", M: nm}
}

func vHasSub(s, sub string) bool {
	for i := 0; i+len(sub) <= len(s); i++ {
		if s[i:i+len(sub)] == sub {
			return true
		}
	}
	return false
}

// vDeepSet / vDeepDel: set or delete the member at path inside nested maps (the intermediate maps exist).
func vDeepSet(m vspec.Val, path []string, v vspec.Val) vspec.Val {
	if len(path) == 1 {
		return vSetMember(m, path[0], v)
	}
	return vSetMember(m, path[0], vDeepSet(m.M[path[0]], path[1:], v))
}

func vDeepDel(m vspec.Val, path []string) vspec.Val {
	if len(path) == 1 {
		return vDelMember(m, path[0])
	}
	return vSetMember(m, path[0], vDeepDel(m.M[path[0]], path[1:]))
}

func vListSet(l vspec.Val, i int, v vspec.Val) vspec.Val {
	nl := append([]vspec.Val{}, l.L...)
	if i < len(nl) {
		nl[i] = v
	} else {
		nl = append(nl, v) // an index beyond the end appends
	}
	return vspec.Val{Kind: "L", L: nl}
}

func vListDel(l vspec.Val, i int) vspec.Val {
	nl := []vspec.Val{}
	for j, x := range l.L {
		if j != i {
			nl = append(nl, x)
		}
	}
	return vspec.Val{Kind: "L", L: nl}
}

func vUnionS(a, b []string) []string {
	out := append([]string{}, a...)
	for _, x := range b {
		f := false
		for _, y := range out {
			if x == y {
				f = true
			}
		}
		if !f {
			out = append(out, x)
		}
	}
	return out
}

func vMinusS(a, b []string) []string {
	out := []string{}
	for _, x := range a {
		f := false
		for _, y := range b {
			if x == y {
				f = true
			}
		}
		if !f {
			out = append(out, x)
		}
	}
	return out
}

func vHasN(a []int64, x int64) bool {
	for _, y := range a {
		if x == y {
			return true
		}
	}
	return false
}

func vUnionN(a, b []int64) []int64 {
	out := append([]int64{}, a...)
	for _, x := range b {
		if !vHasN(out, x) {
			out = append(out, x)
		}
	}
	return out
}

func vMinusN(a, b []int64) []int64 {
	out := []int64{}
	for _, x := range a {
		if !vHasN(b, x) {
			out = append(out, x)
		}
	}
	return out
}

func vHasB(a [][]byte, x []byte) bool {
	for _, y := range a {
		if string(x) == string(y) {
			return true
		}
	}
	return false
}

func vUnionB(a, b [][]byte) [][]byte {
	out := append([][]byte{}, a...)
	for _, x := range b {
		if !vHasB(out, x) {
			out = append(out, x)
		}
	}
	return out
}

func vMinusB(a, b [][]byte) [][]byte {
	out := [][]byte{}
	for _, x := range a {
		if !vHasB(b, x) {
			out = append(out, x)
		}
	}
	return out
}

func vTemplates() []vUpdTemplate {
	has := func(pre vVals, n string) bool { _, ok := pre[n]; return ok }
	return []vUpdTemplate{
		{"SET a = :v", []string{":v"}, func(p, b vVals) vVals { return vWith(p, "a", b[":v"]) }},
		{"SET a = b", nil, func(p, b vVals) vVals {
			if !has(p, "b") {
				return nil
			}
			return vWith(p, "a", p["b"])
		}},
		{"SET a = b, b = a", nil, func(p, b vVals) vVals {
			if !has(p, "a") || !has(p, "b") {
				return nil
			}
			return vWith(vWith(p, "a", p["b"]), "b", p["a"]) // every right-hand side reads the pre-update item
		}},
		{"SET n = n + :n", []string{":n"}, func(p, b vVals) vVals { return vWith(p, "n", vN(p["n"].N+b[":n"].N)) }},
		{"SET n = :n - n", []string{":n"}, func(p, b vVals) vVals { return vWith(p, "n", vN(b[":n"].N-p["n"].N)) }},
		{"SET a = if_not_exists(a, :v)", []string{":v"}, func(p, b vVals) vVals {
			if has(p, "a") {
				return p
			}
			return vWith(p, "a", b[":v"])
		}},
		{"SET a = if_not_exists(b, :v)", []string{":v"}, func(p, b vVals) vVals {
			if has(p, "b") {
				return vWith(p, "a", p["b"])
			}
			return vWith(p, "a", b[":v"])
		}},
		{"SET l = list_append(l, :l)", []string{":l"}, func(p, b vVals) vVals {
			return vWith(p, "l", vspec.Val{Kind: "L", L: append(append([]vspec.Val{}, p["l"].L...), b[":l"].L...)})
		}},
		{"SET l = list_append(:l, l)", []string{":l"}, func(p, b vVals) vVals {
			return vWith(p, "l", vspec.Val{Kind: "L", L: append(append([]vspec.Val{}, b[":l"].L...), p["l"].L...)})
		}},
		{"SET m.k = :v", []string{":v"}, func(p, b vVals) vVals { return vWith(p, "m", vSetMember(p["m"], "k", b[":v"])) }},
		{"SET m.z = :v", []string{":v"}, func(p, b vVals) vVals { return vWith(p, "m", vSetMember(p["m"], "z", b[":v"])) }},
		{"SET l[0] = :v", []string{":v"}, func(p, b vVals) vVals { return vWith(p, "l", vListSet(p["l"], 0, b[":v"])) }},
		{"SET l[1] = :v", []string{":v"}, func(p, b vVals) vVals { return vWith(p, "l", vListSet(p["l"], 1, b[":v"])) }},
		{"SET l[5] = :v", []string{":v"}, func(p, b vVals) vVals { return vWith(p, "l", vListSet(p["l"], 5, b[":v"])) }},
		{"REMOVE a", nil, func(p, b vVals) vVals { return vWithout(p, "a") }},
		{"REMOVE a, b", nil, func(p, b vVals) vVals { return vWithout(p, "a", "b") }},
		{"REMOVE m.k", nil, func(p, b vVals) vVals { return vWith(p, "m", vDelMember(p["m"], "k")) }},
		{"REMOVE l[0]", nil, func(p, b vVals) vVals { return vWith(p, "l", vListDel(p["l"], 0)) }},
		{"REMOVE l[1]", nil, func(p, b vVals) vVals { return vWith(p, "l", vListDel(p["l"], 1)) }},
		{"REMOVE zz", nil, func(p, b vVals) vVals { return p }},
		{"REMOVE l[2]", nil, func(p, b vVals) vVals { return p }}, // one past the end: nothing to remove
		{"REMOVE l[5]", nil, func(p, b vVals) vVals { return p }},
		{"REMOVE #a", nil, func(p, b vVals) vVals { return vWithout(p, "a") }},
		{"REMOVE m.#k", nil, func(p, b vVals) vVals { return vWith(p, "m", vDelMember(p["m"], "k")) }},
		{"SET #a = :v", []string{":v"}, func(p, b vVals) vVals { return vWith(p, "a", b[":v"]) }},
		{"SET b = #a", nil, func(p, b vVals) vVals {
			if !has(p, "a") {
				return nil
			}
			return vWith(p, "b", p["a"])
		}},
		{"ADD #n :n", []string{":n"}, func(p, b vVals) vVals { return vWith(p, "n", vN(p["n"].N+b[":n"].N)) }},
		{"ADD n :n", []string{":n"}, func(p, b vVals) vVals { return vWith(p, "n", vN(p["n"].N+b[":n"].N)) }},
		{"ADD fresh :n", []string{":n"}, func(p, b vVals) vVals { return vWith(p, "fresh", b[":n"]) }},
		{"ADD s :s", []string{":s"}, func(p, b vVals) vVals {
			return vWith(p, "s", vspec.Val{Kind: "SS", SS: vUnionS(p["s"].SS, b[":s"].SS)})
		}},
		{"ADD fresh :s", []string{":s"}, func(p, b vVals) vVals { return vWith(p, "fresh", b[":s"]) }},
		{"DELETE s :s", []string{":s"}, func(p, b vVals) vVals {
			rest := vMinusS(p["s"].SS, b[":s"].SS)
			if len(rest) == 0 {
				return nil // whether an emptied set disappears is not fixed by the statement
			}
			return vWith(p, "s", vspec.Val{Kind: "SS", SS: rest})
		}},
		{"DELETE fresh :s", []string{":s"}, func(p, b vVals) vVals { return p }},
		{"SET a = :v REMOVE b", []string{":v"}, func(p, b vVals) vVals { return vWithout(vWith(p, "a", b[":v"]), "b") }},
		{"REMOVE b SET a = b", nil, func(p, b vVals) vVals {
			if !has(p, "b") {
				return nil
			}
			return vWithout(vWith(p, "a", p["b"]), "b")
		}},
		{"SET a = :v ADD n :n", []string{":v", ":n"}, func(p, b vVals) vVals {
			return vWith(vWith(p, "a", b[":v"]), "n", vN(p["n"].N+b[":n"].N))
		}},
		{"set a = :v remove b", []string{":v"}, func(p, b vVals) vVals { return vWithout(vWith(p, "a", b[":v"]), "b") }},
		{"SET c = n ADD n :n", []string{":n"}, func(p, b vVals) vVals { return vWith(vWith(p, "c", p["n"]), "n", vN(p["n"].N+b[":n"].N)) }},
		{"SET c = s ADD s :s", []string{":s"}, func(p, b vVals) vVals {
			return vWith(vWith(p, "c", p["s"]), "s", vspec.Val{Kind: "SS", SS: vUnionS(p["s"].SS, b[":s"].SS)})
		}},
		{"SET c = l, l[0] = :v", []string{":v"}, func(p, b vVals) vVals { return vWith(vWith(p, "c", p["l"]), "l", vListSet(p["l"], 0, b[":v"])) }},
		{"SET c = m, m.k = :v", []string{":v"}, func(p, b vVals) vVals { return vWith(vWith(p, "c", p["m"]), "m", vSetMember(p["m"], "k", b[":v"])) }},
		{"SET c = l REMOVE l[0]", nil, func(p, b vVals) vVals { return vWith(vWith(p, "c", p["l"]), "l", vListDel(p["l"], 0)) }},
		// operands that are attributes of the item keep their values; one placeholder used by two actions
		{"SET c = n - o", nil, func(p, b vVals) vVals { return vWith(p, "c", vN(p["n"].N-p["o"].N)) }},
		{"SET c = n + o", nil, func(p, b vVals) vVals { return vWith(p, "c", vN(p["n"].N+p["o"].N)) }},
		{"SET n = n - :n, o = o - :n", []string{":n"}, func(p, b vVals) vVals {
			return vWith(vWith(p, "n", vN(p["n"].N-b[":n"].N)), "o", vN(p["o"].N-b[":n"].N))
		}},
		{"SET n = n + :n, o = o + :n", []string{":n"}, func(p, b vVals) vVals {
			return vWith(vWith(p, "n", vN(p["n"].N+b[":n"].N)), "o", vN(p["o"].N+b[":n"].N))
		}},
		{"SET c = o ADD c :n", []string{":n"}, func(p, b vVals) vVals { return vWith(p, "c", vN(p["o"].N+b[":n"].N)) }},
		// the same without white space around the operators
		{"SET n=n-:n", []string{":n"}, func(p, b vVals) vVals { return vWith(p, "n", vN(p["n"].N-b[":n"].N)) }},
		{"SET n = n-:n", []string{":n"}, func(p, b vVals) vVals { return vWith(p, "n", vN(p["n"].N-b[":n"].N)) }},
		{"SET n=n+:n,a=:v", []string{":n", ":v"}, func(p, b vVals) vVals { return vWith(vWith(p, "n", vN(p["n"].N+b[":n"].N)), "a", b[":v"]) }},
		{"SET l[0]=:v REMOVE m.k,b", []string{":v"}, func(p, b vVals) vVals {
			return vWithout(vWith(vWith(p, "l", vListSet(p["l"], 0, b[":v"])), "m", vDelMember(p["m"], "k")), "b")
		}},
		// document paths of three and four segments: the addressed member changes, its siblings at every level stay
		{"SET d.e.f.g = :v", []string{":v"}, func(p, b vVals) vVals { return vWith(p, "d", vDeepSet(p["d"], []string{"e", "f", "g"}, b[":v"])) }},
		{"REMOVE d.e.f.g", nil, func(p, b vVals) vVals { return vWith(p, "d", vDeepDel(p["d"], []string{"e", "f", "g"})) }},
		{"SET d.e.f2 = :v", []string{":v"}, func(p, b vVals) vVals { return vWith(p, "d", vDeepSet(p["d"], []string{"e", "f2"}, b[":v"])) }},
		{"SET gl[1][0].v = :v", []string{":v"}, func(p, b vVals) vVals {
			rows := append([]vspec.Val{}, p["gl"].L...)
			cells := append([]vspec.Val{}, rows[1].L...)
			cells[0] = vSetMember(cells[0], "v", b[":v"])
			rows[1] = vspec.Val{Kind: "L", L: cells}
			return vWith(p, "gl", vspec.Val{Kind: "L", L: rows})
		}},
		{"REMOVE gl[0][1].v", nil, func(p, b vVals) vVals {
			rows := append([]vspec.Val{}, p["gl"].L...)
			cells := append([]vspec.Val{}, rows[0].L...)
			cells[1] = vDelMember(cells[1], "v")
			rows[0] = vspec.Val{Kind: "L", L: cells}
			return vWith(p, "gl", vspec.Val{Kind: "L", L: rows})
		}},
		// an assignment replaces the value whatever its type was - also when the old and the new value print alike
		{"SET a = :n", []string{":n"}, func(p, b vVals) vVals { return vWith(p, "a", b[":n"]) }},
		{"SET a = :t", []string{":t"}, func(p, b vVals) vVals { return vWith(p, "a", b[":t"]) }},
		// a list as the assigned value is one element; list_append builds a new list and leaves its operands alone
		{"SET l[5] = :l", []string{":l"}, func(p, b vVals) vVals { return vWith(p, "l", vListSet(p["l"], 5, b[":l"])) }},
		{"SET l[0] = :l", []string{":l"}, func(p, b vVals) vVals { return vWith(p, "l", vListSet(p["l"], 0, b[":l"])) }},
		{"SET c = list_append(l, :l)", []string{":l"}, func(p, b vVals) vVals {
			return vWith(p, "c", vspec.Val{Kind: "L", L: append(append([]vspec.Val{}, p["l"].L...), b[":l"].L...)})
		}},
		{"SET c = list_append(:l, l), d = list_append(:l, l)", []string{":l"}, func(p, b vVals) vVals {
			nl := vspec.Val{Kind: "L", L: append(append([]vspec.Val{}, b[":l"].L...), p["l"].L...)}
			return vWith(vWith(p, "c", nl), "d", nl)
		}},
		{"SET l = list_append(l, :l), c = list_append(l, :l)", []string{":l"}, func(p, b vVals) vVals {
			nl := vspec.Val{Kind: "L", L: append(append([]vspec.Val{}, p["l"].L...), b[":l"].L...)}
			return vWith(vWith(p, "l", nl), "c", nl)
		}},
		// clauses in the other order: a right-hand side still reads the pre-update item
		{"ADD n :n SET c = n", []string{":n"}, func(p, b vVals) vVals { return vWith(vWith(p, "c", p["n"]), "n", vN(p["n"].N+b[":n"].N)) }},
		{"REMOVE a SET c = a", nil, func(p, b vVals) vVals {
			if !has(p, "a") {
				return nil
			}
			return vWithout(vWith(p, "c", p["a"]), "a")
		}},
		{"SET l[0] = :v, l[1] = :w", []string{":v", ":w"}, func(p, b vVals) vVals {
			return vWith(p, "l", vListSet(vListSet(p["l"], 0, b[":v"]), 1, b[":w"]))
		}},
		{"SET m.k = :v, m.j = :w", []string{":v", ":w"}, func(p, b vVals) vVals {
			return vWith(p, "m", vSetMember(vSetMember(p["m"], "k", b[":v"]), "j", b[":w"]))
		}},
		{"SET a = if_not_exists(zz, :v), b = if_not_exists(n, :w)", []string{":v", ":w"}, func(p, b vVals) vVals {
			return vWith(vWith(p, "a", b[":v"]), "b", p["n"])
		}},
		// number sets and binary sets: union and difference by value
		{"ADD ns :ns", []string{":ns"}, func(p, b vVals) vVals {
			return vWith(p, "ns", vspec.Val{Kind: "NS", NS: vUnionN(p["ns"].NS, b[":ns"].NS)})
		}},
		{"DELETE ns :ns", []string{":ns"}, func(p, b vVals) vVals {
			rest := vMinusN(p["ns"].NS, b[":ns"].NS)
			if len(rest) == 0 {
				return nil
			}
			return vWith(p, "ns", vspec.Val{Kind: "NS", NS: rest})
		}},
		{"ADD bs :bs", []string{":bs"}, func(p, b vVals) vVals {
			return vWith(p, "bs", vspec.Val{Kind: "BS", BS: vUnionB(p["bs"].BS, b[":bs"].BS)})
		}},
		{"DELETE bs :bs", []string{":bs"}, func(p, b vVals) vVals {
			rest := vMinusB(p["bs"].BS, b[":bs"].BS)
			if len(rest) == 0 {
				return nil
			}
			return vWith(p, "bs", vspec.Val{Kind: "BS", BS: rest})
		}},
		{"ADD fresh :bs", []string{":bs"}, func(p, b vVals) vVals { return vWith(p, "fresh", b[":bs"]) }},
		{"DELETE fresh :ns", []string{":ns"}, func(p, b vVals) vVals { return p }},
		{"SET c = bs DELETE bs :bs", []string{":bs"}, func(p, b vVals) vVals {
			rest := vMinusB(p["bs"].BS, b[":bs"].BS)
			if len(rest) == 0 {
				return nil
			}
			return vWith(vWith(p, "c", p["bs"]), "bs", vspec.Val{Kind: "BS", BS: rest})
		}},
	}
}

// VerifC07Update: each update template applied by Language.Update to an item with symbolic payloads equals
// the reference transformation of the pre-image; in particular every untargeted attribute (of every type,
// drawn as the bystander u) keeps its value.
func VerifC07Update() {
	ts := vTemplates()
	ti := nd.Param("template", -1) // debugging: restrict to one template
	if ti < 0 {
		ti = nd.Choice("template", len(ts))
	}
	t := ts[ti]
	pre := vVals{
		"n": vN(7),
		"o": vN(3),
		"m": {Kind: "M", M: map[string]vspec.Val{"k": vS1("mk"), "j": vS1("mj")}},
		"l": {Kind: "L", L: []vspec.Val{vS1("l0"), vS1("l1")}},
		"s": {Kind: "SS", SS: []string{nd.StringN("s0", 1), nd.StringN("s1", 1)}},
	}
	nd.Assume(pre["s"].SS[0] != pre["s"].SS[1]) // the members of a set are distinct
	if len(t.vals) > 0 && (t.vals[0] == ":ns" || t.vals[0] == ":bs") {
		// the number set and the binary set exist only for the templates that name them
		pre["ns"] = vspec.Val{Kind: "NS", NS: []int64{3, int64(nd.Int16("ns1"))}}
		nd.Assume(pre["ns"].NS[1] != 3)
		pre["bs"] = vspec.Val{Kind: "BS", BS: [][]byte{nd.Bytes("bs0", 1), nd.Bytes("bs1", 1)}}
		nd.Assume(pre["bs"].BS[0][0] != pre["bs"].BS[1][0])
	}
	if vHasSub(t.text, " d.") || vHasSub(t.text, " gl[") {
		cell := func(n string) vspec.Val {
			return vspec.Val{Kind: "M", M: map[string]vspec.Val{"v": vS1(n), "w": vS1(n + "w")}}
		}
		pre["d"] = vspec.Val{Kind: "M", M: map[string]vspec.Val{"x": vS1("dx"), "e": {Kind: "M", M: map[string]vspec.Val{"y": vS1("dy"),
			"f": {Kind: "M", M: map[string]vspec.Val{"g": vS1("dg"), "z": vS1("dz")}}}}}}
		pre["gl"] = vspec.Val{Kind: "L", L: []vspec.Val{{Kind: "L", L: []vspec.Val{cell("c00"), cell("c01")}}, {Kind: "L", L: []vspec.Val{cell("c10"), cell("c11")}}}}
	}
	if nd.Choice("has-a", 2) == 1 {
		pre["a"] = vS1("a")
	}
	if nd.Choice("has-b", 2) == 1 {
		pre["b"] = vS1("b")
	}
	// the bystander: any type, including boundary members (empty string, empty binary, false, NULL)
	ukinds := append([]string{}, vspec.Kinds[1:]...)
	uk := nd.Choice("bystander", len(ukinds)+5)
	switch {
	case uk < len(ukinds):
		pre["u"] = vspec.GenVal("u", ukinds[uk], 1)
	case uk == len(ukinds):
		pre["u"] = vspec.Val{Kind: "S", S: ""}
	case uk == len(ukinds)+1:
		pre["u"] = vspec.Val{Kind: "B", B: []byte{}}
	case uk == len(ukinds)+2:
		pre["u"] = vspec.Val{Kind: "L", L: []vspec.Val{}} // an empty list is a list
	case uk == len(ukinds)+3:
		pre["u"] = vspec.Val{Kind: "M", M: map[string]vspec.Val{}}
	default:
		// containers inside containers, one of them empty
		pre["u"] = vspec.Val{Kind: "M", M: map[string]vspec.Val{"e": {Kind: "L", L: []vspec.Val{}}, "f": {Kind: "L", L: []vspec.Val{{Kind: "M", M: map[string]vspec.Val{}}}}}}
	}
	b := vVals{}
	for _, name := range t.vals {
		switch name {
		case ":v":
			b[name] = vS1("v")
		case ":w":
			b[name] = vS1("w")
		case ":t":
			b[name] = vspec.Val{Kind: "BOOL", Bool: true}
		case ":n":
			b[name] = vN(5)
		case ":l":
			b[name] = vspec.Val{Kind: "L", L: []vspec.Val{vS1("bl0")}}
		case ":s":
			b[name] = vspec.Val{Kind: "SS", SS: []string{nd.StringN("bs0", 1)}}
		case ":ns":
			b[name] = vspec.Val{Kind: "NS", NS: []int64{int64(nd.Int16("ons0"))}}
		case ":bs":
			// one or two members
			bs := [][]byte{nd.Bytes("obs0", 1)}
			if nd.Choice("obs.len", 2) == 1 {
				bs = append(bs, nd.Bytes("obs1", 1))
				nd.Assume(bs[0][0] != bs[1][0])
			}
			b[name] = vspec.Val{Kind: "BS", BS: bs}
		}
	}
	names := []string{"a", "b", "n", "o", "m", "l", "s", "u", "ns", "bs", "d", "gl"}
	item := vspec.ToItems(pre, names)
	li := &Language{}
	aliases := map[string]string{}
	for _, al := range [][2]string{{"#a", "a"}, {"#k", "k"}, {"#n", "n"}} {
		for i := 0; i+2 <= len(t.text); i++ {
			if t.text[i:i+2] == al[0] {
				aliases[al[0]] = al[1]
				break
			}
		}
	}
	// one more untargeted attribute, outside the reference model: a number beyond the int64 range, also
	// nested; whatever the update does, its value stays
	bigText := []string{"10000000000000000000", "-1e30", "0.1"}[nd.Choice("big-number", 3)]
	b1, b2 := bigText, bigText
	item["big"] = &types.Item{N: &b1}
	item["bigs"] = &types.Item{L: []*types.Item{{N: &b2}}}
	if nd.Param("prime", 1) == 1 {
		// what the interpreter did before must not matter: it first applies the text with the case of its attribute
		// names swapped (and its #names bound to the swapped names), then the very text to another item with
		// other values; both on scratch items, outcomes ignored
		flipped := map[string]string{}
		for k, v := range aliases {
			flipped[k] = vSwapCase(v)
		}
		li.Update(UpdateInput{TableName: "t", Expression: vFlipNames(t.text), Item: vspec.ToItems(pre, names), Attributes: vspec.ToItems(b, t.vals), Aliases: flipped})
		otherVals := vVals{}
		for k, v := range b {
			switch v.Kind {
			case "S":
				otherVals[k] = vspec.Val{Kind: "S", S: "prime"}
			case "N":
				otherVals[k] = vN(1000)
			default:
				otherVals[k] = v
			}
		}
		scratch := vVals{"n": vN(100), "o": vN(50), "a": {Kind: "S", S: "prime"}, "b": {Kind: "S", S: "prime"},
			"m": {Kind: "M", M: map[string]vspec.Val{"k": {Kind: "S", S: "prime"}}}, "l": {Kind: "L", L: []vspec.Val{{Kind: "S", S: "prime"}, {Kind: "S", S: "prime"}}},
			"s": {Kind: "SS", SS: []string{"prime"}}}
		li.Update(UpdateInput{TableName: "t", Expression: t.text, Item: vspec.ToItems(scratch, []string{"n", "o", "a", "b", "m", "l", "s"}), Attributes: vspec.ToItems(otherVals, t.vals), Aliases: aliases})
	}
	err := li.Update(UpdateInput{TableName: "t", Expression: t.text, Item: item, Attributes: vspec.ToItems(b, t.vals), Aliases: aliases})
	sameBig := func(it *types.Item) bool {
		if it == nil || it.N == nil {
			return false
		}
		got, e1 := strconv.ParseFloat(*it.N, 64)
		wantBig, e2 := strconv.ParseFloat(bigText, 64)
		return e1 == nil && e2 == nil && got == wantBig
	}
	nd.Assert(sameBig(item["big"]), "C07-untargeted-large-number-keeps-value ["+t.text+"]")
	nd.Assert(item["bigs"] != nil && len(item["bigs"].L) == 1 && sameBig(item["bigs"].L[0]), "C07-untargeted-nested-large-number-keeps-value ["+t.text+"]")
	delete(item, "big")
	delete(item, "bigs")
	want := t.ref(pre, b)
	if want == nil {
		nd.Reach("unspecified")
		if err != nil {
			// a rejected update must not have touched the item
			nd.Assert(vspec.SameItem(pre, item), "C07-rejected-update-leaves-item ["+t.text+"]")
		}
	} else {
		nd.Reach("specified")
		nd.Assert(err == nil, "C07-wellformed-update-applies ["+t.text+"]")
		if err == nil {
			nd.Assert(vspec.SameItem(want, item), "C07-item-after-update ["+t.text+"]")
			got, ok := item["u"]
			nd.Assert(ok && vspec.SameValue(pre["u"], got), "C07-untargeted-attribute-keeps-value ["+t.text+"]")
		}
	}
	nd.Reach("end")
}

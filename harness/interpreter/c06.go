//go:build verif

package interpreter

import (
	"reflect"

	"github.com/truora/minidyn/internal/nd"
	"github.com/truora/minidyn/internal/vspec"
	"github.com/truora/minidyn/types"
)

// vTemplate is a concrete expression text plus the operands it mentions.
type vTemplate struct {
	text   string
	attrs  []string // attribute names whose kind/payload is drawn
	values []string // ":x" placeholders drawn likewise
}

func vKindSet(tier int) []string {
	if tier == 0 {
		return []string{"-", "S", "N", "BOOL", "NULL", "L", "B", "M"}
	}
	return vspec.Kinds
}

var vKeepWords = map[string]bool{"AND": true, "OR": true, "NOT": true, "BETWEEN": true, "IN": true, "SET": true, "REMOVE": true, "ADD": true, "DELETE": true,
	"ATTRIBUTE_EXISTS": true, "ATTRIBUTE_NOT_EXISTS": true, "ATTRIBUTE_TYPE": true, "BEGINS_WITH": true, "CONTAINS": true, "SIZE": true,
	"IF_NOT_EXISTS": true, "LIST_APPEND": true}

func vIsNameByte(c byte) bool {
	return c >= 'a' && c <= 'z' || c >= 'A' && c <= 'Z' || c >= '0' && c <= '9' || c == '_' || c == '#' || c == ':'
}

func vUpperASCII(s string) string {
	b := []byte(s)
	for i, c := range b {
		if c >= 'a' && c <= 'z' {
			b[i] = c - 32
		}
	}
	return string(b)
}

func vSwapCase(s string) string {
	b := []byte(s)
	for i, c := range b {
		if c >= 'a' && c <= 'z' {
			b[i] = c - 32
		} else if c >= 'A' && c <= 'Z' {
			b[i] = c + 32
		}
	}
	return string(b)
}

// vFlipNames returns the expression text with the letter case of every bare attribute name swapped (keywords,
// function names, placeholders and numbers stay): another expression that an interpreter must keep apart from
// the original, however it remembers what it has parsed before.
func vFlipNames(text string) string {
	out := ""
	for i := 0; i < len(text); {
		if !vIsNameByte(text[i]) {
			out += text[i : i+1]
			i++
			continue
		}
		j := i
		for j < len(text) && vIsNameByte(text[j]) {
			j++
		}
		w := text[i:j]
		if w[0] == '#' || w[0] == ':' || w[0] >= '0' && w[0] <= '9' || vKeepWords[vUpperASCII(w)] {
			out += w
		} else {
			out += vSwapCase(w)
		}
		i = j
	}
	return out
}

// vPrimeCondition makes the interpreter evaluate, before the evaluation that is checked, (1) the text with the
// case of its attribute names swapped and its #names bound to the swapped attribute names and (2) the very
// text on another item and other values. The outcomes are ignored: what is checked afterwards must not depend
// on them (no state carried from one evaluation to the next can change a verdict).
func vPrimeCondition(li *Language, expr string, vals map[string]vspec.Val, valOrder []string, aliases map[string]string) {
	flipped := map[string]string{}
	for k, v := range aliases {
		flipped[k] = vSwapCase(v)
	}
	other := map[string]vspec.Val{"a": {Kind: "S", S: "prime"}, "A": {Kind: "N", N: 1}}
	li.Match(MatchInput{TableName: "t", Expression: vFlipNames(expr), ExpressionType: ExpressionTypeFilter,
		Item: vspec.ToItems(other, []string{"a", "A"}), Attributes: vspec.ToItems(vals, valOrder), Aliases: flipped})
	otherVals := map[string]vspec.Val{}
	for k := range vals {
		otherVals[k] = vspec.Val{Kind: "S", S: "prime"}
	}
	li.Match(MatchInput{TableName: "t", Expression: expr, ExpressionType: ExpressionTypeFilter,
		Item: vspec.ToItems(other, []string{"a", "A"}), Attributes: vspec.ToItems(otherVals, valOrder), Aliases: aliases})
}

// vMatch runs the implementation on the item built in the given attribute order.
func vMatch(li *Language, expr string, item map[string]vspec.Val, order []string, vals map[string]vspec.Val, valOrder []string, aliases map[string]string) (bool, error, map[string]*types.Item) {
	it := vspec.ToItems(item, order)
	ok, err := li.Match(MatchInput{TableName: "t", Expression: expr, ExpressionType: ExpressionTypeFilter,
		Item: it, Attributes: vspec.ToItems(vals, valOrder), Aliases: aliases})
	return ok, err, it
}

func vReverse(s []string) []string {
	out := make([]string, len(s))
	for i := range s {
		out[len(s)-1-i] = s[i]
	}
	return out
}

// vCheckCondition compares the implementation's verdict with the reference on one expression/environment.
func vCheckCondition(expr string, item map[string]vspec.Val, order []string, vals map[string]vspec.Val, valOrder []string, aliases map[string]string, id string) {
	ast := vspec.ParseCondition(expr)
	nd.Assert(ast != nil, id+"-template-is-a-sentence")
	if ast == nil {
		return
	}
	env := &vspec.Env{Item: item, Values: vals, Aliases: aliases}
	want := env.Eval(ast)
	li := &Language{}
	if nd.Param("prime", 1) == 1 {
		vPrimeCondition(li, expr, vals, valOrder, aliases)
	}
	got, err, it := vMatch(li, expr, item, order, vals, valOrder, aliases)
	if want != vspec.Unspec {
		nd.Reach("specified")
		nd.Assert(err == nil, id+"-wellformed-evaluates")
		if err == nil {
			nd.Assert(got == (want == vspec.True), id+"-truth-value")
		}
	} else {
		nd.Reach("unspecified")
	}
	// evaluation never modifies the item
	nd.Assert(reflect.DeepEqual(it, vspec.ToItems(item, order)), id+"-item-not-modified")
	// and does not depend on attribute order
	got2, err2, _ := vMatch(li, expr, item, vReverse(order), vals, vReverse(valOrder), aliases)
	nd.Assert((err == nil) == (err2 == nil) && got == got2, id+"-attribute-order-independent")
}

var vCmpOps = []string{"=", "<>", "<", "<=", ">", ">="}

// VerifC06Compare: comparators x operand typing. "a OP :v", ":v OP a" and "a OP b" with every operand
// independently absent or of any attribute type, payloads symbolic.
func VerifC06Compare() {
	tier, cap := nd.Param("kinds", 0), nd.Param("cap", 1)
	kinds := vKindSet(tier)
	op := vCmpOps[nd.Choice("op", len(vCmpOps))]
	form := nd.Choice("form", 3)
	item := map[string]vspec.Val{}
	vals := map[string]vspec.Val{}
	ka := kinds[nd.Choice("kind.a", len(kinds))]
	if ka != "-" {
		item["a"] = vspec.GenVal("a", ka, cap)
	}
	var expr string
	switch form {
	case 0, 1:
		kv := kinds[1+nd.Choice("kind.v", len(kinds)-1)]
		vals[":v"] = vspec.GenVal("v", kv, cap)
		if form == 0 {
			expr = "a " + op + " :v"
		} else {
			expr = ":v " + op + " a"
		}
	case 2:
		kb := kinds[nd.Choice("kind.b", len(kinds))]
		if kb != "-" {
			item["b"] = vspec.GenVal("b", kb, cap)
		}
		expr = "a " + op + " b"
	}
	vCheckCondition(expr, item, []string{"a", "b"}, vals, []string{":v"}, nil, "C06-cmp")
	nd.Reach("end")
}

// VerifC06Logic: precedence and associativity of AND / OR / NOT / parentheses over atoms whose truth
// values are independent (aI = :xI on symbolic strings), including lower-case keywords.
func VerifC06Logic() {
	texts := []string{
		"a = :x AND b = :y", "a = :x OR b = :y", "NOT a = :x", "NOT a = :x AND b = :y", "NOT a = :x OR b = :y",
		"a = :x OR b = :y AND c = :z", "a = :x AND b = :y OR c = :z", "(a = :x OR b = :y) AND c = :z",
		"NOT (a = :x OR b = :y)", "NOT (a = :x AND b = :y)", "a = :x AND NOT b = :y OR c = :z", "a = :x OR NOT b = :y AND c = :z",
		"NOT NOT a = :x", "a = :x AND (b = :y OR c = :z)", "((a = :x))", "a = :x AND b = :y AND c = :z", "a = :x OR b = :y OR c = :z",
		"a <> :x AND b < :y OR c >= :z",
	}
	if nd.Param("lowercase", 1) == 1 {
		texts = append(texts, "a = :x and b = :y", "a = :x or b = :y", "not a = :x", "a = :x And b = :y")
	}
	expr := texts[nd.Choice("text", len(texts))]
	item := map[string]vspec.Val{}
	for _, n := range []string{"a", "b", "c"} {
		item[n] = vspec.Val{Kind: "S", S: nd.StringN(n, 1)}
	}
	vals := map[string]vspec.Val{}
	used := []string{}
	for _, n := range []string{":x", ":y", ":z"} {
		// only the placeholders the text mentions are supplied
		for i := 0; i+2 <= len(expr); i++ {
			if expr[i:i+2] == n {
				vals[n] = vspec.Val{Kind: "S", S: nd.StringN(n[1:], 1)}
				used = append(used, n)
				break
			}
		}
	}
	vCheckCondition(expr, item, []string{"a", "b", "c"}, vals, used, nil, "C06-logic")
	nd.Reach("end")
}

// VerifC06Func: the condition functions, BETWEEN and IN over every operand typing.
func VerifC06Func() {
	tier, cap := nd.Param("kinds", 0), nd.Param("cap", 2)
	kinds := vKindSet(tier)
	texts := []string{
		"attribute_exists(a)", "attribute_not_exists(a)", "attribute_type(a, :t)", "begins_with(a, :v)", "contains(a, :v)",
		"size(a) = :n", "size(a) > :n", "a BETWEEN :v AND :w", "a IN (:v, :w)", "a IN (:v)", "NOT attribute_exists(a)", "NOT contains(a, :v)",
		"NOT a BETWEEN :v AND :w", "NOT a IN (:v, :w)", "a BETWEEN :v AND :v", "NOT begins_with(a, :v)", "attribute_exists(a) AND a BETWEEN :v AND :w",
		"a IN (:v, :w, :v)", "size(a) >= :n", "size(a) < :n", "size(a) <> :n", "a = :v OR a = :w", "NOT (a < :v)", "contains(a, :v) OR begins_with(a, :v)",
		"attribute_not_exists(a) OR a <> :v", "a BETWEEN :v AND :w AND NOT a = :v", "(a IN (:v)) AND attribute_exists(a)",
	}
	expr := texts[nd.Choice("text", len(texts))]
	item := map[string]vspec.Val{}
	ka := kinds[nd.Choice("kind.a", len(kinds))]
	if ka != "-" {
		item["a"] = vspec.GenVal("a", ka, cap)
	}
	vals := map[string]vspec.Val{}
	var used []string
	has := func(sub string) bool {
		for i := 0; i+len(sub) <= len(expr); i++ {
			if expr[i:i+len(sub)] == sub {
				return true
			}
		}
		return false
	}
	if has(":t") {
		vals[":t"] = vspec.Val{Kind: "S", S: vspec.Kinds[1+nd.Choice("typename", len(vspec.Kinds)-1)]}
		used = append(used, ":t")
	}
	if has(":n") {
		vals[":n"] = vspec.GenVal("n", "N", cap)
		used = append(used, ":n")
	}
	if has(":v") {
		vals[":v"] = vspec.GenVal("v", kinds[1+nd.Choice("kind.v", len(kinds)-1)], cap)
		used = append(used, ":v")
	}
	if has(":w") {
		kw := vals[":v"].Kind
		if nd.Choice("w-other-kind", 2) == 1 {
			kw = kinds[1+nd.Choice("kind.w", len(kinds)-1)]
		}
		vals[":w"] = vspec.GenVal("w", kw, cap)
		used = append(used, ":w")
	}
	vCheckCondition(expr, item, []string{"a"}, vals, used, nil, "C06-func")
	nd.Reach("end")
}

// VerifC06Path: document paths (map members, list elements, aliases), with missing parents and
// out-of-range indexes.
func VerifC06Path() {
	texts := []string{
		"m.k = :v", "m.missing = :v", "m.k <> :v", "x.k = :v", "l[0] = :v", "l[1] = :v", "l[2] = :v", "l[1] <> :v",
		"#n = :v", "#m.#k = :v", "#m.k = :v", "m.inner.j = :v", "m.k.j = :v",
		"attribute_exists(m.k)", "attribute_exists(m.missing)", "attribute_exists(l[1])", "attribute_not_exists(l[5])", "attribute_exists(x.k)",
		"begins_with(m.k, :v)", "size(l) = :n", "size(m) = :n",
		// a top-level attribute whose name contains a dot, reachable only through a placeholder: it is that
		// attribute, not the path m -> k
		"#d = :v", "#d <> :v", "attribute_exists(#d)", "#e = :v", "attribute_exists(#e)",
	}
	expr := texts[nd.Choice("text", len(texts))]
	lv := []vspec.Val{{Kind: "S", S: nd.StringN("l0", 1)}}
	if nd.Choice("llen", 2) == 1 {
		lv = append(lv, vspec.Val{Kind: "S", S: nd.StringN("l1", 1)})
	}
	item := map[string]vspec.Val{
		"a": {Kind: "S", S: nd.StringN("a", 1)},
		"m": {Kind: "M", M: map[string]vspec.Val{"k": {Kind: "S", S: nd.StringN("mk", 1)}, "inner": {Kind: "M", M: map[string]vspec.Val{"j": {Kind: "S", S: nd.StringN("mj", 1)}}}}},
		"l": {Kind: "L", L: lv},
	}
	order := []string{"a", "m", "l"}
	for i := 0; i+2 <= len(expr); i++ {
		if expr[i:i+2] == "#d" || expr[i:i+2] == "#e" {
			// "m.k" exists both as a dotted top-level name and as a path; "x.y" only as a dotted name
			item["m.k"] = vspec.Val{Kind: "S", S: nd.StringN("dotted", 1)}
			item["x.y"] = vspec.Val{Kind: "S", S: nd.StringN("dotted2", 1)}
			order = []string{"a", "m", "l", "m.k", "x.y"}
			break
		}
	}
	vals := map[string]vspec.Val{}
	var used []string
	for i := 0; i+2 <= len(expr); i++ {
		if expr[i:i+2] == ":v" {
			vals[":v"] = vspec.Val{Kind: "S", S: nd.StringN("v", 1)}
			used = append(used, ":v")
			break
		}
		if expr[i:i+2] == ":n" {
			vals[":n"] = vspec.GenVal("n", "N", 1)
			used = append(used, ":n")
			break
		}
	}
	aliases := map[string]string{}
	for _, al := range [][2]string{{"#n", "a"}, {"#m", "m"}, {"#k", "k"}, {"#d", "m.k"}, {"#e", "x.y"}} {
		for i := 0; i+2 <= len(expr); i++ {
			if expr[i:i+2] == al[0] {
				aliases[al[0]] = al[1]
				break
			}
		}
	}
	vCheckCondition(expr, item, order, vals, used, aliases, "C06-path")
	nd.Reach("end")
}

// VerifC06Sets: equality is structural and sets compare as sets: two string sets (number sets, binary sets) with
// symbolic members - strings of 1..2 bytes over all byte values, so members may contain blanks, commas or
// brackets - are equal iff they have the same members, whatever the order; = and <> between them, IN, and
// contains on a list that holds the set follow.
func VerifC06Sets() {
	kind := []string{"SS", "NS", "BS"}[nd.Choice("set-kind", 3)]
	mk := func(name string) vspec.Val {
		n := 1 + nd.Choice(name+".size", 2)
		v := vspec.Val{Kind: kind}
		for i := 0; i < n; i++ {
			nm := name + "." + string(rune('0'+i))
			switch kind {
			case "SS":
				v.SS = append(v.SS, nd.StringN(nm, 1+nd.Choice(nm+".len", 2)))
			case "NS":
				v.NS = append(v.NS, int64(nd.Int16(nm)))
			case "BS":
				v.BS = append(v.BS, nd.Bytes(nm, 1+nd.Choice(nm+".len", 2)))
			}
		}
		// the members of a set are distinct
		if n == 2 {
			switch kind {
			case "SS":
				nd.Assume(v.SS[0] != v.SS[1])
			case "NS":
				nd.Assume(v.NS[0] != v.NS[1])
			case "BS":
				nd.Assume(string(v.BS[0]) != string(v.BS[1]))
			}
		}
		return v
	}
	a, x := mk("a"), mk("x")
	texts := []string{"a = :x", "a <> :x", "NOT a = :x", "a IN (:x)", "contains(l, :x)"}
	expr := texts[nd.Choice("text", len(texts))]
	item := map[string]vspec.Val{"a": a, "l": {Kind: "L", L: []vspec.Val{{Kind: "S", S: "e"}, a}}}
	vCheckCondition(expr, item, []string{"a", "l"}, map[string]vspec.Val{":x": x}, []string{":x"}, nil, "C06-sets")
	nd.Reach("end")
}

package interp

import (
	"fmt"
	"os"
	"strings"

	"golang.org/x/tools/go/ssa"
)

// Package-level variables of dependency packages.
//
// The initialisers of the module under test run on every path. Dependency packages are initialised
// lazily, once per process, the first time one of their package-level variables is touched: the
// package's synthesized init function is executed for real (and, through it, the inits of the packages
// it imports). If that execution fails - it needs a function whose body was not loaded, or something
// the engine does not support - the package is marked as not initialised, and any later access to one of
// its variables that the init function assigns aborts the path as "unsupported" instead of silently
// reading a zero value.
type depState int

const (
	depNone depState = iota
	depRunning
	depReady
	depFailed
)

var (
	depStates     = map[*ssa.Package]depState{}
	depAssigned   = map[*ssa.Package]map[*ssa.Global]bool{}
	depInitDepth  int
	depInitReason = map[*ssa.Package]string{}
)

func isModulePkg(p *ssa.Package) bool {
	return p == nil || strings.HasPrefix(p.Pkg.Path(), ModulePrefix)
}

// initAssigned: the globals of pkg that its init functions mention.
func initAssigned(pkg *ssa.Package) map[*ssa.Global]bool {
	if m, ok := depAssigned[pkg]; ok {
		return m
	}
	m := map[*ssa.Global]bool{}
	var scan func(fn *ssa.Function)
	seen := map[*ssa.Function]bool{}
	scan = func(fn *ssa.Function) {
		if fn == nil || seen[fn] {
			return
		}
		seen[fn] = true
		for _, b := range fn.Blocks {
			for _, ins := range b.Instrs {
				for _, op := range ins.Operands(nil) {
					if op == nil || *op == nil {
						continue
					}
					if g, ok := (*op).(*ssa.Global); ok && g.Pkg == pkg {
						m[g] = true
					}
				}
			}
		}
		for _, anon := range fn.AnonFuncs {
			scan(anon)
		}
	}
	for name, mem := range pkg.Members {
		if fn, ok := mem.(*ssa.Function); ok && (name == "init" || strings.HasPrefix(name, "init#")) {
			scan(fn)
		}
	}
	depAssigned[pkg] = m
	return m
}

func (i *interpreter) ensureDepInit(pkg *ssa.Package, g *ssa.Global) {
	switch depStates[pkg] {
	case depReady, depRunning:
		return
	case depFailed:
		if g != nil && initAssigned(pkg)[g] {
			panic(unsupported(fmt.Sprintf("variable %s.%s: the initialiser of its package could not be executed (%s)", pkg.Pkg.Path(), g.Name(), depInitReason[pkg])))
		}
		return
	}
	init := pkg.Func("init")
	if init == nil {
		depStates[pkg] = depReady
		return
	}
	if init.Blocks == nil {
		pkg.Build()
	}
	if len(initAssigned(pkg)) <= 1 { // only init$guard: nothing to initialise
		depStates[pkg] = depReady
		return
	}
	depStates[pkg] = depRunning
	depInitDepth++
	savedSteps, savedLimit := i.steps, i.stepLimit
	i.stepLimit = 0
	func() {
		defer func() {
			if r := recover(); r != nil {
				depStates[pkg] = depFailed
				depInitReason[pkg] = fmt.Sprint(r)
				if len(depInitReason[pkg]) > 160 {
					depInitReason[pkg] = depInitReason[pkg][:160]
				}
				if os.Getenv("SYMGO_DEBUG") != "" {
					fmt.Fprintf(os.Stderr, "dependency init of %s failed: %s\n", pkg.Pkg.Path(), depInitReason[pkg])
				}
			}
		}()
		call(i, nil, 0, init, nil)
		depStates[pkg] = depReady
	}()
	depInitDepth--
	i.steps, i.stepLimit = savedSteps, savedLimit
	if depStates[pkg] == depFailed {
		i.ensureDepInit(pkg, g)
	}
}

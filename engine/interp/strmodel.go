package interp

// Models of the strings / bytes / strconv families over byte-sequence strings (sstr). Concrete
// arguments always go to the real library function; symbolic ones use the definitions below, which
// fork (through the explorer) wherever the result's shape depends on symbolic bytes.
//
// Restrictions (each makes the path "unsupported" = inconclusive, never "passed"): functions that
// are rune-aware (ToUpper/ToLower/EqualFold/Fields/TrimSpace/range) treat symbolic bytes as ASCII and
// abort the path if a symbolic byte can be >= 0x80 where that matters.

import (
	"bytes"
	"fmt"
	"go/types"
	"strconv"
	"strings"
)

func allConcrete(args ...value) bool {
	for _, a := range args {
		switch a.(type) {
		case sstr, numstr, decstr, *sym:
			return false
		case []value:
			for _, e := range a.([]value) {
				if !allConcrete(e) {
					return false
				}
			}
		}
	}
	return true
}

func goStr(v value) string {
	switch x := v.(type) {
	case string:
		return x
	case []value: // []byte
		b := make([]byte, len(x))
		for i, e := range x {
			b[i] = e.(uint8)
		}
		return string(b)
	}
	panic(fmt.Sprintf("goStr: %T", v))
}

// seqOf views a string or []byte value as a byte sequence.
func seqOf(v value) sstr {
	switch x := v.(type) {
	case []value:
		return sstr(x)
	case nil:
		return sstr{}
	}
	return toSstr(v)
}

func bytesOut(s sstr) value { return []value(append(sstr{}, s...)) }

// firstTrue forks over "the first index k with conds[k] true" and returns k, or -1 if none holds.
func (i *interpreter) firstTrue(conds []*sym) int {
	var alts []string
	var pos []int
	none := mkBool("true")
	for k, c := range conds {
		switch c.e {
		case "false":
			continue
		case "true":
			alts = append(alts, none.e)
			pos = append(pos, k)
			return pos[i.x.decide(alts)]
		}
		alts = append(alts, symAnd(none, c).e)
		pos = append(pos, k)
		none = symAnd(none, symNot(c))
	}
	if len(alts) == 0 {
		return -1
	}
	alts = append(alts, none.e)
	pos = append(pos, -1)
	return pos[i.x.decide(alts)]
}

func matchAt(s sstr, off int, sub sstr) *sym {
	if off < 0 || off+len(sub) > len(s) {
		return mkBool("false")
	}
	return boolVal(strEq(sstr(s[off:off+len(sub)]), sub))
}

func byteInSet(c value, set sstr) *sym {
	acc := mkBool("false")
	for _, x := range set {
		acc = symOr(acc, byteEq(c, x))
	}
	return acc
}

func (i *interpreter) requireASCII(s sstr, what string) {
	for _, c := range s {
		if sy, ok := c.(*sym); ok {
			if !i.cond(mkBool("(bvult " + sy.e + " #x80)")) {
				panic(unsupported(what + " on a non-ASCII symbolic byte"))
			}
		} else if c.(uint8) >= 0x80 {
			panic(unsupported(what + " on non-ASCII text mixed with symbolic bytes"))
		}
	}
}

func asciiLower(c value) value {
	switch b := c.(type) {
	case uint8:
		if b >= 'A' && b <= 'Z' {
			return b + 32
		}
		return b
	case *sym:
		return &sym{e: fmt.Sprintf("(ite (and (bvuge %s #x41) (bvule %s #x5a)) (bvadd %s #x20) %s)", b.e, b.e, b.e, b.e), k: symBV, w: 8, gk: types.Uint8}
	}
	panic("asciiLower")
}

func asciiUpper(c value) value {
	switch b := c.(type) {
	case uint8:
		if b >= 'a' && b <= 'z' {
			return b - 32
		}
		return b
	case *sym:
		return &sym{e: fmt.Sprintf("(ite (and (bvuge %s #x61) (bvule %s #x7a)) (bvsub %s #x20) %s)", b.e, b.e, b.e, b.e), k: symBV, w: 8, gk: types.Uint8}
	}
	panic("asciiUpper")
}

func mkErrorString(fr *frame, msg string) value {
	errPkg := fr.i.prog.ImportedPackage("errors")
	et := errPkg.Type("errorString").Object().Type()
	var obj value = structure{msg}
	return iface{t: types.NewPointer(et), v: &obj}
}

func init() {
	type two func(a, b string) value
	// index-like: first offset where sub matches
	index := func(fr *frame, s, sub sstr) int {
		conds := []*sym{}
		for off := 0; off+len(sub) <= len(s); off++ {
			conds = append(conds, matchAt(s, off, sub))
		}
		return fr.i.firstTrue(conds)
	}
	lastIndex := func(fr *frame, s, sub sstr) int {
		conds := []*sym{}
		offs := []int{}
		for off := len(s) - len(sub); off >= 0; off-- {
			conds = append(conds, matchAt(s, off, sub))
			offs = append(offs, off)
		}
		k := fr.i.firstTrue(conds)
		if k < 0 {
			return -1
		}
		return offs[k]
	}
	indexAny := func(fr *frame, s, set sstr) int {
		conds := []*sym{}
		for _, c := range s {
			conds = append(conds, byteInSet(c, set))
		}
		return fr.i.firstTrue(conds)
	}
	containsAny := func(s, set sstr) value {
		acc := mkBool("false")
		for _, c := range s {
			acc = symOr(acc, byteInSet(c, set))
		}
		return simplifyBool(acc)
	}
	compare := func(fr *frame, a, b value) value {
		if fr.i.cond(strLt(a, b)) {
			return -1
		}
		if fr.i.cond(strEq(a, b)) {
			return 0
		}
		return 1
	}
	hasSuffix := func(s, p sstr) value {
		if len(p) > len(s) {
			return false
		}
		return strEq(sstr(s[len(s)-len(p):]), p)
	}
	hasPrefix := func(s, p sstr) value {
		if len(p) > len(s) {
			return false
		}
		return strEq(sstr(s[:len(p)]), p)
	}
	trimLeftSet := func(fr *frame, s, set sstr) sstr {
		lo := 0
		for lo < len(s) && fr.i.cond(simplifyBool(byteInSet(s[lo], set))) {
			lo++
		}
		return s[lo:]
	}
	trimRightSet := func(fr *frame, s, set sstr) sstr {
		hi := len(s)
		for hi > 0 && fr.i.cond(simplifyBool(byteInSet(s[hi-1], set))) {
			hi--
		}
		return s[:hi]
	}
	replaceAll := func(fr *frame, s, old, nw sstr, n int) sstr {
		if len(old) == 0 {
			panic(unsupported("strings.Replace with empty old on symbolic text"))
		}
		out := sstr{}
		for p := 0; p < len(s); {
			if n != 0 && p+len(old) <= len(s) && fr.i.cond(simplifyBool(matchAt(s, p, old))) {
				out = append(out, nw...)
				p += len(old)
				if n > 0 {
					n--
				}
				continue
			}
			out = append(out, s[p])
			p++
		}
		return out
	}
	count := func(fr *frame, s, sub sstr) int {
		if len(sub) == 0 {
			panic(unsupported("strings.Count with empty substring on symbolic text"))
		}
		n := 0
		for p := 0; p+len(sub) <= len(s); {
			if fr.i.cond(simplifyBool(matchAt(s, p, sub))) {
				n++
				p += len(sub)
			} else {
				p++
			}
		}
		return n
	}
	equalFold := func(fr *frame, a, b sstr) value {
		if len(a) != len(b) {
			// different byte lengths can still fold equal only with non-ASCII runes
			fr.i.requireASCII(a, "strings.EqualFold")
			fr.i.requireASCII(b, "strings.EqualFold")
			return false
		}
		fr.i.requireASCII(a, "strings.EqualFold")
		fr.i.requireASCII(b, "strings.EqualFold")
		acc := mkBool("true")
		for k := range a {
			acc = symAnd(acc, byteEq(asciiLower(a[k]), asciiLower(b[k])))
		}
		return simplifyBool(acc)
	}
	mapBytes := func(fr *frame, s sstr, f func(value) value, what string) value {
		fr.i.requireASCII(s, what)
		out := make(sstr, len(s))
		for k, c := range s {
			out[k] = f(c)
		}
		return normStr(out)
	}

	reg := func(name string, f externalFn) { externals[name] = f }

	// ---- strings
	reg("strings.Index", func(fr *frame, a []value) value {
		if allConcrete(a...) {
			return strings.Index(a[0].(string), a[1].(string))
		}
		return index(fr, toSstr(a[0]), toSstr(a[1]))
	})
	reg("strings.LastIndex", func(fr *frame, a []value) value {
		if allConcrete(a...) {
			return strings.LastIndex(a[0].(string), a[1].(string))
		}
		return lastIndex(fr, toSstr(a[0]), toSstr(a[1]))
	})
	reg("strings.IndexByte", func(fr *frame, a []value) value {
		if allConcrete(a...) {
			return strings.IndexByte(a[0].(string), a[1].(uint8))
		}
		return index(fr, toSstr(a[0]), sstr{a[1]})
	})
	reg("strings.LastIndexByte", func(fr *frame, a []value) value {
		if allConcrete(a...) {
			return strings.LastIndexByte(a[0].(string), a[1].(uint8))
		}
		return lastIndex(fr, toSstr(a[0]), sstr{a[1]})
	})
	reg("strings.IndexAny", func(fr *frame, a []value) value {
		if allConcrete(a...) {
			return strings.IndexAny(a[0].(string), a[1].(string))
		}
		set := toSstr(a[1])
		fr.i.requireASCII(set, "strings.IndexAny(chars)")
		return indexAny(fr, toSstr(a[0]), set)
	})
	reg("strings.ContainsAny", func(fr *frame, a []value) value {
		if allConcrete(a...) {
			return strings.ContainsAny(a[0].(string), a[1].(string))
		}
		set := toSstr(a[1])
		fr.i.requireASCII(set, "strings.ContainsAny(chars)")
		return containsAny(toSstr(a[0]), set)
	})
	reg("strings.ContainsRune", func(fr *frame, a []value) value {
		r, ok := a[1].(int32)
		if allConcrete(a...) {
			return strings.ContainsRune(a[0].(string), r)
		}
		if !ok || r >= 0x80 {
			panic(unsupported("strings.ContainsRune with symbolic or non-ASCII rune"))
		}
		return containsAny(toSstr(a[0]), sstr{uint8(r)})
	})
	reg("strings.IndexRune", func(fr *frame, a []value) value {
		r, ok := a[1].(int32)
		if allConcrete(a...) {
			return strings.IndexRune(a[0].(string), r)
		}
		if !ok || r >= 0x80 {
			panic(unsupported("strings.IndexRune with symbolic or non-ASCII rune"))
		}
		return index(fr, toSstr(a[0]), sstr{uint8(r)})
	})
	reg("strings.Compare", func(fr *frame, a []value) value {
		if allConcrete(a...) {
			return strings.Compare(a[0].(string), a[1].(string))
		}
		return compare(fr, a[0], a[1])
	})
	reg("strings.HasSuffix", func(fr *frame, a []value) value { return hasSuffix(toSstr(a[0]), toSstr(a[1])) })
	reg("strings.TrimPrefix", func(fr *frame, a []value) value {
		s, p := toSstr(a[0]), toSstr(a[1])
		if fr.i.cond(hasPrefix(s, p)) {
			return normStr(append(sstr{}, s[len(p):]...))
		}
		return a[0]
	})
	reg("strings.TrimSuffix", func(fr *frame, a []value) value {
		s, p := toSstr(a[0]), toSstr(a[1])
		if fr.i.cond(hasSuffix(s, p)) {
			return normStr(append(sstr{}, s[:len(s)-len(p)]...))
		}
		return a[0]
	})
	reg("strings.CutPrefix", func(fr *frame, a []value) value {
		s, p := toSstr(a[0]), toSstr(a[1])
		if fr.i.cond(hasPrefix(s, p)) {
			return tuple{normStr(append(sstr{}, s[len(p):]...)), true}
		}
		return tuple{a[0], false}
	})
	reg("strings.Cut", func(fr *frame, a []value) value {
		s, sep := toSstr(a[0]), toSstr(a[1])
		k := index(fr, s, sep)
		if k < 0 {
			return tuple{a[0], "", false}
		}
		return tuple{normStr(append(sstr{}, s[:k]...)), normStr(append(sstr{}, s[k+len(sep):]...)), true}
	})
	reg("strings.Trim", func(fr *frame, a []value) value {
		if allConcrete(a...) {
			return strings.Trim(a[0].(string), a[1].(string))
		}
		set := toSstr(a[1])
		fr.i.requireASCII(set, "strings.Trim(cutset)")
		return normStr(append(sstr{}, trimRightSet(fr, trimLeftSet(fr, toSstr(a[0]), set), set)...))
	})
	reg("strings.TrimLeft", func(fr *frame, a []value) value {
		if allConcrete(a...) {
			return strings.TrimLeft(a[0].(string), a[1].(string))
		}
		set := toSstr(a[1])
		fr.i.requireASCII(set, "strings.TrimLeft(cutset)")
		return normStr(append(sstr{}, trimLeftSet(fr, toSstr(a[0]), set)...))
	})
	reg("strings.TrimRight", func(fr *frame, a []value) value {
		if allConcrete(a...) {
			return strings.TrimRight(a[0].(string), a[1].(string))
		}
		set := toSstr(a[1])
		fr.i.requireASCII(set, "strings.TrimRight(cutset)")
		return normStr(append(sstr{}, trimRightSet(fr, toSstr(a[0]), set)...))
	})
	reg("strings.Replace", func(fr *frame, a []value) value {
		if allConcrete(a...) {
			return strings.Replace(a[0].(string), a[1].(string), a[2].(string), a[3].(int))
		}
		n, ok := a[3].(int)
		if !ok {
			panic(unsupported("strings.Replace with symbolic count"))
		}
		return normStr(replaceAll(fr, toSstr(a[0]), toSstr(a[1]), toSstr(a[2]), n))
	})
	reg("strings.ReplaceAll", func(fr *frame, a []value) value {
		if allConcrete(a...) {
			return strings.ReplaceAll(a[0].(string), a[1].(string), a[2].(string))
		}
		return normStr(replaceAll(fr, toSstr(a[0]), toSstr(a[1]), toSstr(a[2]), -1))
	})
	reg("strings.Count", func(fr *frame, a []value) value {
		if allConcrete(a...) {
			return strings.Count(a[0].(string), a[1].(string))
		}
		return count(fr, toSstr(a[0]), toSstr(a[1]))
	})
	reg("strings.Repeat", func(fr *frame, a []value) value {
		n, ok := a[1].(int)
		if !ok {
			panic(unsupported("strings.Repeat with symbolic count"))
		}
		if n < 0 {
			panic("strings: negative Repeat count")
		}
		s := toSstr(a[0])
		out := sstr{}
		for k := 0; k < n; k++ {
			out = append(out, s...)
		}
		return normStr(out)
	})
	reg("strings.EqualFold", func(fr *frame, a []value) value {
		if allConcrete(a...) {
			return strings.EqualFold(a[0].(string), a[1].(string))
		}
		return equalFold(fr, toSstr(a[0]), toSstr(a[1]))
	})
	reg("strings.ToLower", func(fr *frame, a []value) value {
		if allConcrete(a...) {
			return strings.ToLower(a[0].(string))
		}
		return mapBytes(fr, toSstr(a[0]), asciiLower, "strings.ToLower")
	})
	reg("strings.ToUpper", func(fr *frame, a []value) value {
		if allConcrete(a...) {
			return strings.ToUpper(a[0].(string))
		}
		return mapBytes(fr, toSstr(a[0]), asciiUpper, "strings.ToUpper")
	})
	reg("strings.Title", func(fr *frame, a []value) value {
		if allConcrete(a...) {
			return strings.Title(a[0].(string))
		}
		panic(unsupported("strings.Title on symbolic text"))
	})
	reg("strings.SplitN", func(fr *frame, a []value) value {
		if allConcrete(a...) {
			parts := strings.SplitN(a[0].(string), a[1].(string), a[2].(int))
			r := make([]value, len(parts))
			for k, p := range parts {
				r[k] = p
			}
			return r
		}
		n, ok := a[2].(int)
		sep := toSstr(a[1])
		if !ok || len(sep) == 0 || n == 0 {
			panic(unsupported("strings.SplitN shape"))
		}
		s := toSstr(a[0])
		res := []value{}
		for n < 0 || len(res) < n-1 {
			k := index(fr, s, sep)
			if k < 0 {
				break
			}
			res = append(res, normStr(append(sstr{}, s[:k]...)))
			s = s[k+len(sep):]
		}
		return append(res, normStr(append(sstr{}, s...)))
	})

	// ---- bytes
	reg("bytes.Equal", func(fr *frame, a []value) value { return strEq(seqOf(a[0]), seqOf(a[1])) })
	reg("bytes.Compare", func(fr *frame, a []value) value {
		if allConcrete(a...) {
			return bytes.Compare([]byte(goStr(a[0])), []byte(goStr(a[1])))
		}
		return compare(fr, seqOf(a[0]), seqOf(a[1]))
	})
	reg("bytes.Contains", func(fr *frame, a []value) value {
		return extContains(fr, []value{seqOf(a[0]), seqOf(a[1])})
	})
	reg("bytes.HasPrefix", func(fr *frame, a []value) value { return hasPrefix(seqOf(a[0]), seqOf(a[1])) })
	reg("bytes.HasSuffix", func(fr *frame, a []value) value { return hasSuffix(seqOf(a[0]), seqOf(a[1])) })
	reg("bytes.Index", func(fr *frame, a []value) value { return index(fr, seqOf(a[0]), seqOf(a[1])) })
	reg("bytes.IndexByte", func(fr *frame, a []value) value { return index(fr, seqOf(a[0]), sstr{a[1]}) })

	// ---- encoding/hex
	reg("encoding/hex.EncodeToString", func(fr *frame, a []value) value {
		src := seqOf(a[0])
		out := make(sstr, 0, 2*len(src))
		hexd := "0123456789abcdef"
		for _, c := range src {
			switch b := c.(type) {
			case uint8:
				out = append(out, hexd[b>>4], hexd[b&15])
			case *sym:
				for _, nib := range []string{"(bvlshr " + b.e + " #x04)", "(bvand " + b.e + " #x0f)"} {
					out = append(out, &sym{e: fmt.Sprintf("(ite (bvult %s #x0a) (bvadd %s #x30) (bvadd %s #x57))", nib, nib, nib), k: symBV, w: 8, gk: types.Uint8})
				}
			}
		}
		return normStr(out)
	})

	// ---- encoding/base64: (*Encoding).EncodeToString over a byte sequence that may hold terms. The alphabet and
	// the padding character are read from the receiver; an output character is the alphabet entry selected by a
	// 6-bit group, as a nested ite over the 64 entries (no forking on the index).
	reg("(*encoding/base64.Encoding).EncodeToString", func(fr *frame, a []value) value {
		enc, ok := (*a[0].(*value)).(structure)
		if !ok || len(enc) < 3 {
			panic(unsupported("base64.Encoding of an unexpected shape"))
		}
		alpha, ok := enc[0].(array)
		if !ok || len(alpha) != 64 {
			panic(unsupported("base64.Encoding of an unexpected shape"))
		}
		pad, _ := enc[2].(int32)
		src := seqOf(a[1])
		term := func(v value) string {
			switch b := v.(type) {
			case uint8:
				return bvConst(uint64(b), 8)
			case *sym:
				return b.e
			}
			panic(unsupported("base64 of a non-byte element"))
		}
		look := func(idx string, concrete bool, cidx uint8) value {
			if concrete {
				return alpha[cidx].(uint8)
			}
			e := bvConst(uint64(alpha[63].(uint8)), 8)
			for k := 62; k >= 0; k-- {
				e = "(ite (= " + idx + " " + bvConst(uint64(k), 8) + ") " + bvConst(uint64(alpha[k].(uint8)), 8) + " " + e + ")"
			}
			return &sym{e: e, k: symBV, w: 8, gk: types.Uint8}
		}
		out := sstr{}
		for i := 0; i < len(src); i += 3 {
			n := len(src) - i
			if n > 3 {
				n = 3
			}
			var b [3]value
			conc := true
			for k := 0; k < 3; k++ {
				b[k] = uint8(0)
				if k < n {
					b[k] = src[i+k]
				}
				if _, isC := b[k].(uint8); !isC {
					conc = false
				}
			}
			var ci [4]uint8
			if conc {
				b0, b1, b2 := b[0].(uint8), b[1].(uint8), b[2].(uint8)
				ci = [4]uint8{b0 >> 2, (b0&3)<<4 | b1>>4, (b1&15)<<2 | b2>>6, b2 & 63}
			}
			t0, t1, t2 := term(b[0]), term(b[1]), term(b[2])
			idx := [4]string{
				"(bvlshr " + t0 + " #x02)",
				"(bvor (bvshl (bvand " + t0 + " #x03) #x04) (bvlshr " + t1 + " #x04))",
				"(bvor (bvshl (bvand " + t1 + " #x0f) #x02) (bvlshr " + t2 + " #x06))",
				"(bvand " + t2 + " #x3f)",
			}
			for k := 0; k < 4; k++ {
				if k <= n {
					out = append(out, look(idx[k], conc, ci[k]))
				} else if pad != -1 {
					out = append(out, uint8(pad))
				}
			}
		}
		return normStr(out)
	})

	// ---- strconv
	reg("strconv.Itoa", func(fr *frame, a []value) value {
		switch n := a[0].(type) {
		case int:
			return strconv.Itoa(n)
		case *sym:
			return numstr{n: n}
		}
		panic("strconv.Itoa")
	})
	reg("strconv.FormatInt", func(fr *frame, a []value) value {
		base, ok := a[1].(int)
		switch n := a[0].(type) {
		case int64:
			if ok {
				return strconv.FormatInt(n, base)
			}
		case *sym:
			if ok && base == 10 {
				return numstr{n: n}
			}
		}
		panic(unsupported("strconv.FormatInt shape"))
	})
	reg("strconv.Quote", func(fr *frame, a []value) value {
		if allConcrete(a...) {
			return strconv.Quote(a[0].(string))
		}
		// messages only: quoted symbolic text is never compared by the code under test
		return normStr(append(append(sstr{uint8('"')}, toSstr(a[0])...), uint8('"')))
	})
	reg("strconv.ParseBool", func(fr *frame, a []value) value {
		if allConcrete(a...) {
			b, err := strconv.ParseBool(a[0].(string))
			if err != nil {
				return tuple{b, mkErrorString(fr, err.Error())}
			}
			return tuple{b, iface{}}
		}
		panic(unsupported("strconv.ParseBool on symbolic text"))
	})
}

// Copyright 2013 The Go Authors. All rights reserved.
// Use of this source code is governed by a BSD-style
// license that can be found in the LICENSE file.

// Package ssa/interp defines an interpreter for the SSA
// representation of Go programs.
//
// This interpreter is provided as an adjunct for testing the SSA
// construction algorithm.  Its purpose is to provide a minimal
// metacircular implementation of the dynamic semantics of each SSA
// instruction.  It is not, and will never be, a production-quality Go
// interpreter.
//
// The following is a partial list of Go features that are currently
// unsupported or incomplete in the interpreter.
//
// * Unsafe operations, including all uses of unsafe.Pointer, are
// impossible to support given the "boxed" value representation we
// have chosen.
//
// * The reflect package is only partially implemented.
//
// * The "testing" package is no longer supported because it
// depends on low-level details that change too often.
//
// * "sync/atomic" operations are not atomic due to the "boxed" value
// representation: it is not possible to read, modify and write an
// interface value atomically. As a consequence, Mutexes are currently
// broken.
//
// * recover is only partially implemented.  Also, the interpreter
// makes no attempt to distinguish target panics from interpreter
// crashes.
//
// * the sizes of the int, uint and uintptr types in the target
// program are assumed to be the same as those of the interpreter
// itself.
//
// * all values occupy space, even those of types defined by the spec
// to have zero size, e.g. struct{}.  This can cause asymptotic
// performance degradation.
//
// * os.Exit is implemented using panic, causing deferred functions to
// run.
package interp // import "golang.org/x/tools/go/ssa/interp"

import (
	"fmt"
	"strings"
	"go/token"
	"go/types"
	"log"
	"os"
	"reflect"
	"runtime"
	"slices"
	_ "sync/atomic"
	_ "unsafe"

	"golang.org/x/tools/go/ssa"
)

// ModulePrefix identifies the packages under test.
var ModulePrefix = "github.com/truora/minidyn"

type continuation int

const (
	kNext continuation = iota
	kReturn
	kJump
)

// Mode is a bitmask of options affecting the interpreter.
type Mode uint

const (
	DisableRecover Mode = 1 << iota // Disable recover() in target programs; show interpreter crash instead.
	EnableTracing                   // Print a trace of all instructions as they are interpreted.
)

type methodSet map[string]*ssa.Function

var constCache = map[*ssa.Const]value{}

var envIndexes = map[*ssa.Function]map[ssa.Value]int32{}

// envIndex numbers the SSA values of fn (parameters, free variables, locals, value-producing instructions).
func envIndex(fn *ssa.Function) map[ssa.Value]int32 {
	if m, ok := envIndexes[fn]; ok {
		return m
	}
	m := map[ssa.Value]int32{}
	add := func(v ssa.Value) {
		if _, ok := m[v]; !ok {
			m[v] = int32(len(m))
		}
	}
	for _, p := range fn.Params {
		add(p)
	}
	for _, fv := range fn.FreeVars {
		add(fv)
	}
	for _, l := range fn.Locals {
		add(l)
	}
	for _, b := range fn.Blocks {
		for _, in := range b.Instrs {
			if v, ok := in.(ssa.Value); ok {
				add(v)
			}
		}
	}
	envIndexes[fn] = m
	return m
}

func (fr *frame) setv(key ssa.Value, v value) {
	k := fr.idx[key]
	fr.env[k] = v
	fr.envSet[k] = true
}

type fnMeta struct {
	name     string
	depInit  bool
	inModule bool
	touched  bool
	ext      externalFn
}

var fnMetas = map[*ssa.Function]*fnMeta{}

// State shared between all interpreted goroutines.
type interpreter struct {
	osArgs             []value                // the value of os.Args
	prog               *ssa.Program           // the SSA program
	globals            map[*ssa.Global]*value // addresses of global variables (immutable)
	mode               Mode                   // interpreter options
	reflectPackage     *ssa.Package           // the fake reflect package
	errorMethods       methodSet              // the method set of reflect.error, which implements the error interface.
	rtypeMethods       methodSet              // the method set of rtype, which implements the reflect.Type interface.
	runtimeErrorString types.Type             // the runtime.errorString type
	sizes              types.Sizes            // the effective type-sizing function
	x                  *Explorer              // path exploration state
	bufs               map[*value]value       // contents of modelled bytes.Buffers
	steps              int64
	stepLimit          int64
	params             map[string]int  // harness parameters (nd.Param)
	known              map[string]bool // confirmed known findings (nd.Known)
	sortStable         bool            // inside sort.SliceStable (ties keep their order)
	callDepth          int             // frames of in-flight calls (unbounded recursion is a fatal error)
	traceSum           uint64          // digest of the nd.Assert / nd.Reach calls of the current path
	traceN             int
	noSample           bool            // the path used nd.Section / nd.NoRace (run concurrently by the native twin)
	obligations        int             // assertion queries asked
	discharged         int             // ... answered unsat
	nontrivial         bool            // the current path executed an assertion with a non-constant condition
	panicStack         string
	curStack           string
	locks              *lockState
	sched              *sched
	goroutines         int32                  // atomically updated
}

type deferred struct {
	fn    value
	args  []value
	instr *ssa.Defer
	tail  *deferred
}

type frame struct {
	i                *interpreter
	caller           *frame
	fn               *ssa.Function
	block, prevBlock *ssa.BasicBlock
	env              []value             // dynamic values of SSA variables, indexed through idx
	envSet           []bool
	idx              map[ssa.Value]int32 // per-function numbering of the SSA values (shared by all frames of fn)
	locals           []value
	defers           *deferred
	result           value
	panicking        bool
	panic            interface{}
	phitemps         []value // temporaries for parallel phi assignment
}

func (fr *frame) get(key ssa.Value) value {
	switch key := key.(type) {
	case nil:
		// Hack; simplifies handling of optional attributes
		// such as ssa.Slice.{Low,High}.
		return nil
	case *ssa.Function, *ssa.Builtin:
		return key
	case *ssa.Const:
		if v, ok := constCache[key]; ok {
			return v
		}
		v := constValue(key)
		switch v.(type) {
		case bool, int, int8, int16, int32, int64, uint, uint8, uint16, uint32, uint64, uintptr, float32, float64, string:
			constCache[key] = v // immutable scalars only
		}
		return v
	case *ssa.Global:
		if r, ok := fr.i.globals[key]; ok {
			if key.Pkg != nil && !isModulePkg(key.Pkg) && depStates[key.Pkg] != depReady {
				fr.i.ensureDepInit(key.Pkg, key)
			}
			return r
		}
	}
	if k, ok := fr.idx[key]; ok && fr.envSet[k] {
		return fr.env[k]
	}
	panic(fmt.Sprintf("get: no value for %T: %v", key, key.Name()))
}

// runDefer runs a deferred call d.
// It always returns normally, but may set or clear fr.panic.
func (fr *frame) runDefer(d *deferred) {
	if fr.i.mode&EnableTracing != 0 {
		fmt.Fprintf(os.Stderr, "%s: invoking deferred function call\n",
			fr.i.prog.Fset.Position(d.instr.Pos()))
	}
	var ok bool
	defer func() {
		if !ok {
			// Deferred call created a new state of panic.
			fr.panicking = true
			fr.panic = recover()
		}
	}()
	call(fr.i, fr, d.instr.Pos(), d.fn, d.args)
	ok = true
}

// runDefers executes fr's deferred function calls in LIFO order.
//
// On entry, fr.panicking indicates a state of panic; if
// true, fr.panic contains the panic value.
//
// On completion, if a deferred call started a panic, or if no
// deferred call recovered from a previous state of panic, then
// runDefers itself panics after the last deferred call has run.
//
// If there was no initial state of panic, or it was recovered from,
// runDefers returns normally.
func (fr *frame) runDefers() {
	for d := fr.defers; d != nil; d = d.tail {
		fr.runDefer(d)
	}
	fr.defers = nil
	if fr.panicking {
		panic(fr.panic) // new panic, or still panicking
	}
}

// lookupMethod returns the method set for type typ, which may be one
// of the interpreter's fake types.
func lookupMethod(i *interpreter, typ types.Type, meth *types.Func) *ssa.Function {
	switch typ {
	case rtypeType:
		return i.rtypeMethods[meth.Id()]
	case errorType:
		return i.errorMethods[meth.Id()]
	}
	return i.prog.LookupMethod(typ, meth.Pkg(), meth.Name())
}

// visitInstr interprets a single ssa.Instruction within the activation
// record frame.  It returns a continuation value indicating where to
// read the next instruction from.
func visitInstr(fr *frame, instr ssa.Instruction) continuation {
	switch instr := instr.(type) {
	case *ssa.DebugRef:
		// no-op

	case *ssa.UnOp:
		if instr.Op == token.MUL {
			fr.i.recordAccess(fr.get(instr.X), false, fr, instr.Pos())
		}
		fr.setv(instr, unop(instr, fr.get(instr.X)))

	case *ssa.BinOp:
		fr.setv(instr, binop(instr.Op, instr.X.Type(), fr.get(instr.X), fr.get(instr.Y)))

	case *ssa.Call:
		fn, args := prepareCall(fr, &instr.Call)
		fr.setv(instr, call(fr.i, fr, instr.Pos(), fn, args))

	case *ssa.ChangeInterface:
		fr.setv(instr, fr.get(instr.X))

	case *ssa.ChangeType:
		fr.setv(instr, fr.get(instr.X)) // (can't fail)

	case *ssa.Convert:
		fr.setv(instr, conv(instr.Type(), instr.X.Type(), fr.get(instr.X)))

	case *ssa.SliceToArrayPointer:
		fr.setv(instr, sliceToArrayPointer(instr.Type(), instr.X.Type(), fr.get(instr.X)))

	case *ssa.MakeInterface:
		fr.setv(instr, iface{t: instr.X.Type(), v: fr.get(instr.X)})

	case *ssa.Extract:
		fr.setv(instr, fr.get(instr.Tuple).(tuple)[instr.Index])

	case *ssa.Slice:
		fr.setv(instr, slice(fr.get(instr.X), fr.get(instr.Low), fr.get(instr.High), fr.get(instr.Max)))

	case *ssa.Return:
		switch len(instr.Results) {
		case 0:
		case 1:
			fr.result = fr.get(instr.Results[0])
		default:
			var res []value
			for _, r := range instr.Results {
				res = append(res, fr.get(r))
			}
			fr.result = tuple(res)
		}
		fr.block = nil
		return kReturn

	case *ssa.RunDefers:
		fr.runDefers()

	case *ssa.Panic:
		pv := fr.get(instr.X)
		if ifc, ok := pv.(iface); ok {
			if str, ok := ifc.v.(string); ok && str == "symgo: stripped function body" {
				panic(unsupported("call of a dependency function whose body is not loaded: " + fr.fn.String()))
			}
		}
		panic(targetPanic{pv})

	case *ssa.Send:
		fr.get(instr.Chan).(chan value) <- fr.get(instr.X)

	case *ssa.Store:
		fr.i.recordAccess(fr.get(instr.Addr).(*value), true, fr, instr.Pos())
		store(mustDeref(instr.Addr.Type()), fr.get(instr.Addr).(*value), fr.get(instr.Val))

	case *ssa.If:
		if os.Getenv("SYMGO_WATCH") != "" {
			st := ""
			for f := fr; f != nil; f = f.caller {
				st += f.fn.String() + " <- "
			}
			fr.i.curStack = st
		}
		succ := 1
		if fr.i.cond(fr.get(instr.Cond)) {
			succ = 0
		}
		fr.prevBlock, fr.block = fr.block, fr.block.Succs[succ]
		return kJump

	case *ssa.Jump:
		fr.prevBlock, fr.block = fr.block, fr.block.Succs[0]
		return kJump

	case *ssa.Defer:
		fn, args := prepareCall(fr, &instr.Call)
		defers := &fr.defers
		if into := fr.get(instr.DeferStack); into != nil {
			defers = into.(**deferred)
		}
		*defers = &deferred{
			fn:    fn,
			args:  args,
			instr: instr,
			tail:  *defers,
		}

	case *ssa.Go:
		// Concurrency is explored only between the two closures of nd.Par (engine threads under the
		// scheduler). A goroutine started by the code under test itself would run outside the scheduler and
		// outside the path condition: not modelled, so the path is inconclusive rather than explored wrongly.
		panic(unsupported("go statement in the code under test (goroutines are modelled only through nd.Par)"))

	case *ssa.MakeChan:
		fr.setv(instr, make(chan value, asInt64(fr.get(instr.Size))))

	case *ssa.Alloc:
		var addr *value
		if instr.Heap {
			// new
			addr = new(value)
			fr.setv(instr, addr)
		} else {
			// local
			addr = fr.get(instr).(*value)
		}
		*addr = zero(mustDeref(instr.Type()))

	case *ssa.MakeSlice:
		slice := make([]value, asInt64(fr.get(instr.Cap)))
		tElt := instr.Type().Underlying().(*types.Slice).Elem()
		for i := range slice {
			slice[i] = zero(tElt)
		}
		fr.setv(instr, slice[:asInt64(fr.get(instr.Len))])

	case *ssa.MakeMap:
		var reserve int64
		if instr.Reserve != nil {
			reserve = asInt64(fr.get(instr.Reserve))
		}
		if !fitsInt(reserve, fr.i.sizes) {
			panic(fmt.Sprintf("ssa.MakeMap.Reserve value %d does not fit in int", reserve))
		}
		fr.setv(instr, newSmap(instr.Type().Underlying().(*types.Map).Key()))

	case *ssa.Range:
		fr.i.recordAccess(fr.get(instr.X), false, fr, instr.Pos())
		fr.setv(instr, rangeIter(fr.get(instr.X), instr.X.Type()))

	case *ssa.Next:
		fr.setv(instr, fr.get(instr.Iter).(iter).next())

	case *ssa.FieldAddr:
		fr.setv(instr, &(*fr.get(instr.X).(*value)).(structure)[instr.Field])

	case *ssa.Field:
		fr.setv(instr, fr.get(instr.X).(structure)[instr.Field])

	case *ssa.IndexAddr:
		x := fr.get(instr.X)
		idx := fr.get(instr.Index)
		if si, isSym := idx.(*sym); isSym && onlyLoaded(instr) {
			// table[i] with a symbolic i whose address is only ever loaded from: the element as one term
			var elems value
			switch xx := x.(type) {
			case []value:
				elems = array(xx)
			case *value:
				if a, ok := (*xx).(array); ok {
					elems = a
				}
			}
			if elems != nil {
				if v, ok := symbolicByteIndex(fr, elems, si); ok {
					cell := v
					fr.setv(instr, &cell)
					break
				}
			}
		}
		switch x := x.(type) {
		case []value:
			fr.setv(instr, &x[asInt64(idx)])
		case *value: // *array
			fr.setv(instr, &(*x).(array)[asInt64(idx)])
		default:
			panic(fmt.Sprintf("unexpected x type in IndexAddr: %T", x))
		}

	case *ssa.Index:
		x := fr.get(instr.X)
		idx := fr.get(instr.Index)

		if si, isSym := idx.(*sym); isSym {
			if v, ok := symbolicByteIndex(fr, x, si); ok {
				fr.setv(instr, v)
				break
			}
		}
		switch x := x.(type) {
		case array:
			fr.setv(instr, x[asInt64(idx)])
		case string:
			fr.setv(instr, x[asInt64(idx)])
		case sstr:
			fr.setv(instr, x[asInt64(idx)])
		default:
			panic(fmt.Sprintf("unexpected x type in Index: %T", x))
		}

	case *ssa.Lookup:
		fr.i.recordAccess(fr.get(instr.X), false, fr, instr.Pos())
		fr.setv(instr, lookup(instr, fr.get(instr.X), fr.get(instr.Index)))

	case *ssa.MapUpdate:
		m := fr.get(instr.Map)
		key := fr.get(instr.Key)
		v := fr.get(instr.Value)
		fr.i.recordAccess(m, true, fr, instr.Pos())
		switch m := m.(type) {
		case *smap:
			if m == nil {
				panic("assignment to entry in nil map")
			}
			m.insert(fr.i, key, v)
		default:
			panic(fmt.Sprintf("illegal map type: %T", m))
		}

	case *ssa.TypeAssert:
		fr.setv(instr, typeAssert(fr.i, instr, fr.get(instr.X).(iface)))

	case *ssa.MakeClosure:
		var bindings []value
		for _, binding := range instr.Bindings {
			bindings = append(bindings, fr.get(binding))
		}
		fr.setv(instr, &closure{instr.Fn.(*ssa.Function), bindings})

	case *ssa.Phi:
		log.Fatal("unreachable") // phis are processed at block entry

	case *ssa.Select:
		var cases []reflect.SelectCase
		if !instr.Blocking {
			cases = append(cases, reflect.SelectCase{
				Dir: reflect.SelectDefault,
			})
		}
		for _, state := range instr.States {
			var dir reflect.SelectDir
			if state.Dir == types.RecvOnly {
				dir = reflect.SelectRecv
			} else {
				dir = reflect.SelectSend
			}
			var send reflect.Value
			if state.Send != nil {
				send = reflect.ValueOf(fr.get(state.Send))
			}
			cases = append(cases, reflect.SelectCase{
				Dir:  dir,
				Chan: reflect.ValueOf(fr.get(state.Chan)),
				Send: send,
			})
		}
		chosen, recv, recvOk := reflect.Select(cases)
		if !instr.Blocking {
			chosen-- // default case should have index -1.
		}
		r := tuple{chosen, recvOk}
		for i, st := range instr.States {
			if st.Dir == types.RecvOnly {
				var v value
				if i == chosen && recvOk {
					// No need to copy since send makes an unaliased copy.
					v = recv.Interface().(value)
				} else {
					v = zero(st.Chan.Type().Underlying().(*types.Chan).Elem())
				}
				r = append(r, v)
			}
		}
		fr.setv(instr, r)

	default:
		panic(fmt.Sprintf("unexpected instruction: %T", instr))
	}

	// if val, ok := instr.(ssa.Value); ok {
	// 	fmt.Println(toString(fr.env[val])) // debugging
	// }

	return kNext
}

// prepareCall determines the function value and argument values for a
// function call in a Call, Go or Defer instruction, performing
// interface method lookup if needed.
func prepareCall(fr *frame, call *ssa.CallCommon) (fn value, args []value) {
	v := fr.get(call.Value)
	if call.Method == nil {
		// Function call.
		fn = v
	} else {
		// Interface method invocation.
		recv := v.(iface)
		if recv.t == nil {
			panic("method invoked on nil interface")
		}
		if f := lookupMethod(fr.i, recv.t, call.Method); f == nil {
			// Unreachable in well-typed programs.
			panic(fmt.Sprintf("method set for dynamic type %v does not contain %s", recv.t, call.Method))
		} else {
			fn = f
		}
		args = append(args, recv.v)
	}
	for _, arg := range call.Args {
		args = append(args, fr.get(arg))
	}
	return
}

// call interprets a call to a function (function, builtin or closure)
// fn with arguments args, returning its result.
// callpos is the position of the callsite.
func call(i *interpreter, caller *frame, callpos token.Pos, fn value, args []value) value {
	switch fn := fn.(type) {
	case *ssa.Function:
		if fn == nil {
			panic("call of nil function") // nil of func type
		}
		return callSSA(i, caller, callpos, fn, args, nil)
	case *closure:
		return callSSA(i, caller, callpos, fn.Fn, args, fn.Env)
	case *ssa.Builtin:
		return callBuiltin(caller, callpos, fn, args)
	}
	panic(fmt.Sprintf("cannot call %T", fn))
}

func loc(fset *token.FileSet, pos token.Pos) string {
	if pos == token.NoPos {
		return ""
	}
	return " at " + fset.Position(pos).String()
}

// callSSA interprets a call to function fn with arguments args,
// and lexical environment env, returning its result.
// callpos is the position of the callsite.
// fatalError: a condition the Go runtime ends the process for (not a panic the program could recover from).
type fatalError string

// maxCallDepth: deeper than any recursion of the code under test on the bounded inputs of the harnesses (the
// parser recurses once per nesting level of an expression), far below what the host stack could take.
const maxCallDepth = 3000

func callSSA(i *interpreter, caller *frame, callpos token.Pos, fn *ssa.Function, args []value, env []value) value {
	if i.mode&EnableTracing != 0 {
		fset := fn.Prog.Fset
		// TODO(adonovan): fix: loc() lies for external functions.
		fmt.Fprintf(os.Stderr, "Entering %s%s.\n", fn, loc(fset, fn.Pos()))
		suffix := ""
		if caller != nil {
			suffix = ", resuming " + caller.fn.String() + loc(fset, callpos)
		}
		defer fmt.Fprintf(os.Stderr, "Leaving %s%s.\n", fn, suffix)
	}
	fr := &frame{
		i:      i,
		caller: caller, // for panic/recover
		fn:     fn,
	}
	// unbounded recursion: natively the goroutine's stack grows to its limit and the runtime ends the process
	// with "fatal error: stack overflow", which no recover() intercepts
	i.callDepth++
	defer func() { i.callDepth-- }()
	if i.callDepth > maxCallDepth {
		panic(fatalError(fmt.Sprintf("fatal error: stack overflow (call depth %d, unbounded recursion) in %s", i.callDepth, fn)))
	}
	if fn.Parent() == nil {
		meta := fnMetas[fn]
		if meta == nil {
			meta = &fnMeta{name: fn.String()}
			meta.depInit = fn.Name() == "init" && fn.Pkg != nil && fn.Signature.Recv() == nil && !strings.HasPrefix(fn.Pkg.Pkg.Path(), ModulePrefix)
			meta.inModule = fn.Pkg != nil && strings.HasPrefix(fn.Pkg.Pkg.Path(), ModulePrefix)
			meta.ext = externals[meta.name]
			if meta.ext == nil && (strings.HasPrefix(meta.name, "(*strings.Builder).") || strings.HasPrefix(meta.name, "(*bytes.Buffer).")) {
				name := meta.name
				meta.ext = func(fr *frame, args []value) value { panic(unsupported("no model for " + name)) }
			}
			fnMetas[fn] = meta
		}
		name := meta.name
		if meta.depInit {
			// dependency packages are initialised lazily (depinit.go); inside such an initialisation the
			// inits of the packages it imports run the same way
			if depInitDepth > 0 && depStates[fn.Pkg] == depNone {
				fr.i.ensureDepInit(fn.Pkg, nil)
			}
			if depStates[fn.Pkg] != depRunning || caller != nil {
				return nil
			}
		}
		if meta.inModule && !meta.touched {
			meta.touched = true
			if _, ok := touched[name]; !ok {
				n := 0
				for _, b := range fn.Blocks {
					n += len(b.Instrs)
				}
				file := ""
				if fn.Pos().IsValid() {
					file = fn.Prog.Fset.Position(fn.Pos()).Filename
				}
				touched[name] = FuncInfo{Name: name, Instrs: n, File: file}
			}
		}
		if ext := meta.ext; ext != nil {
			return ext(fr, args)
		}
		if fn.Blocks == nil && fn.Pkg != nil {
			fn.Pkg.Build() // dependency packages are built on first use
		}
		if fn.Blocks == nil {
			panic(unsupported("no code for function: " + name))
		}
	} else if fn.Blocks == nil {
		if p := fn.Parent(); p != nil && p.Pkg != nil {
			p.Pkg.Build()
		}
	}

	// generic function body?
	if fn.TypeParams().Len() > 0 && len(fn.TypeArgs()) == 0 {
		panic("interp requires ssa.BuilderMode to include InstantiateGenerics to execute generics")
	}

	fr.idx = envIndex(fn)
	fr.env = make([]value, len(fr.idx))
	fr.envSet = make([]bool, len(fr.idx))
	fr.block = fn.Blocks[0]
	fr.locals = make([]value, len(fn.Locals))
	for i, l := range fn.Locals {
		fr.locals[i] = zero(mustDeref(l.Type()))
		fr.setv(l, &fr.locals[i])
	}
	for i, p := range fn.Params {
		fr.setv(p, args[i])
	}
	for i, fv := range fn.FreeVars {
		fr.setv(fv, env[i])
	}
	for fr.block != nil {
		runFrame(fr)
	}
	// Destroy the locals to avoid accidental use after return.
	for i := range fn.Locals {
		fr.locals[i] = bad{}
	}
	return fr.result
}

// runFrame executes SSA instructions starting at fr.block and
// continuing until a return, a panic, or a recovered panic.
//
// After a panic, runFrame panics.
//
// After a normal return, fr.result contains the result of the call
// and fr.block is nil.
//
// A recovered panic in a function without named return parameters
// (NRPs) becomes a normal return of the zero value of the function's
// result type.
//
// After a recovered panic in a function with NRPs, fr.result is
// undefined and fr.block contains the block at which to resume
// control.
func runFrame(fr *frame) {
	defer func() {
		if fr.block == nil {
			return // normal return
		}
		if fr.i.mode&DisableRecover != 0 {
			return // let interpreter crash
		}
		fr.panicking = true
		fr.panic = recover()
		if fr.i.panicStack == "" {
			st := ""
			for f := fr; f != nil; f = f.caller {
				st += f.fn.String() + " <- "
			}
			fr.i.panicStack = st
		}
		if fr.i.mode&EnableTracing != 0 {
			fmt.Fprintf(os.Stderr, "Panicking: %T %v.\n", fr.panic, fr.panic)
		}
		fr.runDefers()
		fr.block = fr.fn.Recover
	}()

	for {
		if fr.i.mode&EnableTracing != 0 {
			fmt.Fprintf(os.Stderr, ".%s:\n", fr.block)
		}

		nonPhis := executePhis(fr)
		for _, instr := range nonPhis {
			if fr.i.mode&EnableTracing != 0 {
				if v, ok := instr.(ssa.Value); ok {
					fmt.Fprintln(os.Stderr, "\t", v.Name(), "=", instr)
				} else {
					fmt.Fprintln(os.Stderr, "\t", instr)
				}
			}
			fr.i.steps++
			if fr.i.stepLimit > 0 && fr.i.steps > fr.i.stepLimit {
				panic(unsupported("step limit exceeded (unwinding bound)"))
			}
			if visitInstr(fr, instr) == kReturn {
				return
			}
			// Inv: kNext (continue) or kJump (last instr)
		}
	}
}

// executePhis executes the phi-nodes at the start of the current
// block and returns the non-phi instructions.
func executePhis(fr *frame) []ssa.Instruction {
	firstNonPhi := -1
	for i, instr := range fr.block.Instrs {
		if _, ok := instr.(*ssa.Phi); !ok {
			firstNonPhi = i
			break
		}
	}
	// Inv: 0 <= firstNonPhi; every block contains a non-phi.

	nonPhis := fr.block.Instrs[firstNonPhi:]
	if firstNonPhi > 0 {
		phis := fr.block.Instrs[:firstNonPhi]
		// Execute parallel assignment of phis.
		//
		// See "the swap problem" in Briggs et al's "Practical Improvements
		// to the Construction and Destruction of SSA Form" for discussion.
		predIndex := slices.Index(fr.block.Preds, fr.prevBlock)
		fr.phitemps = fr.phitemps[:0]
		for _, phi := range phis {
			phi := phi.(*ssa.Phi)
			if fr.i.mode&EnableTracing != 0 {
				fmt.Fprintln(os.Stderr, "\t", phi.Name(), "=", phi)
			}
			fr.phitemps = append(fr.phitemps, fr.get(phi.Edges[predIndex]))
		}
		for i, phi := range phis {
			fr.setv(phi.(*ssa.Phi), fr.phitemps[i])
		}
	}
	return nonPhis
}

// doRecover implements the recover() built-in.
func doRecover(caller *frame) value {
	// recover() must be exactly one level beneath the deferred
	// function (two levels beneath the panicking function) to
	// have any effect.  Thus we ignore both "defer recover()" and
	// "defer f() -> g() -> recover()".
	if caller.i.mode&DisableRecover == 0 &&
		caller != nil && !caller.panicking &&
		caller.caller != nil && caller.caller.panicking {
		caller.caller.panicking = false
		p := caller.caller.panic
		caller.caller.panic = nil

		// TODO(adonovan): support runtime.Goexit.
		switch p := p.(type) {
		case targetPanic:
			// The target program explicitly called panic().
			return p.v
		case runtime.Error:
			// The interpreter encountered a runtime error.
			return iface{caller.i.runtimeErrorString, p.Error()}
		case string:
			// The interpreter explicitly called panic().
			return iface{caller.i.runtimeErrorString, p}
		case pathInfeasible, pathSkipped, unsupported, abortThread, fatalError:
			// engine control flow is not visible to the target program (nor is a fatal error of the Go runtime,
			// such as a stack overflow: recover() does not stop it)
			panic(p)
		default:
			panic(fmt.Sprintf("unexpected panic type %T in target call to recover()", p))
		}
	}
	return iface{}
}

// Interpret interprets the Go program whose main package is mainpkg.
// mode specifies various interpreter options.  filename and args are
// the initial values of os.Args for the target program.  sizes is the
// effective type-sizing function for this program.
//
// Interpret returns the exit code of the program: 2 for panic (like
// gc does), or the argument to os.Exit for normal termination.
//
// The SSA program must include the "runtime" package.
//
// Type parameterized functions must have been built with
// InstantiateGenerics in the ssa.BuilderMode to be interpreted.
func Interpret(mainpkg *ssa.Package, mode Mode, sizes types.Sizes, filename string, args []string) (exitCode int) {
	i := &interpreter{
		prog:       mainpkg.Prog,
		globals:    make(map[*ssa.Global]*value),
		mode:       mode,
		sizes:      sizes,
		goroutines: 1,
	}
	runtimePkg := i.prog.ImportedPackage("runtime")
	if runtimePkg == nil {
		panic("ssa.Program doesn't include runtime package")
	}
	i.runtimeErrorString = runtimePkg.Type("errorString").Object().Type()

	initReflect(i)

	i.osArgs = append(i.osArgs, filename)
	for _, arg := range args {
		i.osArgs = append(i.osArgs, arg)
	}

	for _, pkg := range i.prog.AllPackages() {
		// Initialize global storage.
		for _, m := range pkg.Members {
			switch v := m.(type) {
			case *ssa.Global:
				cell := zero(mustDeref(v.Type()))
				i.globals[v] = &cell
			}
		}
	}

	// Top-level error handler.
	exitCode = 2
	defer func() {
		if exitCode != 2 || i.mode&DisableRecover != 0 {
			return
		}
		switch p := recover().(type) {
		case exitPanic:
			exitCode = int(p)
			return
		case targetPanic:
			fmt.Fprintln(os.Stderr, "panic:", toString(p.v))
		case runtime.Error:
			fmt.Fprintln(os.Stderr, "panic:", p.Error())
		case string:
			fmt.Fprintln(os.Stderr, "panic:", p)
		default:
			fmt.Fprintf(os.Stderr, "panic: unexpected type: %T: %v\n", p, p)
		}

		// TODO(adonovan): dump panicking interpreter goroutine?
		// buf := make([]byte, 0x10000)
		// runtime.Stack(buf, false)
		// fmt.Fprintln(os.Stderr, string(buf))
		// (Or dump panicking target goroutine?)
	}()

	// Run!
	call(i, nil, token.NoPos, mainpkg.Func("init"), nil)
	if mainFn := mainpkg.Func("main"); mainFn != nil {
		call(i, nil, token.NoPos, mainFn, nil)
		exitCode = 0
	} else {
		fmt.Fprintln(os.Stderr, "No main function.")
		exitCode = 1
	}
	return
}

// symbolicByteIndex: x[i] for a symbolic index into a string or an array of bytes of at most 256 elements (a
// look-up table such as "0123456789abcdef"[n]) is one term - a nested ite over the elements - instead of a fork
// per feasible index. The bounds check stays a branch: an index that may lie outside panics on that side.
func symbolicByteIndex(fr *frame, x value, idx *sym) (value, bool) {
	var elems []value
	switch x := x.(type) {
	case string:
		for k := 0; k < len(x); k++ {
			elems = append(elems, x[k])
		}
	case sstr:
		elems = x
	case array:
		elems = x
	default:
		return nil, false
	}
	if len(elems) == 0 || len(elems) > 256 || idx.k != symBV {
		return nil, false
	}
	terms := make([]string, len(elems))
	isBool := false
	for k, e := range elems {
		switch b := e.(type) {
		case uint8:
			terms[k] = bvConst(uint64(b), 8)
		case bool:
			isBool = true
			terms[k] = "false"
			if b {
				terms[k] = "true"
			}
		case *sym:
			if b.k == symBool {
				isBool = true
			} else if b.k != symBV || b.w != 8 {
				return nil, false
			}
			terms[k] = b.e
		default:
			return nil, false
		}
		if isBoolTerm(e) != isBoolTerm(elems[0]) {
			return nil, false
		}
	}
	isBool = isBoolTerm(elems[0])
	_, signed := kindWidth(idx.gk)
	inRange := "(bvult " + idx.e + " " + bvConst(uint64(len(elems)), idx.w) + ")"
	if signed {
		inRange = "(and (bvsge " + idx.e + " " + bvConst(0, idx.w) + ") (bvslt " + idx.e + " " + bvConst(uint64(len(elems)), idx.w) + "))"
	}
	if !signed && idx.w < 64 && uint64(len(elems)) >= uint64(1)<<uint(idx.w) {
		inRange = "true" // every value of the index type is a valid index
	}
	if !fr.i.cond(mkBool(inRange)) {
		return nil, false // outside: the ordinary path concretises the index and faults like the runtime does
	}
	e := terms[len(terms)-1]
	for k := len(terms) - 2; k >= 0; k-- {
		e = "(ite (= " + idx.e + " " + bvConst(uint64(k), idx.w) + ") " + terms[k] + " " + e + ")"
	}
	if isBool {
		return simplifyBool(mkBool(e)), true
	}
	return &sym{e: e, k: symBV, w: 8, gk: types.Uint8}, true
}

func isBoolTerm(v value) bool {
	switch b := v.(type) {
	case bool:
		return true
	case *sym:
		return b.k == symBool
	}
	return false
}

// onlyLoaded: every use of the address computed by instr is a load.
func onlyLoaded(instr *ssa.IndexAddr) bool {
	refs := instr.Referrers()
	if refs == nil || len(*refs) == 0 {
		return false
	}
	for _, r := range *refs {
		u, ok := r.(*ssa.UnOp)
		if !ok || u.Op != token.MUL {
			return false
		}
	}
	return true
}

package interp

import "go/types"

func mustDeref(t types.Type) types.Type {
	if p, ok := types.Unalias(t).Underlying().(*types.Pointer); ok {
		return p.Elem()
	}
	panic("mustDeref: not a pointer: " + t.String())
}

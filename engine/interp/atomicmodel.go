package interp

import "fmt"

// sync/atomic on concrete cells. The engine's threads are pre-empted only at mutex operations and at
// unlocked shared accesses, so an external runs atomically; the accesses are not recorded for the
// lock-set check (an atomic access never races with another atomic access).
func init() {
	add := func(x value, d value) value {
		switch x := x.(type) {
		case int32:
			return x + d.(int32)
		case int64:
			return x + d.(int64)
		case uint32:
			return x + d.(uint32)
		case uint64:
			return x + d.(uint64)
		case uintptr:
			return x + d.(uintptr)
		}
		panic(unsupported(fmt.Sprintf("sync/atomic add on %T", x)))
	}
	for _, t := range []string{"Int32", "Int64", "Uint32", "Uint64", "Uintptr", "Pointer"} {
		externals["sync/atomic.Load"+t] = func(fr *frame, args []value) value { return *args[0].(*value) }
		externals["sync/atomic.Store"+t] = func(fr *frame, args []value) value { *args[0].(*value) = args[1]; return nil }
		externals["sync/atomic.Swap"+t] = func(fr *frame, args []value) value {
			p := args[0].(*value)
			old := *p
			*p = args[1]
			return old
		}
		externals["sync/atomic.CompareAndSwap"+t] = func(fr *frame, args []value) value {
			p := args[0].(*value)
			if _, isSym := (*p).(*sym); isSym {
				panic(unsupported("sync/atomic compare-and-swap on a symbolic cell"))
			}
			if equals(nil, *p, args[1]) {
				*p = args[2]
				return true
			}
			return false
		}
		if t != "Pointer" {
			externals["sync/atomic.Add"+t] = func(fr *frame, args []value) value {
				p := args[0].(*value)
				*p = add(*p, args[1])
				return *p
			}
		}
	}
	// hooks of package sync's initialiser into the runtime: nothing to do in the engine (sync.Pool itself is
	// not modelled: its methods need further runtime hooks and stay unsupported)
	externals["sync.runtime_registerPoolCleanup"] = func(fr *frame, args []value) value { return nil }
	externals["sync.runtime_notifyListCheck"] = func(fr *frame, args []value) value { return nil }
}

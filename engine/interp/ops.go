// Copyright 2013 The Go Authors. All rights reserved.
// Use of this source code is governed by a BSD-style
// license that can be found in the LICENSE file.

package interp

import (
	"unicode/utf8"
	"bytes"
	"fmt"
	"go/constant"
	"go/token"
	"go/types"
	"math"
	"os"
	"strings"
	"unsafe"

	"golang.org/x/tools/go/ssa"
)

// If the target program panics, the interpreter panics with this type.
type targetPanic struct {
	v value
}

func (p targetPanic) String() string {
	return toString(p.v)
}

// If the target program calls exit, the interpreter panics with this type.
type exitPanic int

// constValue returns the value of the constant with the
// dynamic type tag appropriate for c.Type().
func constValue(c *ssa.Const) value {
	if c.Value == nil {
		return zero(c.Type()) // typed zero
	}
	// c is not a type parameter so it's underlying type is basic.

	if t, ok := c.Type().Underlying().(*types.Basic); ok {
		// TODO(adonovan): eliminate untyped constants from SSA form.
		switch t.Kind() {
		case types.Bool, types.UntypedBool:
			return constant.BoolVal(c.Value)
		case types.Int, types.UntypedInt:
			// Assume sizeof(int) is same on host and target.
			return int(c.Int64())
		case types.Int8:
			return int8(c.Int64())
		case types.Int16:
			return int16(c.Int64())
		case types.Int32, types.UntypedRune:
			return int32(c.Int64())
		case types.Int64:
			return c.Int64()
		case types.Uint:
			// Assume sizeof(uint) is same on host and target.
			return uint(c.Uint64())
		case types.Uint8:
			return uint8(c.Uint64())
		case types.Uint16:
			return uint16(c.Uint64())
		case types.Uint32:
			return uint32(c.Uint64())
		case types.Uint64:
			return c.Uint64()
		case types.Uintptr:
			// Assume sizeof(uintptr) is same on host and target.
			return uintptr(c.Uint64())
		case types.Float32:
			return float32(c.Float64())
		case types.Float64, types.UntypedFloat:
			return c.Float64()
		case types.Complex64:
			return complex64(c.Complex128())
		case types.Complex128, types.UntypedComplex:
			return c.Complex128()
		case types.String, types.UntypedString:
			if c.Value.Kind() == constant.String {
				return constant.StringVal(c.Value)
			}
			return string(rune(c.Int64()))
		}
	}

	panic(fmt.Sprintf("constValue: %s", c))
}

// fitsInt returns true if x fits in type int according to sizes.
func fitsInt(x int64, sizes types.Sizes) bool {
	intSize := sizes.Sizeof(types.Typ[types.Int])
	if intSize < sizes.Sizeof(types.Typ[types.Int64]) {
		maxInt := int64(1)<<((intSize*8)-1) - 1
		minInt := -int64(1) << ((intSize * 8) - 1)
		return minInt <= x && x <= maxInt
	}
	return true
}

// asInt64 converts x, which must be an integer, to an int64.
//
// Callers that need a value directly usable as an int should combine this with fitsInt().
func asInt64(x value) int64 {
	switch x := x.(type) {
	case *sym:
		return cur.concretize(x)
	case int:
		return int64(x)
	case int8:
		return int64(x)
	case int16:
		return int64(x)
	case int32:
		return int64(x)
	case int64:
		return x
	case uint:
		return int64(x)
	case uint8:
		return int64(x)
	case uint16:
		return int64(x)
	case uint32:
		return int64(x)
	case uint64:
		return int64(x)
	case uintptr:
		return int64(x)
	}
	panic(fmt.Sprintf("cannot convert %T to int64", x))
}

// asUint64 converts x, which must be an unsigned integer, to a uint64
// suitable for use as a bitwise shift count.
func asUint64(x value) uint64 {
	switch x := x.(type) {
	case uint:
		return uint64(x)
	case uint8:
		return uint64(x)
	case uint16:
		return uint64(x)
	case uint32:
		return uint64(x)
	case uint64:
		return x
	case uintptr:
		return uint64(x)
	}
	panic(fmt.Sprintf("cannot convert %T to uint64", x))
}

// asUnsigned returns the value of x, which must be an integer type, as its equivalent unsigned type,
// and returns true if x is non-negative.
func asUnsigned(x value) (value, bool) {
	switch x := x.(type) {
	case int:
		return uint(x), x >= 0
	case int8:
		return uint8(x), x >= 0
	case int16:
		return uint16(x), x >= 0
	case int32:
		return uint32(x), x >= 0
	case int64:
		return uint64(x), x >= 0
	case uint, uint8, uint32, uint64, uintptr:
		return x, true
	}
	panic(fmt.Sprintf("cannot convert %T to unsigned", x))
}

// zero returns a new "zero" value of the specified type.
func zero(t types.Type) value {
	switch t := t.(type) {
	case *types.Basic:
		if t.Kind() == types.UntypedNil {
			panic("untyped nil has no zero value")
		}
		if t.Info()&types.IsUntyped != 0 {
			// TODO(adonovan): make it an invariant that
			// this is unreachable.  Currently some
			// constants have 'untyped' types when they
			// should be defaulted by the typechecker.
			t = types.Default(t).(*types.Basic)
		}
		switch t.Kind() {
		case types.Bool:
			return false
		case types.Int:
			return int(0)
		case types.Int8:
			return int8(0)
		case types.Int16:
			return int16(0)
		case types.Int32:
			return int32(0)
		case types.Int64:
			return int64(0)
		case types.Uint:
			return uint(0)
		case types.Uint8:
			return uint8(0)
		case types.Uint16:
			return uint16(0)
		case types.Uint32:
			return uint32(0)
		case types.Uint64:
			return uint64(0)
		case types.Uintptr:
			return uintptr(0)
		case types.Float32:
			return float32(0)
		case types.Float64:
			return float64(0)
		case types.Complex64:
			return complex64(0)
		case types.Complex128:
			return complex128(0)
		case types.String:
			return ""
		case types.UnsafePointer:
			return unsafe.Pointer(nil)
		default:
			panic(fmt.Sprint("zero for unexpected type:", t))
		}
	case *types.Pointer:
		return (*value)(nil)
	case *types.Array:
		a := make(array, t.Len())
		for i := range a {
			a[i] = zero(t.Elem())
		}
		return a
	case *types.Named:
		return zero(t.Underlying())
	case *types.Alias:
		return zero(types.Unalias(t))
	case *types.Interface:
		return iface{} // nil type, methodset and value
	case *types.Slice:
		return []value(nil)
	case *types.Struct:
		s := make(structure, t.NumFields())
		for i := range s {
			s[i] = zero(t.Field(i).Type())
		}
		return s
	case *types.Tuple:
		if t.Len() == 1 {
			return zero(t.At(0).Type())
		}
		s := make(tuple, t.Len())
		for i := range s {
			s[i] = zero(t.At(i).Type())
		}
		return s
	case *types.Chan:
		return chan value(nil)
	case *types.Map:
		return (*smap)(nil)
	case *types.Signature:
		return (*ssa.Function)(nil)
	}
	panic(fmt.Sprint("zero: unexpected ", t))
}

// slice returns x[lo:hi:max].  Any of lo, hi and max may be nil.
func slice(x, lo, hi, max value) value {
	var Len, Cap int
	switch t := x.(type) {
	case numstr:
		x = materialise(t) // the characters are needed: the text of the integer, digit by digit
	case fpstr:
		panic(unsupported("a slice of the text of a formatted symbolic double"))
	case decstr:
		panic(unsupported("a slice of a symbolic decimal numeral"))
	}
	switch x := x.(type) {
	case sstr:
		Len = len(x)
	case string:
		Len = len(x)
	case []value:
		Len = len(x)
		Cap = cap(x)
	case *value: // *array
		a := (*x).(array)
		Len = len(a)
		Cap = cap(a)
	}

	l := int64(0)
	if lo != nil {
		l = asInt64(lo)
	}

	h := int64(Len)
	if hi != nil {
		h = asInt64(hi)
	}

	m := int64(Cap)
	if max != nil {
		m = asInt64(max)
	}

	switch x := x.(type) {
	case sstr:
		return normStr(append(sstr{}, x[l:h]...))
	case string:
		return x[l:h]
	case []value:
		return x[l:h:m]
	case *value: // *array
		a := (*x).(array)
		return []value(a)[l:h:m]
	}
	panic(fmt.Sprintf("slice: unexpected X type: %T", x))
}

// lookup returns x[idx] where x is a map.
func lookup(instr *ssa.Lookup, x, idx value) value {
	m, ok := x.(*smap)
	if !ok {
		panic(fmt.Sprintf("unexpected x type in Lookup: %T", x))
	}
	et := instr.X.Type().Underlying().(*types.Map).Elem()
	if b, isB := et.Underlying().(*types.Basic); !isB || b.Kind() != types.Bool {
		goto general
	}
	if v, okv, done := m.lookupMerged(idx); done {
		if instr.CommaOk {
			return tuple{v, okv}
		}
		return v
	}
general:
	p := m.find(cur, idx)
	var v value
	if p >= 0 {
		v = m.vals[p]
	} else {
		v = zero(et)
	}
	if instr.CommaOk {
		return tuple{v, p >= 0}
	}
	return v
}

// binop implements all arithmetic and logical binary operators for
// numeric datatypes and strings.  Both operands must have identical
// dynamic type.
func binop(op token.Token, t types.Type, x, y value) value {
	switch x.(type) {
	case sstr, numstr, decstr:
		return strBinop(op, x, y)
	}
	switch y.(type) {
	case sstr, numstr, decstr:
		return strBinop(op, x, y)
	}
	_, xs := x.(*sym)
	_, ys := y.(*sym)
	if xs || ys {
		switch op {
		case token.SHL, token.SHR:
			return symShift(op, x, y)
		case token.QUO, token.REM:
			return symDiv(op, t, x, y)
		}
		return symBinop(op, t, x, y)
	}
	switch op {
	case token.ADD:
		switch x.(type) {
		case int:
			return x.(int) + y.(int)
		case int8:
			return x.(int8) + y.(int8)
		case int16:
			return x.(int16) + y.(int16)
		case int32:
			return x.(int32) + y.(int32)
		case int64:
			return x.(int64) + y.(int64)
		case uint:
			return x.(uint) + y.(uint)
		case uint8:
			return x.(uint8) + y.(uint8)
		case uint16:
			return x.(uint16) + y.(uint16)
		case uint32:
			return x.(uint32) + y.(uint32)
		case uint64:
			return x.(uint64) + y.(uint64)
		case uintptr:
			return x.(uintptr) + y.(uintptr)
		case float32:
			return x.(float32) + y.(float32)
		case float64:
			return x.(float64) + y.(float64)
		case complex64:
			return x.(complex64) + y.(complex64)
		case complex128:
			return x.(complex128) + y.(complex128)
		case string:
			return x.(string) + y.(string)
		}

	case token.SUB:
		switch x.(type) {
		case int:
			return x.(int) - y.(int)
		case int8:
			return x.(int8) - y.(int8)
		case int16:
			return x.(int16) - y.(int16)
		case int32:
			return x.(int32) - y.(int32)
		case int64:
			return x.(int64) - y.(int64)
		case uint:
			return x.(uint) - y.(uint)
		case uint8:
			return x.(uint8) - y.(uint8)
		case uint16:
			return x.(uint16) - y.(uint16)
		case uint32:
			return x.(uint32) - y.(uint32)
		case uint64:
			return x.(uint64) - y.(uint64)
		case uintptr:
			return x.(uintptr) - y.(uintptr)
		case float32:
			return x.(float32) - y.(float32)
		case float64:
			return x.(float64) - y.(float64)
		case complex64:
			return x.(complex64) - y.(complex64)
		case complex128:
			return x.(complex128) - y.(complex128)
		}

	case token.MUL:
		switch x.(type) {
		case int:
			return x.(int) * y.(int)
		case int8:
			return x.(int8) * y.(int8)
		case int16:
			return x.(int16) * y.(int16)
		case int32:
			return x.(int32) * y.(int32)
		case int64:
			return x.(int64) * y.(int64)
		case uint:
			return x.(uint) * y.(uint)
		case uint8:
			return x.(uint8) * y.(uint8)
		case uint16:
			return x.(uint16) * y.(uint16)
		case uint32:
			return x.(uint32) * y.(uint32)
		case uint64:
			return x.(uint64) * y.(uint64)
		case uintptr:
			return x.(uintptr) * y.(uintptr)
		case float32:
			return x.(float32) * y.(float32)
		case float64:
			return x.(float64) * y.(float64)
		case complex64:
			return x.(complex64) * y.(complex64)
		case complex128:
			return x.(complex128) * y.(complex128)
		}

	case token.QUO:
		switch x.(type) {
		case int:
			return x.(int) / y.(int)
		case int8:
			return x.(int8) / y.(int8)
		case int16:
			return x.(int16) / y.(int16)
		case int32:
			return x.(int32) / y.(int32)
		case int64:
			return x.(int64) / y.(int64)
		case uint:
			return x.(uint) / y.(uint)
		case uint8:
			return x.(uint8) / y.(uint8)
		case uint16:
			return x.(uint16) / y.(uint16)
		case uint32:
			return x.(uint32) / y.(uint32)
		case uint64:
			return x.(uint64) / y.(uint64)
		case uintptr:
			return x.(uintptr) / y.(uintptr)
		case float32:
			return x.(float32) / y.(float32)
		case float64:
			return x.(float64) / y.(float64)
		case complex64:
			return x.(complex64) / y.(complex64)
		case complex128:
			return x.(complex128) / y.(complex128)
		}

	case token.REM:
		switch x.(type) {
		case int:
			return x.(int) % y.(int)
		case int8:
			return x.(int8) % y.(int8)
		case int16:
			return x.(int16) % y.(int16)
		case int32:
			return x.(int32) % y.(int32)
		case int64:
			return x.(int64) % y.(int64)
		case uint:
			return x.(uint) % y.(uint)
		case uint8:
			return x.(uint8) % y.(uint8)
		case uint16:
			return x.(uint16) % y.(uint16)
		case uint32:
			return x.(uint32) % y.(uint32)
		case uint64:
			return x.(uint64) % y.(uint64)
		case uintptr:
			return x.(uintptr) % y.(uintptr)
		}

	case token.AND:
		switch x.(type) {
		case int:
			return x.(int) & y.(int)
		case int8:
			return x.(int8) & y.(int8)
		case int16:
			return x.(int16) & y.(int16)
		case int32:
			return x.(int32) & y.(int32)
		case int64:
			return x.(int64) & y.(int64)
		case uint:
			return x.(uint) & y.(uint)
		case uint8:
			return x.(uint8) & y.(uint8)
		case uint16:
			return x.(uint16) & y.(uint16)
		case uint32:
			return x.(uint32) & y.(uint32)
		case uint64:
			return x.(uint64) & y.(uint64)
		case uintptr:
			return x.(uintptr) & y.(uintptr)
		}

	case token.OR:
		switch x.(type) {
		case int:
			return x.(int) | y.(int)
		case int8:
			return x.(int8) | y.(int8)
		case int16:
			return x.(int16) | y.(int16)
		case int32:
			return x.(int32) | y.(int32)
		case int64:
			return x.(int64) | y.(int64)
		case uint:
			return x.(uint) | y.(uint)
		case uint8:
			return x.(uint8) | y.(uint8)
		case uint16:
			return x.(uint16) | y.(uint16)
		case uint32:
			return x.(uint32) | y.(uint32)
		case uint64:
			return x.(uint64) | y.(uint64)
		case uintptr:
			return x.(uintptr) | y.(uintptr)
		}

	case token.XOR:
		switch x.(type) {
		case int:
			return x.(int) ^ y.(int)
		case int8:
			return x.(int8) ^ y.(int8)
		case int16:
			return x.(int16) ^ y.(int16)
		case int32:
			return x.(int32) ^ y.(int32)
		case int64:
			return x.(int64) ^ y.(int64)
		case uint:
			return x.(uint) ^ y.(uint)
		case uint8:
			return x.(uint8) ^ y.(uint8)
		case uint16:
			return x.(uint16) ^ y.(uint16)
		case uint32:
			return x.(uint32) ^ y.(uint32)
		case uint64:
			return x.(uint64) ^ y.(uint64)
		case uintptr:
			return x.(uintptr) ^ y.(uintptr)
		}

	case token.AND_NOT:
		switch x.(type) {
		case int:
			return x.(int) &^ y.(int)
		case int8:
			return x.(int8) &^ y.(int8)
		case int16:
			return x.(int16) &^ y.(int16)
		case int32:
			return x.(int32) &^ y.(int32)
		case int64:
			return x.(int64) &^ y.(int64)
		case uint:
			return x.(uint) &^ y.(uint)
		case uint8:
			return x.(uint8) &^ y.(uint8)
		case uint16:
			return x.(uint16) &^ y.(uint16)
		case uint32:
			return x.(uint32) &^ y.(uint32)
		case uint64:
			return x.(uint64) &^ y.(uint64)
		case uintptr:
			return x.(uintptr) &^ y.(uintptr)
		}

	case token.SHL:
		u, ok := asUnsigned(y)
		if !ok {
			panic("negative shift amount")
		}
		y := asUint64(u)
		switch x.(type) {
		case int:
			return x.(int) << y
		case int8:
			return x.(int8) << y
		case int16:
			return x.(int16) << y
		case int32:
			return x.(int32) << y
		case int64:
			return x.(int64) << y
		case uint:
			return x.(uint) << y
		case uint8:
			return x.(uint8) << y
		case uint16:
			return x.(uint16) << y
		case uint32:
			return x.(uint32) << y
		case uint64:
			return x.(uint64) << y
		case uintptr:
			return x.(uintptr) << y
		}

	case token.SHR:
		u, ok := asUnsigned(y)
		if !ok {
			panic("negative shift amount")
		}
		y := asUint64(u)
		switch x.(type) {
		case int:
			return x.(int) >> y
		case int8:
			return x.(int8) >> y
		case int16:
			return x.(int16) >> y
		case int32:
			return x.(int32) >> y
		case int64:
			return x.(int64) >> y
		case uint:
			return x.(uint) >> y
		case uint8:
			return x.(uint8) >> y
		case uint16:
			return x.(uint16) >> y
		case uint32:
			return x.(uint32) >> y
		case uint64:
			return x.(uint64) >> y
		case uintptr:
			return x.(uintptr) >> y
		}

	case token.LSS:
		switch x.(type) {
		case int:
			return x.(int) < y.(int)
		case int8:
			return x.(int8) < y.(int8)
		case int16:
			return x.(int16) < y.(int16)
		case int32:
			return x.(int32) < y.(int32)
		case int64:
			return x.(int64) < y.(int64)
		case uint:
			return x.(uint) < y.(uint)
		case uint8:
			return x.(uint8) < y.(uint8)
		case uint16:
			return x.(uint16) < y.(uint16)
		case uint32:
			return x.(uint32) < y.(uint32)
		case uint64:
			return x.(uint64) < y.(uint64)
		case uintptr:
			return x.(uintptr) < y.(uintptr)
		case float32:
			return x.(float32) < y.(float32)
		case float64:
			return x.(float64) < y.(float64)
		case string:
			return x.(string) < y.(string)
		}

	case token.LEQ:
		switch x.(type) {
		case int:
			return x.(int) <= y.(int)
		case int8:
			return x.(int8) <= y.(int8)
		case int16:
			return x.(int16) <= y.(int16)
		case int32:
			return x.(int32) <= y.(int32)
		case int64:
			return x.(int64) <= y.(int64)
		case uint:
			return x.(uint) <= y.(uint)
		case uint8:
			return x.(uint8) <= y.(uint8)
		case uint16:
			return x.(uint16) <= y.(uint16)
		case uint32:
			return x.(uint32) <= y.(uint32)
		case uint64:
			return x.(uint64) <= y.(uint64)
		case uintptr:
			return x.(uintptr) <= y.(uintptr)
		case float32:
			return x.(float32) <= y.(float32)
		case float64:
			return x.(float64) <= y.(float64)
		case string:
			return x.(string) <= y.(string)
		}

	case token.EQL:
		return eqnilV(t, x, y)

	case token.NEQ:
		return notVal(eqnilV(t, x, y))

	case token.GTR:
		switch x.(type) {
		case int:
			return x.(int) > y.(int)
		case int8:
			return x.(int8) > y.(int8)
		case int16:
			return x.(int16) > y.(int16)
		case int32:
			return x.(int32) > y.(int32)
		case int64:
			return x.(int64) > y.(int64)
		case uint:
			return x.(uint) > y.(uint)
		case uint8:
			return x.(uint8) > y.(uint8)
		case uint16:
			return x.(uint16) > y.(uint16)
		case uint32:
			return x.(uint32) > y.(uint32)
		case uint64:
			return x.(uint64) > y.(uint64)
		case uintptr:
			return x.(uintptr) > y.(uintptr)
		case float32:
			return x.(float32) > y.(float32)
		case float64:
			return x.(float64) > y.(float64)
		case string:
			return x.(string) > y.(string)
		}

	case token.GEQ:
		switch x.(type) {
		case int:
			return x.(int) >= y.(int)
		case int8:
			return x.(int8) >= y.(int8)
		case int16:
			return x.(int16) >= y.(int16)
		case int32:
			return x.(int32) >= y.(int32)
		case int64:
			return x.(int64) >= y.(int64)
		case uint:
			return x.(uint) >= y.(uint)
		case uint8:
			return x.(uint8) >= y.(uint8)
		case uint16:
			return x.(uint16) >= y.(uint16)
		case uint32:
			return x.(uint32) >= y.(uint32)
		case uint64:
			return x.(uint64) >= y.(uint64)
		case uintptr:
			return x.(uintptr) >= y.(uintptr)
		case float32:
			return x.(float32) >= y.(float32)
		case float64:
			return x.(float64) >= y.(float64)
		case string:
			return x.(string) >= y.(string)
		}
	}
	panic(fmt.Sprintf("invalid binary op: %T %s %T", x, op, y))
}

// eqnil returns the comparison x == y using the equivalence relation
// appropriate for type t.
// If t is a reference type, at most one of x or y may be a nil value
// of that type.
func eqnil(t types.Type, x, y value) bool {
	switch t.Underlying().(type) {
	case *types.Map, *types.Signature, *types.Slice:
		// Since these types don't support comparison,
		// one of the operands must be a literal nil.
		switch x := x.(type) {
		case *smap:
			return (x != nil) == (y.(*smap) != nil)
		case *ssa.Function:
			switch y := y.(type) {
			case *ssa.Function:
				return (x != nil) == (y != nil)
			case *closure:
				return true
			}
		case *closure:
			return (x != nil) == (y.(*ssa.Function) != nil)
		case []value:
			return (x != nil) == (y.([]value) != nil)
		}
		panic(fmt.Sprintf("eqnil(%s): illegal dynamic type: %T", t, x))
	}

	return equals(t, x, y)
}

func eqnilV(t types.Type, x, y value) value {
	switch t.Underlying().(type) {
	case *types.Map, *types.Signature, *types.Slice:
		return eqnil(t, x, y)
	}
	return equalsV(t, x, y)
}

// unsafeOrigins: the static type of every pointer that was converted to unsafe.Pointer.
var unsafeOrigins = map[unsafe.Pointer]types.Type{}

func unop(instr *ssa.UnOp, x value) value {
	if s, ok := x.(*sym); ok {
		switch instr.Op {
		case token.NOT:
			return simplifyBool(symNot(s))
		case token.SUB:
			if s.k == symBV {
				return &sym{e: "(bvneg " + s.e + ")", k: symBV, w: s.w, gk: s.gk}
			}
			if s.origin != nil && s.ow+1 <= 54 {
				// the negation of an exactly converted integer n is the exactly converted -n, except that -(+0) is
				// the double -0, whose text differs from that of the integer 0: that case is split off
				if cur.cond(mkBool("(= " + s.origin.e + " " + bvConst(0, 64) + ")")) {
					return math.Copysign(0, -1)
				}
				return &sym{e: "(fp.neg " + s.e + ")", k: symFP, ow: s.ow + 1,
					origin: &sym{e: "(bvneg " + s.origin.e + ")", k: symBV, w: 64, gk: types.Int64}}
			}
			return &sym{e: "(fp.neg " + s.e + ")", k: symFP}
		case token.XOR:
			return &sym{e: "(bvnot " + s.e + ")", k: symBV, w: s.w, gk: s.gk}
		}
		panic(unsupported("symbolic unop " + instr.Op.String()))
	}
	switch instr.Op {
	case token.ARROW: // receive
		v, ok := <-x.(chan value)
		if !ok {
			v = zero(instr.X.Type().Underlying().(*types.Chan).Elem())
		}
		if instr.CommaOk {
			v = tuple{v, ok}
		}
		return v
	case token.SUB:
		switch x := x.(type) {
		case int:
			return -x
		case int8:
			return -x
		case int16:
			return -x
		case int32:
			return -x
		case int64:
			return -x
		case uint:
			return -x
		case uint8:
			return -x
		case uint16:
			return -x
		case uint32:
			return -x
		case uint64:
			return -x
		case uintptr:
			return -x
		case float32:
			return -x
		case float64:
			return -x
		case complex64:
			return -x
		case complex128:
			return -x
		}
	case token.MUL:
		return load(mustDeref(instr.X.Type()), x.(*value))
	case token.NOT:
		return !x.(bool)
	case token.XOR:
		switch x := x.(type) {
		case int:
			return ^x
		case int8:
			return ^x
		case int16:
			return ^x
		case int32:
			return ^x
		case int64:
			return ^x
		case uint:
			return ^x
		case uint8:
			return ^x
		case uint16:
			return ^x
		case uint32:
			return ^x
		case uint64:
			return ^x
		case uintptr:
			return ^x
		}
	}
	panic(fmt.Sprintf("invalid unary op %s %T", instr.Op, x))
}

// typeAssert checks whether dynamic type of itf is instr.AssertedType.
// It returns the extracted value on success, and panics on failure,
// unless instr.CommaOk, in which case it always returns a "value,ok" tuple.
func typeAssert(i *interpreter, instr *ssa.TypeAssert, itf iface) value {
	var v value
	err := ""
	if itf.t == nil {
		err = fmt.Sprintf("interface conversion: interface is nil, not %s", instr.AssertedType)

	} else if idst, ok := instr.AssertedType.Underlying().(*types.Interface); ok {
		v = itf
		err = checkInterface(i, idst, itf)

	} else if types.Identical(itf.t, instr.AssertedType) {
		v = itf.v // extract value

	} else {
		err = fmt.Sprintf("interface conversion: interface is %s, not %s", itf.t, instr.AssertedType)
	}
	// Note: if instr.Underlying==true ever becomes reachable from interp check that
	// types.Identical(itf.t.Underlying(), instr.AssertedType)

	if err != "" {
		if !instr.CommaOk {
			panic(err)
		}
		return tuple{zero(instr.AssertedType), false}
	}
	if instr.CommaOk {
		return tuple{v, true}
	}
	return v
}

// This variable is no longer used but remains to prevent build breakage.
var CapturedOutput *bytes.Buffer

// callBuiltin interprets a call to builtin fn with arguments args,
// returning its result.
func callBuiltin(caller *frame, callpos token.Pos, fn *ssa.Builtin, args []value) value {
	switch fn.Name() {
	case "append":
		if len(args) == 1 {
			return args[0]
		}
		if s, ok := args[1].(sstr); ok {
			arg0 := args[0].([]value)
			return append(arg0, s...)
		}
		if s, ok := args[1].(string); ok {
			// append([]byte, ...string) []byte
			arg0 := args[0].([]value)
			for i := 0; i < len(s); i++ {
				arg0 = append(arg0, s[i])
			}
			return arg0
		}
		// append([]T, ...[]T) []T
		// Aggregate elements (structs, arrays) live inline in their slot and are updated in place by
		// store(), so the appended elements must be copies, not shared with the source slice.
		src := args[1].([]value)
		if et := builtinElemType(fn); et != nil && isAggregate(et) {
			cp := make([]value, len(src))
			for k := range src {
				cp[k] = load(et, &src[k])
			}
			src = cp
		}
		return append(args[0].([]value), src...)

	case "copy": // copy([]T, []T) int or copy([]byte, string) int
		src := args[1]
		if ss, ok := src.(sstr); ok {
			src = []value(ss)
		}
		if _, ok := src.(string); ok {
			params := fn.Type().(*types.Signature).Params()
			src = conv(params.At(0).Type(), params.At(1).Type(), src)
		}
		srcv := src.([]value)
		if et := builtinElemType(fn); et != nil && isAggregate(et) {
			dst := args[0].([]value)
			n := len(dst)
			if len(srcv) < n {
				n = len(srcv)
			}
			// element-wise through load, in an order that is safe for overlapping slices
			tmp := make([]value, n)
			for k := 0; k < n; k++ {
				tmp[k] = load(et, &srcv[k])
			}
			copy(dst, tmp)
			return n
		}
		return copy(args[0].([]value), srcv)

	case "close": // close(chan T)
		close(args[0].(chan value))
		return nil

	case "Sizeof", "Alignof": // unsafe.Sizeof / Alignof left in instantiated generic code
		if sig, ok := fn.Type().(*types.Signature); ok && sig.Params().Len() == 1 {
			if fn.Name() == "Sizeof" {
				return uintptr(cur.sizes.Sizeof(sig.Params().At(0).Type()))
			}
			return uintptr(cur.sizes.Alignof(sig.Params().At(0).Type()))
		}
		panic(unsupported("unsafe." + fn.Name() + " of an unknown type"))

	case "clear": // clear(map) / clear([]T)
		switch x := args[0].(type) {
		case *smap:
			cur.recordAccess(args[0], true, caller, callpos)
			if x != nil {
				x.keys, x.vals, x.idx, x.symKeys = nil, nil, map[value]int{}, 0
			}
		case []value:
			et := builtinElemType(fn)
			if et == nil {
				panic(unsupported("clear of a slice of unknown element type"))
			}
			for k := range x {
				x[k] = zero(et)
			}
		case nil:
		default:
			panic(unsupported(fmt.Sprintf("clear of %T", x)))
		}
		return nil

	case "delete": // delete(map[K]value, K)
		cur.recordAccess(args[0], true, caller, callpos)
		switch m := args[0].(type) {
		case *smap:
			m.remove(cur, args[1])
		default:
			panic(fmt.Sprintf("illegal map type: %T", m))
		}
		return nil

	case "print", "println": // print(any, ...)
		ln := fn.Name() == "println"
		var buf bytes.Buffer
		for i, arg := range args {
			if i > 0 && ln {
				buf.WriteRune(' ')
			}
			buf.WriteString(toString(arg))
		}
		if ln {
			buf.WriteRune('\n')
		}
		os.Stderr.Write(buf.Bytes())
		return nil

	case "len":
		switch x := args[0].(type) {
		case string:
			return len(x)
		case array:
			return len(x)
		case *value:
			return len((*x).(array))
		case []value:
			return len(x)
		case *smap:
			return x.length()
		case sstr:
			return len(x)
		case chan value:
			return len(x)
		default:
			panic(fmt.Sprintf("len: illegal operand: %T", x))
		}

	case "cap":
		switch x := args[0].(type) {
		case array:
			return cap(x)
		case *value:
			return cap((*x).(array))
		case []value:
			return cap(x)
		case chan value:
			return cap(x)
		default:
			panic(fmt.Sprintf("cap: illegal operand: %T", x))
		}

	case "min":
		return foldLeft(min, args)
	case "max":
		return foldLeft(max, args)

	case "real":
		switch c := args[0].(type) {
		case complex64:
			return real(c)
		case complex128:
			return real(c)
		default:
			panic(fmt.Sprintf("real: illegal operand: %T", c))
		}

	case "imag":
		switch c := args[0].(type) {
		case complex64:
			return imag(c)
		case complex128:
			return imag(c)
		default:
			panic(fmt.Sprintf("imag: illegal operand: %T", c))
		}

	case "complex":
		switch f := args[0].(type) {
		case float32:
			return complex(f, args[1].(float32))
		case float64:
			return complex(f, args[1].(float64))
		default:
			panic(fmt.Sprintf("complex: illegal operand: %T", f))
		}

	case "panic":
		// ssa.Panic handles most cases; this is only for "go
		// panic" or "defer panic".
		panic(targetPanic{args[0]})

	case "recover":
		return doRecover(caller)

	case "ssa:wrapnilchk":
		recv := args[0]
		if recv.(*value) == nil {
			recvType := args[1]
			methodName := args[2]
			panic(fmt.Sprintf("value method (%s).%s called using nil *%s pointer",
				recvType, methodName, recvType))
		}
		return recv

	case "ssa:deferstack":
		return &caller.defers
	}

	panic(unsupported("built-in " + fn.Name() + " is not modelled"))
}

// builtinElemType returns the element type of the first (slice) parameter of append/copy.
func builtinElemType(fn *ssa.Builtin) types.Type {
	sig, ok := fn.Type().(*types.Signature)
	if !ok || sig.Params().Len() == 0 {
		return nil
	}
	if sl, ok := sig.Params().At(0).Type().Underlying().(*types.Slice); ok {
		return sl.Elem()
	}
	return nil
}

func isAggregate(t types.Type) bool {
	switch t.Underlying().(type) {
	case *types.Struct, *types.Array:
		return true
	}
	return false
}

func rangeIter(x value, t types.Type) iter {
	switch x := x.(type) {
	case *smap:
		return x.iter()
	case sstr:
		return &sstrIter{s: x}
	case string:
		return &stringIter{Reader: strings.NewReader(x)}
	}
	panic(fmt.Sprintf("cannot range over %T", x))
}

// sstrIter ranges over a string with symbolic bytes: ASCII bytes are one rune each, other bytes are decoded as
// unicode/utf8 does (decodeSymbolicRune).
type sstrIter struct {
	s sstr
	i int
}

func (it *sstrIter) next() tuple {
	if it.i >= len(it.s) {
		return tuple{false, 0, int32(0)}
	}
	pos := it.i
	switch c := it.s[pos].(type) {
	case uint8:
		if c < 0x80 {
			it.i++
			return tuple{true, pos, int32(c)}
		}
		// a concrete multi-byte rune: all of its bytes must be concrete
		n := 1
		for pos+n < len(it.s) && n < 4 {
			if _, ok := it.s[pos+n].(uint8); !ok {
				break
			}
			n++
		}
		b := make([]byte, n)
		for k := range b {
			b[k] = it.s[pos+k].(uint8)
		}
		r, size := utf8.DecodeRune(b)
		if pos+size < len(it.s) || size == n {
			it.i += size
			return tuple{true, pos, int32(r)}
		}
		panic(unsupported("range over a string mixing non-ASCII concrete and symbolic bytes"))
	case *sym:
		if cur.cond(mkBool("(bvult " + c.e + " #x80)")) {
			it.i++
			return tuple{true, pos, &sym{e: "((_ zero_extend 24) " + c.e + ")", k: symBV, w: 32, gk: types.Int32}}
		}
		r, size := decodeSymbolicRune(it.s[pos:])
		it.i += size
		return tuple{true, pos, r}
	}
	panic("sstrIter")
}

// decodeSymbolicRune is utf8.DecodeRune for a byte sequence whose first byte is a term known to be >= 0x80: it
// forks over the classes of lead bytes and over "is the next byte a continuation byte of the required range"
// exactly as unicode/utf8 does (table first / acceptRanges), and returns the rune - a term over the bytes for a
// well-formed sequence, the constant U+FFFD with size 1 for anything else.
func decodeSymbolicRune(s sstr) (value, int) {
	bv := func(v value) string {
		switch b := v.(type) {
		case uint8:
			return bvConst(uint64(b), 8)
		case *sym:
			return b.e
		}
		panic(unsupported("range over a string with a non-byte element"))
	}
	in := func(e string, lo, hi uint64) bool {
		return cur.cond(mkBool("(and (bvuge " + e + " " + bvConst(lo, 8) + ") (bvule " + e + " " + bvConst(hi, 8) + "))"))
	}
	ext := func(e string) string { return "((_ zero_extend 24) " + e + ")" }
	bad := func() (value, int) { return int32(0xFFFD), 1 }
	c0 := bv(s[0])
	// lead byte classes: (first byte range, sequence length, range of the second byte)
	type class struct {
		lo, hi   uint64
		n        int
		lo2, hi2 uint64
	}
	classes := []class{{0xC2, 0xDF, 2, 0x80, 0xBF}, {0xE0, 0xE0, 3, 0xA0, 0xBF}, {0xE1, 0xEC, 3, 0x80, 0xBF}, {0xED, 0xED, 3, 0x80, 0x9F},
		{0xEE, 0xEF, 3, 0x80, 0xBF}, {0xF0, 0xF0, 4, 0x90, 0xBF}, {0xF1, 0xF3, 4, 0x80, 0xBF}, {0xF4, 0xF4, 4, 0x80, 0x8F}}
	for _, cl := range classes {
		if !in(c0, cl.lo, cl.hi) {
			continue
		}
		if len(s) < cl.n {
			return bad()
		}
		c1 := bv(s[1])
		if !in(c1, cl.lo2, cl.hi2) {
			return bad()
		}
		switch cl.n {
		case 2:
			e := "(bvor (bvshl (bvand " + ext(c0) + " #x0000001f) #x00000006) (bvand " + ext(c1) + " #x0000003f))"
			return &sym{e: e, k: symBV, w: 32, gk: types.Int32}, 2
		case 3:
			c2 := bv(s[2])
			if !in(c2, 0x80, 0xBF) {
				return bad()
			}
			e := "(bvor (bvshl (bvand " + ext(c0) + " #x0000000f) #x0000000c) (bvor (bvshl (bvand " + ext(c1) + " #x0000003f) #x00000006) (bvand " + ext(c2) + " #x0000003f)))"
			return &sym{e: e, k: symBV, w: 32, gk: types.Int32}, 3
		default:
			c2, c3 := bv(s[2]), bv(s[3])
			if !in(c2, 0x80, 0xBF) || !in(c3, 0x80, 0xBF) {
				return bad()
			}
			e := "(bvor (bvshl (bvand " + ext(c0) + " #x00000007) #x00000012) (bvor (bvshl (bvand " + ext(c1) + " #x0000003f) #x0000000c) (bvor (bvshl (bvand " + ext(c2) + " #x0000003f) #x00000006) (bvand " + ext(c3) + " #x0000003f))))"
			return &sym{e: e, k: symBV, w: 32, gk: types.Int32}, 4
		}
	}
	return bad() // 0x80..0xC1 and 0xF5..0xFF never start a sequence
}

// encodeSymbolicRune is utf8.AppendRune for a rune term: forks over the encoded length, bytes are terms; a
// surrogate or a value beyond U+10FFFF is encoded as U+FFFD.
func encodeSymbolicRune(r *sym) sstr {
	if r.w != 32 {
		panic(unsupported("a rune term that is not 32 bits wide"))
	}
	lt := func(v uint64) bool { return cur.cond(mkBool("(bvult " + r.e + " " + bvConst(v, 32) + ")")) }
	b := func(shift uint64, mask, or uint64) value {
		return &sym{e: "(bvor ((_ extract 7 0) (bvand (bvlshr " + r.e + " " + bvConst(shift, 32) + ") " + bvConst(mask, 32) + ")) " + bvConst(or, 8) + ")", k: symBV, w: 8, gk: types.Uint8}
	}
	switch {
	case lt(0x80):
		return sstr{b(0, 0x7f, 0)}
	case lt(0x800):
		return sstr{b(6, 0x1f, 0xC0), b(0, 0x3f, 0x80)}
	case cur.cond(mkBool("(and (bvuge " + r.e + " #x0000d800) (bvule " + r.e + " #x0000dfff))")):
		return sstr{uint8(0xEF), uint8(0xBF), uint8(0xBD)}
	case lt(0x10000):
		return sstr{b(12, 0x0f, 0xE0), b(6, 0x3f, 0x80), b(0, 0x3f, 0x80)}
	case lt(0x110000):
		return sstr{b(18, 0x07, 0xF0), b(12, 0x3f, 0x80), b(6, 0x3f, 0x80), b(0, 0x3f, 0x80)}
	}
	return sstr{uint8(0xEF), uint8(0xBF), uint8(0xBD)}
}

// widen widens a basic typed value x to the widest type of its
// category, one of:
//
//	bool, int64, uint64, float64, complex128, string.
//
// This is inefficient but reduces the size of the cross-product of
// cases we have to consider.
func widen(x value) value {
	switch y := x.(type) {
	case bool, int64, uint64, float64, complex128, string, unsafe.Pointer:
		return x
	case int:
		return int64(y)
	case int8:
		return int64(y)
	case int16:
		return int64(y)
	case int32:
		return int64(y)
	case uint:
		return uint64(y)
	case uint8:
		return uint64(y)
	case uint16:
		return uint64(y)
	case uint32:
		return uint64(y)
	case uintptr:
		return uint64(y)
	case float32:
		return float64(y)
	case complex64:
		return complex128(y)
	}
	panic(fmt.Sprintf("cannot widen %T", x))
}

// conv converts the value x of type t_src to type t_dst and returns
// the result.
// Possible cases are described with the ssa.Convert operator.
func conv(t_dst, t_src types.Type, x value) value {
	ut_src := t_src.Underlying()
	ut_dst := t_dst.Underlying()
	if r, ok := convSym(ut_dst, ut_src, x); ok {
		return r
	}

	// Destination type is not an "untyped" type.
	if b, ok := ut_dst.(*types.Basic); ok && b.Info()&types.IsUntyped != 0 {
		panic("oops: conversion to 'untyped' type: " + b.String())
	}

	// Nor is it an interface type.
	if _, ok := ut_dst.(*types.Interface); ok {
		if _, ok := ut_src.(*types.Interface); ok {
			panic("oops: Convert should be ChangeInterface")
		} else {
			panic("oops: Convert should be MakeInterface")
		}
	}

	// Remaining conversions:
	//    + untyped string/number/bool constant to a specific
	//      representation.
	//    + conversions between non-complex numeric types.
	//    + conversions between complex numeric types.
	//    + integer/[]byte/[]rune -> string.
	//    + string -> []byte/[]rune.
	//
	// All are treated the same: first we extract the value to the
	// widest representation (int64, uint64, float64, complex128,
	// or string), then we convert it to the desired type.

	switch ut_src := ut_src.(type) {
	case *types.Pointer:
		switch ut_dst := ut_dst.(type) {
		case *types.Basic:
			// *value to unsafe.Pointer?
			if ut_dst.Kind() == types.UnsafePointer {
				p := x.(*value)
				if p != nil {
					unsafeOrigins[unsafe.Pointer(p)] = t_src
				}
				return unsafe.Pointer(p)
			}
		}

	case *types.Slice:
		// []byte or []rune -> string
		switch ut_src.Elem().Underlying().(*types.Basic).Kind() {
		case types.Byte:
			x := x.([]value)
			return normStr(append(sstr{}, x...))

		case types.Rune:
			x := x.([]value)
			r := make([]rune, 0, len(x))
			for i := range x {
				r = append(r, x[i].(rune))
			}
			return string(r)
		}

	case *types.Basic:
		x = widen(x)

		// integer -> string?
		if ut_src.Info()&types.IsInteger != 0 {
			if ut_dst, ok := ut_dst.(*types.Basic); ok && ut_dst.Kind() == types.String {
				return fmt.Sprintf("%c", x)
			}
		}

		// string -> []rune, []byte or string?
		if s, ok := x.(string); ok {
			switch ut_dst := ut_dst.(type) {
			case *types.Slice:
				var res []value
				switch ut_dst.Elem().Underlying().(*types.Basic).Kind() {
				case types.Rune:
					for _, r := range []rune(s) {
						res = append(res, r)
					}
					return res
				case types.Byte:
					for _, b := range []byte(s) {
						res = append(res, b)
					}
					return res
				}
			case *types.Basic:
				if ut_dst.Kind() == types.String {
					return x.(string)
				}
			}
			break // fail: no other conversions for string
		}

		// unsafe.Pointer -> *value
		if ut_src.Kind() == types.UnsafePointer {
			// TODO(adonovan): this is wrong and cannot
			// really be fixed with the current design.
			//
			// return (*value)(x.(unsafe.Pointer))
			// creates a new pointer of a different
			// type but the underlying interface value
			// knows its "true" type and so cannot be
			// meaningfully used through the new pointer.
			//
			// To make this work, the interpreter needs to
			// simulate the memory layout of a real
			// compiled implementation.
			//
			// symgo: the round trip *T -> unsafe.Pointer -> *T (atomic.Pointer[T], sync.Map, sync.Pool ...)
			// is exact: the pointer is the same cell and the cell holds a T. The type the pointer had when
			// it became an unsafe.Pointer is remembered; a conversion back to that very type returns the
			// cell, a conversion to any other pointer type is unsupported (upstream returned the zero value
			// of the destination type here, i.e. silently a nil pointer).
			up := x.(unsafe.Pointer)
			if up == nil {
				return zero(t_dst)
			}
			if orig, ok := unsafeOrigins[up]; ok && types.Identical(orig, t_dst) {
				return (*value)(up)
			}
			panic(unsupported("conversion of an unsafe.Pointer to " + t_dst.String() + " (not the pointer type it was made from)"))
		}

		// Conversions between complex numeric types?
		if ut_src.Info()&types.IsComplex != 0 {
			switch ut_dst.(*types.Basic).Kind() {
			case types.Complex64:
				return complex64(x.(complex128))
			case types.Complex128:
				return x.(complex128)
			}
			break // fail: no other conversions for complex
		}

		// Conversions between non-complex numeric types?
		if ut_src.Info()&types.IsNumeric != 0 {
			kind := ut_dst.(*types.Basic).Kind()
			switch x := x.(type) {
			case int64: // signed integer -> numeric?
				switch kind {
				case types.Int:
					return int(x)
				case types.Int8:
					return int8(x)
				case types.Int16:
					return int16(x)
				case types.Int32:
					return int32(x)
				case types.Int64:
					return int64(x)
				case types.Uint:
					return uint(x)
				case types.Uint8:
					return uint8(x)
				case types.Uint16:
					return uint16(x)
				case types.Uint32:
					return uint32(x)
				case types.Uint64:
					return uint64(x)
				case types.Uintptr:
					return uintptr(x)
				case types.Float32:
					return float32(x)
				case types.Float64:
					return float64(x)
				}

			case uint64: // unsigned integer -> numeric?
				switch kind {
				case types.Int:
					return int(x)
				case types.Int8:
					return int8(x)
				case types.Int16:
					return int16(x)
				case types.Int32:
					return int32(x)
				case types.Int64:
					return int64(x)
				case types.Uint:
					return uint(x)
				case types.Uint8:
					return uint8(x)
				case types.Uint16:
					return uint16(x)
				case types.Uint32:
					return uint32(x)
				case types.Uint64:
					return uint64(x)
				case types.Uintptr:
					return uintptr(x)
				case types.Float32:
					return float32(x)
				case types.Float64:
					return float64(x)
				}

			case float64: // floating point -> numeric?
				switch kind {
				case types.Int:
					return int(x)
				case types.Int8:
					return int8(x)
				case types.Int16:
					return int16(x)
				case types.Int32:
					return int32(x)
				case types.Int64:
					return int64(x)
				case types.Uint:
					return uint(x)
				case types.Uint8:
					return uint8(x)
				case types.Uint16:
					return uint16(x)
				case types.Uint32:
					return uint32(x)
				case types.Uint64:
					return uint64(x)
				case types.Uintptr:
					return uintptr(x)
				case types.Float32:
					return float32(x)
				case types.Float64:
					return float64(x)
				}
			}
		}
	}

	panic(fmt.Sprintf("unsupported conversion: %s  -> %s, dynamic type %T", t_src, t_dst, x))
}

// sliceToArrayPointer converts the value x of type slice to type t_dst
// a pointer to array and returns the result.
func sliceToArrayPointer(t_dst, t_src types.Type, x value) value {
	if _, ok := t_src.Underlying().(*types.Slice); ok {
		if ptr, ok := t_dst.Underlying().(*types.Pointer); ok {
			if arr, ok := ptr.Elem().Underlying().(*types.Array); ok {
				x := x.([]value)
				if arr.Len() > int64(len(x)) {
					panic("array length is greater than slice length")
				}
				if x == nil {
					return zero(t_dst)
				}
				v := value(array(x[:arr.Len()]))
				return &v
			}
		}
	}

	panic(fmt.Sprintf("unsupported conversion: %s  -> %s, dynamic type %T", t_src, t_dst, x))
}

// checkInterface checks that the method set of x implements the
// interface itype.
// On success it returns "", on failure, an error message.
func checkInterface(i *interpreter, itype *types.Interface, x iface) string {
	if meth, _ := types.MissingMethod(x.t, itype, true); meth != nil {
		return fmt.Sprintf("interface conversion: %v is not %v: missing method %s",
			x.t, itype, meth.Name())
	}
	return "" // ok
}

func foldLeft(op func(value, value) value, args []value) value {
	x := args[0]
	for _, arg := range args[1:] {
		x = op(x, arg)
	}
	return x
}

func min(x, y value) value {
	switch x := x.(type) {
	case float32:
		return fmin(x, y.(float32))
	case float64:
		return fmin(x, y.(float64))
	}

	// return (y < x) ? y : x
	if binop(token.LSS, nil, y, x).(bool) {
		return y
	}
	return x
}

func max(x, y value) value {
	switch x := x.(type) {
	case float32:
		return fmax(x, y.(float32))
	case float64:
		return fmax(x, y.(float64))
	}

	// return (y > x) ? y : x
	if binop(token.GTR, nil, y, x).(bool) {
		return y
	}
	return x
}

// copied from $GOROOT/src/runtime/minmax.go

type floaty interface{ ~float32 | ~float64 }

func fmin[F floaty](x, y F) F {
	if y != y || y < x {
		return y
	}
	if x != x || x < y || x != 0 {
		return x
	}
	// x and y are both ±0
	// if either is -0, return -0; else return +0
	return forbits(x, y)
}

func fmax[F floaty](x, y F) F {
	if y != y || y > x {
		return y
	}
	if x != x || x > y || x != 0 {
		return x
	}
	// x and y are both ±0
	// if both are -0, return -0; else return +0
	return fandbits(x, y)
}

func forbits[F floaty](x, y F) F {
	switch unsafe.Sizeof(x) {
	case 4:
		*(*uint32)(unsafe.Pointer(&x)) |= *(*uint32)(unsafe.Pointer(&y))
	case 8:
		*(*uint64)(unsafe.Pointer(&x)) |= *(*uint64)(unsafe.Pointer(&y))
	}
	return x
}

func fandbits[F floaty](x, y F) F {
	switch unsafe.Sizeof(x) {
	case 4:
		*(*uint32)(unsafe.Pointer(&x)) &= *(*uint32)(unsafe.Pointer(&y))
	case 8:
		*(*uint64)(unsafe.Pointer(&x)) &= *(*uint64)(unsafe.Pointer(&y))
	}
	return x
}

// convSym handles conversions whose operand is symbolic.
func convSym(ut_dst, ut_src types.Type, x value) (value, bool) {
	switch v := x.(type) {
	case sstr:
		switch d := ut_dst.(type) {
		case *types.Basic:
			if d.Kind() == types.String {
				return v, true
			}
		case *types.Slice:
			if b, ok := d.Elem().Underlying().(*types.Basic); ok && b.Kind() == types.Byte {
				return append([]value{}, v...), true
			}
		}
		panic(unsupported("conversion of symbolic string to " + ut_dst.String()))
	case *sym:
		d, ok := ut_dst.(*types.Basic)
		if !ok {
			panic(unsupported("conversion of symbolic scalar to " + ut_dst.String()))
		}
		if d.Kind() == types.String {
			// string(byte/rune): UTF-8 encode
			if v.w != 8 {
				panic(unsupported("string(rune) of wide symbolic integer"))
			}
			if cur.cond(mkBool("(bvult " + v.e + " #x80)")) {
				return sstr{v}, true
			}
			hi := &sym{e: "(bvor #xc0 (bvlshr " + v.e + " #x06))", k: symBV, w: 8, gk: types.Uint8}
			lo := &sym{e: "(bvor #x80 (bvand " + v.e + " #x3f))", k: symBV, w: 8, gk: types.Uint8}
			return sstr{hi, lo}, true
		}
		if d.Info()&types.IsInteger != 0 && v.k == symBV {
			return symConv(d.Kind(), v), true
		}
		if d.Kind() == types.Float64 && v.k == symBV {
			_, signed := kindWidth(v.gk)
			f := "to_fp_unsigned"
			if signed {
				f = "to_fp"
			}
			e := v.e
			if mm := sextRe.FindStringSubmatch(e); mm != nil && signed {
				e = mm[1]
			}
			return withOrigin(&sym{e: "((_ " + f + " 11 53) RNE " + e + ")", k: symFP}, v), true
		}
		if d.Info()&types.IsInteger != 0 && v.k == symFP {
			if v.origin != nil {
				return symConv(d.Kind(), v.origin), true
			}
			w, signed := kindWidth(d.Kind())
			conv := "fp.to_ubv"
			if signed {
				conv = "fp.to_sbv"
			}
			return &sym{e: fmt.Sprintf("((_ %s %d) RTZ %s)", conv, w, v.e), k: symBV, w: w, gk: d.Kind()}, true
		}
		if d.Kind() == types.Float64 && v.k == symFP {
			return v, true
		}
		panic(unsupported("conversion of symbolic scalar to " + d.String()))
	}
	return nil, false
}

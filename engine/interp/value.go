// Copyright 2013 The Go Authors. All rights reserved.
// Use of this source code is governed by a BSD-style
// license that can be found in the LICENSE file.

package interp

// Values
//
// All interpreter values are "boxed" in the empty interface, value.
// The range of possible dynamic types within value are:
//
// - bool
// - numbers (all built-in int/float/complex types are distinguished)
// - string
// - map[value]value --- maps for which  usesBuiltinMap(keyType)
//   *hashmap        --- maps for which !usesBuiltinMap(keyType)
// - chan value
// - []value --- slices
// - iface --- interfaces.
// - structure --- structs.  Fields are ordered and accessed by numeric indices.
// - array --- arrays.
// - *value --- pointers.  Careful: *value is a distinct type from *array etc.
// - *ssa.Function \
//   *ssa.Builtin   } --- functions.  A nil 'func' is always of type *ssa.Function.
//   *closure      /
// - tuple --- as returned by Return, Next, "value,ok" modes, etc.
// - iter --- iterators from 'range' over map or string.
// - bad --- a poison pill for locals that have gone out of scope.
// - rtype -- the interpreter's concrete implementation of reflect.Type
// - **deferred -- the address of a frame's defer stack for a Defer._Stack.
//
// Note that nil is not on this list.
//
// Pay close attention to whether or not the dynamic type is a pointer.
// The compiler cannot help you since value is an empty interface.

import (
	"bytes"
	"fmt"
	"go/token"
	"go/types"
	"io"
	"reflect"
	"strings"
	"sync"
	"unsafe"

	"golang.org/x/tools/go/ssa"
	"golang.org/x/tools/go/types/typeutil"
)

type value interface{}

type tuple []value

type array []value

type iface struct {
	t types.Type // never an "untyped" type
	v value
}

type structure []value

// For map, array, *array, slice, string or channel.
type iter interface {
	// next returns a Tuple (key, value, ok).
	// key and value are unaliased, e.g. copies of the sequence element.
	next() tuple
}

type closure struct {
	Fn  *ssa.Function
	Env []value
}

type bad struct{}

type rtype struct {
	t types.Type
}

// Hash functions and equivalence relation:

// hashString computes the FNV hash of s.
func hashString(s string) int {
	var h uint32
	for i := 0; i < len(s); i++ {
		h ^= uint32(s[i])
		h *= 16777619
	}
	return int(h)
}

var (
	mu     sync.Mutex
	hasher = typeutil.MakeHasher()
)

// hashType returns a hash for t such that
// types.Identical(x, y) => hashType(x) == hashType(y).
func hashType(t types.Type) int {
	return int(hasher.Hash(t))
}

// usesBuiltinMap returns true if the built-in hash function and
// equivalence relation for type t are consistent with those of the
// interpreter's representation of type t.  Such types are: all basic
// types (bool, numbers, string), pointers and channels.
//
// usesBuiltinMap returns false for types that require a custom map
// implementation: interfaces, arrays and structs.
//
// Panic ensues if t is an invalid map key type: function, map or slice.
func usesBuiltinMap(t types.Type) bool {
	switch t := t.(type) {
	case *types.Basic, *types.Chan, *types.Pointer:
		return true
	case *types.Named, *types.Alias:
		return usesBuiltinMap(t.Underlying())
	case *types.Interface, *types.Array, *types.Struct:
		return false
	}
	panic(fmt.Sprintf("invalid map key type: %T", t))
}

func (x array) eq(t types.Type, _y interface{}) bool {
	y := _y.(array)
	tElt := t.Underlying().(*types.Array).Elem()
	for i, xi := range x {
		if !equals(tElt, xi, y[i]) {
			return false
		}
	}
	return true
}

func (x array) hash(t types.Type) int {
	h := 0
	tElt := t.Underlying().(*types.Array).Elem()
	for _, xi := range x {
		h += hash(t, tElt, xi)
	}
	return h
}

func (x structure) eq(t types.Type, _y interface{}) bool {
	y := _y.(structure)
	tStruct := t.Underlying().(*types.Struct)
	for i, n := 0, tStruct.NumFields(); i < n; i++ {
		if f := tStruct.Field(i); !f.Anonymous() {
			if !equals(f.Type(), x[i], y[i]) {
				return false
			}
		}
	}
	return true
}

func (x structure) hash(t types.Type) int {
	tStruct := t.Underlying().(*types.Struct)
	h := 0
	for i, n := 0, tStruct.NumFields(); i < n; i++ {
		if f := tStruct.Field(i); !f.Anonymous() {
			h += hash(t, f.Type(), x[i])
		}
	}
	return h
}

// nil-tolerant variant of types.Identical.
func sameType(x, y types.Type) bool {
	if x == nil {
		return y == nil
	}
	return y != nil && types.Identical(x, y)
}

func (x iface) eq(t types.Type, _y interface{}) bool {
	y := _y.(iface)
	return sameType(x.t, y.t) && (x.t == nil || equals(x.t, x.v, y.v))
}

func (x iface) hash(outer types.Type) int {
	return hashType(x.t)*8581 + hash(outer, x.t, x.v)
}

func (x rtype) hash(_ types.Type) int {
	return hashType(x.t)
}

func (x rtype) eq(_ types.Type, y interface{}) bool {
	return types.Identical(x.t, y.(rtype).t)
}

// equals returns true iff x and y are equal according to Go's
// linguistic equivalence relation for type t.
// In a well-typed program, the dynamic types of x and y are
// guaranteed equal.
func equals(t types.Type, x, y value) bool {
	if isSym(x) || isSym(y) {
		r := equalsV(t, x, y)
		if b, ok := r.(bool); ok {
			return b
		}
		return cur.cond(r)
	}
	switch x := x.(type) {
	case bool:
		return x == y.(bool)
	case int:
		return x == y.(int)
	case int8:
		return x == y.(int8)
	case int16:
		return x == y.(int16)
	case int32:
		return x == y.(int32)
	case int64:
		return x == y.(int64)
	case uint:
		return x == y.(uint)
	case uint8:
		return x == y.(uint8)
	case uint16:
		return x == y.(uint16)
	case uint32:
		return x == y.(uint32)
	case uint64:
		return x == y.(uint64)
	case uintptr:
		return x == y.(uintptr)
	case float32:
		return x == y.(float32)
	case float64:
		return x == y.(float64)
	case complex64:
		return x == y.(complex64)
	case complex128:
		return x == y.(complex128)
	case string:
		return x == y.(string)
	case *value:
		return x == y.(*value)
	case unsafe.Pointer:
		return x == y.(unsafe.Pointer)
	case chan value:
		return x == y.(chan value)
	case structure:
		return x.eq(t, y)
	case array:
		return x.eq(t, y)
	case iface:
		return x.eq(t, y)
	case rtype:
		return x.eq(t, y)
	}

	// Since map, func and slice don't support comparison, this
	// case is only reachable if one of x or y is literally nil
	// (handled in eqnil) or via interface{} values.
	panic(fmt.Sprintf("comparing uncomparable type %s", t))
}

// Returns an integer hash of x such that equals(x, y) => hash(x) == hash(y).
// The outer type is used only for the "unhashable" panic message.
func hash(outer, t types.Type, x value) int {
	switch x := x.(type) {
	case bool:
		if x {
			return 1
		}
		return 0
	case int:
		return x
	case int8:
		return int(x)
	case int16:
		return int(x)
	case int32:
		return int(x)
	case int64:
		return int(x)
	case uint:
		return int(x)
	case uint8:
		return int(x)
	case uint16:
		return int(x)
	case uint32:
		return int(x)
	case uint64:
		return int(x)
	case uintptr:
		return int(x)
	case float32:
		return int(x)
	case float64:
		return int(x)
	case complex64:
		return int(real(x))
	case complex128:
		return int(real(x))
	case string:
		return hashString(x)
	case *value:
		return int(uintptr(unsafe.Pointer(x)))
	case chan value:
		return int(uintptr(reflect.ValueOf(x).Pointer()))
	case structure:
		return x.hash(t)
	case array:
		return x.hash(t)
	case iface:
		return x.hash(t)
	case rtype:
		return x.hash(t)
	}
	panic(fmt.Sprintf("unhashable type %v", outer))
}

// reflect.Value struct values don't have a fixed shape, since the
// payload can be a scalar or an aggregate depending on the instance.
// So store (and load) can't simply use recursion over the shape of the
// rhs value, or the lhs, to copy the value; we need the static type
// information.  (We can't make reflect.Value a new basic data type
// because its "structness" is exposed to Go programs.)

// load returns the value of type T in *addr.
func load(T types.Type, addr *value) value {
	switch T := T.Underlying().(type) {
	case *types.Struct:
		v := (*addr).(structure)
		a := make(structure, len(v))
		for i := range a {
			a[i] = load(T.Field(i).Type(), &v[i])
		}
		return a
	case *types.Array:
		v := (*addr).(array)
		a := make(array, len(v))
		for i := range a {
			a[i] = load(T.Elem(), &v[i])
		}
		return a
	default:
		return *addr
	}
}

// store stores value v of type T into *addr.
func store(T types.Type, addr *value, v value) {
	switch T := T.Underlying().(type) {
	case *types.Struct:
		lhs := (*addr).(structure)
		rhs := v.(structure)
		for i := range lhs {
			store(T.Field(i).Type(), &lhs[i], rhs[i])
		}
	case *types.Array:
		lhs := (*addr).(array)
		rhs := v.(array)
		for i := range lhs {
			store(T.Elem(), &lhs[i], rhs[i])
		}
	default:
		*addr = v
	}
}

// Prints in the style of built-in println.
// (More or less; in gc println is actually a compiler intrinsic and
// can distinguish println(1) from println(interface{}(1)).)
func writeValue(buf *bytes.Buffer, v value) {
	switch v := v.(type) {
	case *sym:
		buf.WriteString("<" + v.e + ">")
	case sstr:
		buf.WriteString("\"")
		for _, c := range v {
			if u, ok := c.(uint8); ok {
				buf.WriteByte(u)
			} else {
				buf.WriteString("?")
			}
		}
		buf.WriteString("\"")
	case *smap:
		buf.WriteString(v.String())
	case nil, bool, int, int8, int16, int32, int64, uint, uint8, uint16, uint32, uint64, uintptr, float32, float64, complex64, complex128, string:
		fmt.Fprintf(buf, "%v", v)

	case map[value]value:
		buf.WriteString("map[")
		sep := ""
		for k, e := range v {
			buf.WriteString(sep)
			sep = " "
			writeValue(buf, k)
			buf.WriteString(":")
			writeValue(buf, e)
		}
		buf.WriteString("]")

	case *hashmap:
		buf.WriteString("map[")
		sep := " "
		for _, e := range v.entries() {
			for e != nil {
				buf.WriteString(sep)
				sep = " "
				writeValue(buf, e.key)
				buf.WriteString(":")
				writeValue(buf, e.value)
				e = e.next
			}
		}
		buf.WriteString("]")

	case chan value:
		fmt.Fprintf(buf, "%v", v) // (an address)

	case *value:
		if v == nil {
			buf.WriteString("<nil>")
		} else {
			fmt.Fprintf(buf, "%p", v)
		}

	case iface:
		fmt.Fprintf(buf, "(%s, ", v.t)
		writeValue(buf, v.v)
		buf.WriteString(")")

	case structure:
		buf.WriteString("{")
		for i, e := range v {
			if i > 0 {
				buf.WriteString(" ")
			}
			writeValue(buf, e)
		}
		buf.WriteString("}")

	case array:
		buf.WriteString("[")
		for i, e := range v {
			if i > 0 {
				buf.WriteString(" ")
			}
			writeValue(buf, e)
		}
		buf.WriteString("]")

	case []value:
		buf.WriteString("[")
		for i, e := range v {
			if i > 0 {
				buf.WriteString(" ")
			}
			writeValue(buf, e)
		}
		buf.WriteString("]")

	case *ssa.Function, *ssa.Builtin, *closure:
		fmt.Fprintf(buf, "%p", v) // (an address)

	case rtype:
		buf.WriteString(v.t.String())

	case tuple:
		// Unreachable in well-formed Go programs
		buf.WriteString("(")
		for i, e := range v {
			if i > 0 {
				buf.WriteString(", ")
			}
			writeValue(buf, e)
		}
		buf.WriteString(")")

	default:
		fmt.Fprintf(buf, "<%T>", v)
	}
}

// Implements printing of Go values in the style of built-in println.
func toString(v value) string {
	var b bytes.Buffer
	writeValue(&b, v)
	return b.String()
}

// ------------------------------------------------------------------------
// Iterators

type stringIter struct {
	*strings.Reader
	i int
}

func (it *stringIter) next() tuple {
	okv := make(tuple, 3)
	ch, n, err := it.ReadRune()
	ok := err != io.EOF
	okv[0] = ok
	if ok {
		okv[1] = it.i
		okv[2] = ch
	}
	it.i += n
	return okv
}

type mapIter struct {
	iter *reflect.MapIter
	ok   bool
}

func (it *mapIter) next() tuple {
	it.ok = it.iter.Next()
	if !it.ok {
		return []value{false, nil, nil}
	}
	k, v := it.iter.Key().Interface(), it.iter.Value().Interface()
	return []value{true, k, v}
}

type hashmapIter struct {
	iter *reflect.MapIter
	ok   bool
	cur  *entry
}

func (it *hashmapIter) next() tuple {
	for {
		if it.cur != nil {
			k, v := it.cur.key, it.cur.value
			it.cur = it.cur.next
			return []value{true, k, v}
		}
		it.ok = it.iter.Next()
		if !it.ok {
			return []value{false, nil, nil}
		}
		it.cur = it.iter.Value().Interface().(*entry)
	}
}

// equalsV is equals generalised to symbolic operands: it returns bool or *sym.
func equalsV(t types.Type, x, y value) value {
	switch a := x.(type) {
	case *sym:
		return symBinop(token.EQL, t, x, y)
	case sstr, numstr, decstr:
		return strEq(x, y)
	case string:
		if isSym(y) {
			return strEq(x, y)
		}
	case structure:
		b := y.(structure)
		st := t.Underlying().(*types.Struct)
		acc := mkBool("true")
		for i := range a {
			if st.Field(i).Name() == "_" {
				continue
			}
			acc = symAnd(acc, boolVal(equalsV(st.Field(i).Type(), a[i], b[i])))
		}
		return simplifyBool(acc)
	case array:
		b := y.(array)
		et := t.Underlying().(*types.Array).Elem()
		acc := mkBool("true")
		for i := range a {
			acc = symAnd(acc, boolVal(equalsV(et, a[i], b[i])))
		}
		return simplifyBool(acc)
	case iface:
		b := y.(iface)
		if a.t == nil || b.t == nil {
			return a.t == nil && b.t == nil
		}
		if !sameType(a.t, b.t) {
			return false
		}
		return equalsV(a.t, a.v, b.v)
	}
	if _, ok := y.(*sym); ok {
		return symBinop(token.EQL, t, x, y)
	}
	return equals(t, x, y)
}

package interp

// Machine: symbolic exploration driver and intrinsics (spike).

import (
	"bytes"
	"fmt"
	"go/token"
	"go/types"
	"os"
	"regexp"
	"runtime"
	"runtime/debug"
	"strconv"
	"strings"
	"time"

	"golang.org/x/tools/go/ssa"
)

var cur *interpreter

const ndPath = "github.com/truora/minidyn/internal/nd"

type Violation struct {
	Kind   string
	Msg    string
	Par    bool // the path ran nd.Par: the counterexample includes a thread schedule
	Model  string
	Trail  []int
	Values map[string]uint64 // nd name#occurrence -> value (replay input)
}

var pairRe = regexp.MustCompile(`\(([^\s()]+)\s+(#x[0-9a-fA-F]+|#b[01]+|true|false)\)`)

// replayValues turns a (get-value ...) answer plus the path's choices into a replay input.
func replayValues(x *Explorer, model string) map[string]uint64 {
	vals := map[string]uint64{}
	byTerm := map[string]uint64{}
	for _, mm := range pairRe.FindAllStringSubmatch(model, -1) {
		switch {
		case mm[2] == "true":
			byTerm[mm[1]] = 1
		case mm[2] == "false":
			byTerm[mm[1]] = 0
		default:
			byTerm[mm[1]] = parseBV(mm[2])
		}
	}
	occ := map[string]int{}
	for _, v := range x.ndVars {
		k := occ[v.name]
		occ[v.name] = k + 1
		key := fmt.Sprintf("%s#%d", v.name, k)
		if v.sort == "choice" {
			n, _ := strconv.ParseUint(v.term, 10, 64)
			vals[key] = n
		} else {
			vals[key] = byTerm[v.term]
		}
	}
	return vals
}

type Result struct {
	Open         [][]PrefixDecision // sub-trees given back to the work queue
	Obligations  int
	Discharged   int
	Nontrivial   int // paths that executed at least one assertion with a non-constant condition
	Samples      []string
	Paths        int
	Skipped      int
	Infeasible   int
	Violations   []Violation
	Unsupported  map[string]int
	Panics       map[string]int
	Queries      int
	SolverTime   time.Duration
	Steps        int64
	MaxTrail     int
	Reached      map[string]int
	FuncsTouched map[string]FuncInfo
	PathSamples  []PathSample // completed paths with concrete inputs, for the native cross-check
}

// PathSample is one completed, violation-free path made concrete: a model of its path condition as replay
// input plus a digest of what the harness did on it (every nd.Assert and nd.Reach executed: their number and
// the order-insensitive sum of the hashes of their ids). The native run of the harness on these inputs must
// finish without a failed assertion and with the same digest - a differential test of the engine (SSA
// interpreter, library models, solver encoding) against the compiled code.
type PathSample struct {
	Values map[string]uint64
	Sum    uint64
	N      int
}

func traceHash(kind, id string) uint64 {
	h := uint64(1469598103934665603)
	for _, c := range []byte(kind + id) {
		h = (h ^ uint64(c)) * 1099511628211
	}
	return h
}

type Machine struct {
	MaxSamples int // how many paths this process may sample (0 = none)
	sampled    int
	pathsSeen  int
	i       *interpreter
	prog    *ssa.Program
	inits   []*ssa.Function
	MaxPaths int
	StepLimit int64
	Slice    time.Duration // after this much time in one work item the rest of the sub-tree is shed
}

func (m *Machine) SetParams(p map[string]int)  { m.i.params = p }
func (m *Machine) SetKnown(k map[string]bool)  { m.i.known = k }
func (m *Machine) Close()                      { m.i.x.S.close() }

// ExploreItem explores the sub-tree below prefix.
func (m *Machine) ExploreItem(fn *ssa.Function, prefix []PrefixDecision) *Result {
	m.i.x.SetPrefix(prefix)
	return m.Explore(fn)
}

func NewMachine(prog *ssa.Program, initPkgs []*ssa.Package, solverLog *os.File) *Machine {
	i := &interpreter{
		prog:       prog,
		globals:    make(map[*ssa.Global]*value),
		sizes:      &types.StdSizes{WordSize: 8, MaxAlign: 8},
		goroutines: 1,
		bufs:       map[*value]value{},
	}
	runtimePkg := prog.ImportedPackage("runtime")
	if runtimePkg == nil {
		panic("ssa.Program doesn't include runtime package")
	}
	i.runtimeErrorString = runtimePkg.Type("errorString").Object().Type()
	initReflect(i)
	var lw *os.File = solverLog
	if lw != nil {
		i.x = NewExplorer(newSolver(lw))
	} else {
		i.x = NewExplorer(newSolver(nil))
	}
	i.x.onFlush = i.decideAsserts
	m := &Machine{i: i, prog: prog, MaxPaths: 1 << 30, StepLimit: 50_000_000}
	for _, p := range initPkgs {
		m.inits = append(m.inits, p.Func("init"))
	}
	return m
}

func (m *Machine) resetGlobals() {
	i := m.i
	first := len(i.globals) == 0
	for _, pkg := range i.prog.AllPackages() {
		if !first && !strings.HasPrefix(pkg.Pkg.Path(), ModulePrefix) {
			continue
		}
		for _, mem := range pkg.Members {
			if g, ok := mem.(*ssa.Global); ok {
				cell := zero(mustDeref(g.Type()))
				if p, ok := i.globals[g]; ok {
					*p = cell
				} else {
					i.globals[g] = &cell
				}
			}
		}
	}
	i.bufs = map[*value]value{}
}

// FuncInfo describes an in-module function that was executed (evidence: "functions encoded").
type FuncInfo struct {
	Name   string `json:"name"`
	Instrs int    `json:"instrs"`
	File   string `json:"file"`
}

var touched = map[string]FuncInfo{}
var dumped bool
var seenCrash = map[string]bool{}

// Explore runs fn (no args) over all feasible paths.
func (m *Machine) SetShard(i, w, depth int) {
	m.i.x.ShardI, m.i.x.ShardW, m.i.x.ShardDepth = i, w, depth
}

func (m *Machine) Explore(fn *ssa.Function) *Result {
	res := &Result{Unsupported: map[string]int{}, Panics: map[string]int{}, Reached: map[string]int{}}
	cur = m.i
	x := m.i.x
	reached = res.Reached
	violations = nil
	q0, t0s := x.S.Queries, x.S.Time
	m.i.obligations, m.i.discharged = 0, 0
	m.i.stepLimit = m.StepLimit
	started := time.Now()
	for {
		x.startPath()
		m.i.steps = 0
		m.i.nontrivial = false
		m.i.panicStack = ""
		m.i.locks = newLockState()
		m.i.traceSum, m.i.traceN, m.i.noSample = 0, 0, false
		m.i.callDepth = 0
		m.resetGlobals()
		nviol := len(violations)
		outcome := m.runOnce(fn)
		m.pathsSeen++
		if outcome == nil && len(violations) == nviol && !m.i.noSample && !x.usedPar && m.sampled < m.MaxSamples && m.pathsSeen&(m.pathsSeen-1) == 0 {
			// the 1st, 2nd, 4th, 8th ... path of this process: make it concrete
			x.flush()
			if len(violations) == nviol {
				if sat, model := x.checkSat("true"); sat {
					m.sampled++
					res.PathSamples = append(res.PathSamples, PathSample{Values: replayValues(x, model), Sum: m.i.traceSum, N: m.i.traceN})
				}
			}
		}
		switch o := outcome.(type) {
		case nil:
		case pathInfeasible:
			res.Infeasible++
		case pathSkipped:
			res.Skipped++
			res.Paths--
		case unsupported:
			res.Unsupported[string(o)]++
		case fatalError:
			res.Panics[firstLine(string(o))]++
			m.recordCrash(string(o))
		case targetPanic:
			res.Panics[firstLine(toString(o.v))]++
			m.recordCrash(toString(o.v))
		case runtime.Error:
			if strings.Contains(o.Error(), "interp.") {
				// a failed assertion on the engine's own value types: a gap of the engine, not a fault of the
				// code under test
				res.Unsupported["engine: "+firstLine(o.Error())]++
				break
			}
			res.Panics[firstLine(o.Error())]++
			m.recordCrash(o.Error())
		case string:
			res.Panics[firstLine(o)]++
			m.recordCrash(o)
		default:
			panic(fmt.Sprintf("interpreter failure: %T %v", outcome, outcome))
		}
		if os.Getenv("SYMGO_TRAIL") != "" {
			fmt.Fprintf(os.Stderr, "PATH %d outcome=%T\n", res.Paths, outcome)
			for k, d := range x.trail {
				if len(d.alts) > 1 {
					a := d.alts[d.choice]
					if len(a) > 100 {
						a = a[:100]
					}
					fmt.Fprintf(os.Stderr, "  d%d choice %d/%d: %s\n", k, d.choice, len(d.alts), a)
				}
			}
		}
		res.Paths++
		res.Steps += m.i.steps
		if !m.i.nontrivial {
			// a path is also non-trivial when its path condition constrains a symbolic input
			for _, d := range x.trail {
				if d.choice < len(d.alts) && d.alts[d.choice] != "true" {
					m.i.nontrivial = true
					break
				}
			}
		}
		if m.i.nontrivial {
			res.Nontrivial++
		}
		if len(res.Samples) < 3 {
			res.Samples = append(res.Samples, describePath(x, outcome))
		}
		if res.Paths >= m.MaxPaths {
			break
		}
		if m.Slice > 0 && time.Since(started) > m.Slice {
			res.Open = x.Shed()
		}
		if !x.next() {
			break
		}
	}
	res.Violations = violations
	res.Obligations, res.Discharged = m.i.obligations, m.i.discharged
	res.Queries = x.S.Queries - q0
	res.SolverTime = x.S.Time - t0s
	res.MaxTrail = x.MaxTrail
	res.FuncsTouched = touched
	return res
}

// describePath renders the nondet inputs of the path just executed (evidence samples).
func describePath(x *Explorer, outcome interface{}) string {
	var sb strings.Builder
	for k, v := range x.ndVars {
		if k > 40 {
			sb.WriteString(" ...")
			break
		}
		if v.sort == "choice" {
			fmt.Fprintf(&sb, "%s=%s ", v.name, v.term)
		} else {
			fmt.Fprintf(&sb, "%s:%s ", v.name, strings.TrimPrefix(strings.TrimSuffix(v.sort, ")"), "(_ "))
		}
	}
	fmt.Fprintf(&sb, "| decisions=%d", len(x.trail))
	switch o := outcome.(type) {
	case nil:
		sb.WriteString(" end=normal")
	case pathInfeasible:
		sb.WriteString(" end=assumption-infeasible")
	default:
		fmt.Fprintf(&sb, " end=%T", o)
	}
	return sb.String()
}

func firstLine(s string) string {
	if i := strings.IndexByte(s, '\n'); i >= 0 {
		s = s[:i]
	}
	if len(s) > 400 {
		s = s[:400]
	}
	return s
}

var violations []Violation
var reached map[string]int

func (m *Machine) recordCrash(msg string) {
	x := m.i.x
	// one report per panic site: the message without its numbers plus the innermost functions
	parts := strings.SplitN(m.i.panicStack, " <- ", 4)
	if len(parts) > 3 {
		parts = parts[:3]
	}
	site := strings.Join(parts, " <- ")
	key := firstLine(digitsRe.ReplaceAllString(firstLine(msg), "N")) + " @ " + site
	if !seenCrash[key] {
		seenCrash[key] = true
		x.pending = nil
		_, model := x.checkSat("true")
		violations = append(violations, Violation{Kind: "crash", Msg: key, Par: x.usedPar, Model: model, Trail: trailChoices(x), Values: replayValues(x, model)})
	}
}

var digitsRe = regexp.MustCompile(`[0-9]+`)

func trailChoices(x *Explorer) []int {
	r := make([]int, len(x.trail))
	for i, d := range x.trail {
		r[i] = d.choice
	}
	return r
}

func (m *Machine) runOnce(fn *ssa.Function) (outcome interface{}) {
	defer func() {
		if r := recover(); r != nil {
			outcome = r
			if re, ok := r.(runtime.Error); ok && !dumped && os.Getenv("SYMGO_DEBUG") != "" {
				dumped = true
				fmt.Fprintf(os.Stderr, "ENGINE BUG: %v\n%s\n", re, debug.Stack())
			}
		}
	}()
	for _, in := range m.inits {
		call(m.i, nil, token.NoPos, in, nil)
	}
	call(m.i, nil, token.NoPos, fn, nil)
	m.i.x.flush()
	return nil
}

// cond decides a (possibly symbolic) boolean.
func (i *interpreter) cond(v value) bool {
	switch c := v.(type) {
	case bool:
		return c
	case *sym:
		switch c.e {
		case "true":
			return true
		case "false":
			return false
		}
		if pat := os.Getenv("SYMGO_WATCH"); pat != "" && strings.Contains(c.e, pat) {
			fmt.Fprintf(os.Stderr, "WATCH %s\n  at %s\n", c.e, i.curStack)
		}
		return i.x.decide([]string{c.e, symNot(c).e}) == 0
	}
	panic(fmt.Sprintf("cond: %T", v))
}

// concretize enumerates the feasible values of a symbolic integer (forking).
func (i *interpreter) concretize(s *sym) int64 {
	i.x.flush()
	if s.k != symBV {
		panic(unsupported("concretize non-integer"))
	}
	excl := []string{}
	for n := 0; n < 64; n++ {
		var val uint64
		if i.x.pos < len(i.x.trail) {
			val = i.x.trail[i.x.pos].payload // replay: the value chosen when this decision was first made
		} else {
			i.x.S.push()
			for _, e := range excl {
				i.x.S.assert(e)
			}
			r := i.x.S.check()
			if r == "sat" {
				val = parseBV(i.x.S.values([]string{s.e}))
			}
			i.x.S.pop()
			if r != "sat" {
				panic(pathInfeasible{})
			}
		}
		eq := "(= " + s.e + " " + bvConst(val, s.w) + ")"
		alts := []string{eq}
		rest := "(not " + eq + ")"
		all := append(append([]string{}, excl...), rest)
		alts = append(alts, "(and "+strings.Join(all, " ")+")")
		i.x.nextPayload = val
		if i.x.decide(alts) == 0 {
			_, signed := kindWidth(s.gk)
			if signed {
				switch s.w {
				case 8:
					return int64(int8(val))
				case 16:
					return int64(int16(val))
				case 32:
					return int64(int32(val))
				}
			}
			return int64(val)
		}
		excl = append(excl, rest)
	}
	panic(unsupported("concretize: more than 64 values"))
}

var sextRe = regexp.MustCompile(`^\(\(_ sign_extend \d+\) (.*)\)$`)

var bvRe = regexp.MustCompile(`#x([0-9a-fA-F]+)|#b([01]+)`)

func parseBV(txt string) uint64 {
	// take the last literal in the text (the value follows the term)
	ms := bvRe.FindAllStringSubmatch(txt, -1)
	if len(ms) == 0 {
		panic("parseBV: " + txt)
	}
	m := ms[len(ms)-1]
	if m[1] != "" {
		v, _ := strconv.ParseUint(m[1], 16, 64)
		return v
	}
	v, _ := strconv.ParseUint(m[2], 2, 64)
	return v
}

// ---------------------------------------------------------------- intrinsics

func init() {
	for k, v := range map[string]externalFn{
		ndPath + ".Byte":    ndByte,
		ndPath + ".Bool":    ndBool,
		ndPath + ".Choice":  ndChoice,
		ndPath + ".StringN": ndStringN,
		ndPath + ".Assume":  ndAssume,
		ndPath + ".Assert":  ndAssert,
		ndPath + ".Reach":   ndReach,
		ndPath + ".Int64":   ndInt64,
		ndPath + ".Int16": func(fr *frame, args []value) value {
			n := fr.i.x.freshVar(args[0].(string), "(_ BitVec 16)")
			return &sym{e: n, k: symBV, w: 16, gk: types.Int16}
		},
		ndPath + ".Itoa":    ndItoa,
		ndPath + ".IntBits": func(fr *frame, args []value) value {
			bits := args[1].(int)
			n := fr.i.x.freshVar(args[0].(string), fmt.Sprintf("(_ BitVec %d)", bits))
			return &sym{e: fmt.Sprintf("((_ sign_extend %d) %s)", 64-bits, n), k: symBV, w: 64, gk: types.Int64}
		},
		ndPath + ".ParseInt": func(fr *frame, args []value) value {
			switch t := args[0].(type) {
			case numstr:
				o := t.n
				if o.w < 64 {
					o = symConv(types.Int64, o).(*sym)
				}
				return tuple{o, true}
			case string:
				n, err := strconv.ParseInt(t, 10, 64)
				return tuple{n, err == nil}
			case fpstr:
				panic(unsupported("nd.ParseInt of the text of an inexact symbolic double"))
			}
			panic(unsupported("nd.ParseInt of symbolic text"))
		},
		ndPath + ".Decimal": func(fr *frame, args []value) value {
			scale := args[1].(int)
			switch n := args[0].(type) {
			case int64:
				return formatDecimal(n, scale)
			case *sym:
				if scale == 0 {
					return numstr{n: n}
				}
				if scale < 0 || scale > 22 {
					panic(unsupported("nd.Decimal with a scale outside 0..22"))
				}
				if n.w < 64 {
					n = symConv(types.Int64, n).(*sym)
				}
				// the model of ParseFloat needs an integer a double represents exactly: a sign-extended
				// term of at most 53 bits (nd.Int16, nd.IntBits(.., <= 53), ...)
				mm := sextWRe.FindStringSubmatch(n.e)
				if mm == nil {
					panic(unsupported("nd.Decimal of an integer term whose width is not evident (at most 53 bits are modelled)"))
				}
				if ext, _ := strconv.Atoi(mm[1]); 64-ext > 53 {
					panic(unsupported("nd.Decimal of an integer of more than 53 bits"))
				}
				return decstr{n: n, scale: scale}
			}
			panic("nd.Decimal")
		},
		ndPath + ".Param": func(fr *frame, args []value) value {
			if v, ok := fr.i.params[args[0].(string)]; ok {
				return v
			}
			return args[1].(int)
		},
		ndPath + ".Known": func(fr *frame, args []value) value { return fr.i.known[args[0].(string)] },
		ndPath + ".Int": func(fr *frame, args []value) value {
			lo, hi := args[1].(int), args[2].(int)
			n := fr.i.x.freshVar(args[0].(string), "(_ BitVec 64)")
			fr.i.x.decide([]string{fmt.Sprintf("(and (bvsle %s %s) (bvsle %s %s))", bvConst(uint64(int64(lo)), 64), n, n, bvConst(uint64(int64(hi)), 64))})
			return &sym{e: n, k: symBV, w: 64, gk: types.Int}
		},
		ndPath + ".Bytes": func(fr *frame, args []value) value {
			name, n := args[0].(string), args[1].(int)
			s := make([]value, n)
			for k := range s {
				v := fr.i.x.freshVar(fmt.Sprintf("%s.%d", name, k), "(_ BitVec 8)")
				s[k] = &sym{e: v, k: symBV, w: 8, gk: types.Uint8}
			}
			return s
		},
		"fmt.Sprintf":       extSprintf,
		"fmt.Errorf":        extErrorf,
		"fmt.Printf":        func(fr *frame, args []value) value { return tuple{0, iface{}} },
		"errors.Is":         extErrorsIs,
		"errors.As":         extErrorsAs,
		"reflect.DeepEqual": extDeepEqual,
		"strings.ToUpper":   extToUpper,
		"strings.Join":      extJoin,
		"strings.Split":     extSplit,
		"strings.Contains":  extContains,
		"strings.TrimSpace": extTrimSpace,
		"strings.Fields":    extFields,
		"strings.HasPrefix": extHasPrefix,
		"strconv.ParseFloat": extParseFloat,
		"strconv.FormatFloat": extFormatFloat,
		"(*bytes.Buffer).WriteString": extBufWriteString,
		"(*bytes.Buffer).String":      extBufString,
		"sort.Strings":      extSortStrings,
		"sort.Slice":        extSortSlice,
		"regexp.MustCompile": func(fr *frame, args []value) value {
			var obj value = nativeObj{regexp.MustCompile(args[0].(string))}
			return &obj
		},
		"(*regexp.Regexp).MatchString": func(fr *frame, args []value) value {
			re := (*args[0].(*value)).(nativeObj).v.(*regexp.Regexp)
			s, ok := args[1].(string)
			if !ok {
				return symRegexMatch(re.String(), toSstr(args[1]))
			}
			return re.MatchString(s)
		},
		"(*sync.Mutex).Lock": func(fr *frame, args []value) value {
			mu := args[0].(*value)
			if fr.i.sched != nil {
				fr.i.sched.lock(mu)
				fr.i.locks.held[mu] = true
				return nil
			}
			if fr.i.locks.held[mu] {
				panic("fatal error: all goroutines are asleep - deadlock! (re-entrant Lock)")
			}
			fr.i.locks.held[mu] = true
			return nil
		},
		"(*sync.Mutex).Unlock": func(fr *frame, args []value) value {
			mu := args[0].(*value)
			if fr.i.sched != nil {
				delete(fr.i.locks.held, mu)
				fr.i.sched.unlock(mu)
				return nil
			}
			if !fr.i.locks.held[mu] {
				panic("fatal error: sync: unlock of unlocked mutex")
			}
			delete(fr.i.locks.held, mu)
			return nil
		},
		"(*sync.RWMutex).RLock": func(fr *frame, args []value) value {
			mu := args[0].(*value)
			if fr.i.sched != nil {
				fr.i.sched.current().wantsRead = true
				fr.i.sched.rlock(mu)
				fr.i.sched.current().wantsRead = false
			}
			fr.i.locks.heldR[mu]++
			return nil
		},
		"(*sync.RWMutex).RUnlock": func(fr *frame, args []value) value {
			mu := args[0].(*value)
			if fr.i.locks.heldR[mu] <= 0 {
				panic("fatal error: sync: RUnlock of unlocked RWMutex")
			}
			fr.i.locks.heldR[mu]--
			if fr.i.sched != nil {
				fr.i.sched.runlock(mu)
			}
			return nil
		},
		ndPath + ".Par": ndPar,
		ndPath + ".Track": func(fr *frame, args []value) value {
			fr.i.locks.track(args[0].(iface).v, 0)
			return nil
		},
		ndPath + ".Section": func(fr *frame, args []value) value {
			// run the closure once, recording every access to a tracked cell with the locks held
			fr.i.noSample = true
			fr.i.locks.cur = args[0].(string)
			defer func() { fr.i.locks.cur = "" }()
			call(fr.i, fr, token.NoPos, args[1], nil)
			return nil
		},
		ndPath + ".SectionSetup": func(fr *frame, args []value) value {
			// the preparation step runs outside any recorded section
			fr.i.noSample = true
			call(fr.i, fr, token.NoPos, args[1], nil)
			fr.i.locks.cur = args[0].(string)
			defer func() { fr.i.locks.cur = "" }()
			call(fr.i, fr, token.NoPos, args[2], nil)
			return nil
		},
		ndPath + ".Begin": func(fr *frame, args []value) value { fr.i.locks.cur = args[0].(string); return nil },
		ndPath + ".End":   func(fr *frame, args []value) value { fr.i.locks.cur = ""; return nil },
		ndPath + ".NoRace": func(fr *frame, args []value) value {
			cs := fr.i.locks.conflicts(args[0].(string), args[1].(string))
			if len(cs) > 0 {
				id := args[2].(string)
				if !seenCrash["race:"+id] {
					seenCrash["race:"+id] = true
					_, model := fr.i.x.checkSat("true")
					violations = append(violations, Violation{Kind: "race", Msg: id + ": " + strings.Join(cs, " ; "), Model: model, Trail: trailChoices(fr.i.x), Values: replayValues(fr.i.x, model)})
				}
			}
			return nil
		},
	} {
		externals[k] = v
	}
	externals["(*sync.RWMutex).Lock"] = externals["(*sync.Mutex).Lock"]
	externals["(*sync.RWMutex).Unlock"] = externals["(*sync.Mutex).Unlock"]
	delete(externals, "strconv.Atoi")
	externals["strconv.Atoi"] = extAtoi
}

func ndByte(fr *frame, args []value) value {
	n := fr.i.x.freshVar(args[0].(string), "(_ BitVec 8)")
	return &sym{e: n, k: symBV, w: 8, gk: types.Uint8}
}

func ndBool(fr *frame, args []value) value {
	n := fr.i.x.freshVar(args[0].(string), "Bool")
	return mkBool(n)
}

func ndChoice(fr *frame, args []value) value {
	n := args[1].(int)
	alts := make([]string, n)
	for k := range alts {
		alts[k] = "true"
	}
	c := fr.i.x.decide(alts)
	fr.i.x.ndVars = append(fr.i.x.ndVars, ndVar{name: args[0].(string), term: strconv.Itoa(c), sort: "choice"})
	return c
}

func ndStringN(fr *frame, args []value) value {
	name := args[0].(string)
	n := args[1].(int)
	s := make(sstr, n)
	for k := range s {
		v := fr.i.x.freshVar(fmt.Sprintf("%s.%d", name, k), "(_ BitVec 8)")
		s[k] = &sym{e: v, k: symBV, w: 8, gk: types.Uint8}
	}
	return normStr(s)
}

func ndAssume(fr *frame, args []value) value {
	switch c := args[0].(type) {
	case bool:
		if !c {
			panic(pathInfeasible{})
		}
	case *sym:
		fr.i.x.decide([]string{c.e})
	}
	return nil
}

func ndAssert(fr *frame, args []value) value {
	id := args[1].(string)
	fr.i.traceSum += traceHash("A:", id)
	fr.i.traceN++
	switch c := args[0].(type) {
	case bool:
		fr.i.obligations++
		if c {
			fr.i.discharged++
		}
		if !c && !seenCrash["assert:"+id] {
			seenCrash["assert:"+id] = true
			_, model := fr.i.x.checkSat("true")
			violations = append(violations, Violation{Kind: "assert", Msg: id, Par: fr.i.x.usedPar, Model: model, Trail: trailChoices(fr.i.x), Values: replayValues(fr.i.x, model)})
		}
	case *sym:
		fr.i.nontrivial = true
		if fr.i.x.pos < len(fr.i.x.trail) {
			// re-execution of a prefix: this very query (same path condition, same assertion) was
			// decided when the prefix was first explored
			fr.i.x.decide([]string{c.e})
			return nil
		}
		fr.i.x.pending = append(fr.i.x.pending, pendingAssert{c, id})
	}
	return nil
}

// decideAsserts is the explorer's flush callback.
func (i *interpreter) decideAsserts(p []pendingAssert) {
	x := i.x
	conj := mkBool("true")
	for _, a := range p {
		conj = symAnd(conj, a.cond)
	}
	if len(p) > 1 {
		i.obligations += len(p)
		if sat, _ := x.checkSat(symNot(conj).e); !sat {
			i.discharged += len(p)
			for _, a := range p {
				x.assumeUnchecked(a.cond.e)
			}
			return
		}
		i.obligations -= len(p)
	}
	for _, a := range p {
		i.obligations++
		sat, model := x.checkSat(symNot(a.cond).e)
		if !sat {
			i.discharged++
			x.assumeUnchecked(a.cond.e)
			continue
		}
		if !seenCrash["assert:"+a.id] {
			seenCrash["assert:"+a.id] = true
			violations = append(violations, Violation{Kind: "assert", Msg: a.id, Par: x.usedPar, Model: model, Trail: trailChoices(x), Values: replayValues(x, model)})
		}
		// continue under the assumption that it held
		x.decide([]string{a.cond.e})
	}
}

func ndReach(fr *frame, args []value) value {
	fr.i.traceSum += traceHash("R:", args[0].(string))
	fr.i.traceN++
	reached[args[0].(string)]++
	return nil
}

// fmtValue renders v roughly like %v.
func fmtValue(fr *frame, v value) value {
	switch x := v.(type) {
	case string, sstr:
		return x
	case numstr:
		return materialise(x)
	case iface:
		if x.t == nil {
			return "<nil>"
		}
		// error / Stringer
		for _, name := range []string{"Error", "String"} {
			if f := findMethod(fr.i, x.t, name); f != nil {
				return call(fr.i, fr, token.NoPos, f, []value{x.v})
			}
		}
		return fmtValue(fr, x.v)
	case *sym:
		return "<sym>"
	case []value:
		// %v of a []byte: "[b0 b1 ...]" in decimal (this is how core renders B-typed key values)
		allBytes := len(x) > 0
		for _, e := range x {
			switch b := e.(type) {
			case uint8:
			case *sym:
				if b.w != 8 {
					allBytes = false
				}
			default:
				allBytes = false
			}
		}
		if allBytes && !allConcrete(v) {
			out := sstr{uint8('[')}
			for k, e := range x {
				if k > 0 {
					out = append(out, uint8(' '))
				}
				switch b := e.(type) {
				case uint8:
					out = append(out, toSstr(strconv.Itoa(int(b)))...)
				case *sym:
					out = append(out, materialise(numstr{n: &sym{e: "((_ zero_extend 8) " + b.e + ")", k: symBV, w: 16, gk: types.Uint16}})...)
				}
			}
			return append(out, uint8(']'))
		}
	}
	return toString(v)
}

func findMethod(i *interpreter, t types.Type, name string) *ssa.Function {
	ms := i.prog.MethodSets.MethodSet(t)
	for k := 0; k < ms.Len(); k++ {
		sel := ms.At(k)
		if sel.Obj().Name() == name {
			sig := sel.Type().(*types.Signature)
			if sig.Params().Len() == 0 && sig.Results().Len() == 1 {
				return i.prog.MethodValue(sel)
			}
		}
	}
	return nil
}

func sprintf(fr *frame, format string, a []value) (value, value) {
	out := sstr{}
	var wrapped value
	ai := 0
	for p := 0; p < len(format); p++ {
		c := format[p]
		if c != '%' || p+1 >= len(format) {
			out = append(out, c)
			continue
		}
		p++
		// flags, width and precision
		specStart := p
		for p < len(format) && strings.IndexByte("#0-+ ", format[p]) >= 0 {
			p++
		}
		for p < len(format) && (format[p] >= '0' && format[p] <= '9' || format[p] == '.') {
			p++
		}
		if p >= len(format) {
			out = append(out, toSstr("%!(NOVERB)")...)
			break
		}
		spec := format[specStart:p]
		verb := format[p]
		if verb == '%' {
			out = append(out, byte('%'))
			continue
		}
		if ai >= len(a) {
			out = append(out, toSstr("%!"+string(verb)+"(MISSING)")...)
			continue
		}
		arg := a[ai]
		ai++
		if verb == 'w' {
			wrapped = arg
		}
		if verb == 'T' {
			name := "<nil>"
			if ifc, ok := arg.(iface); ok && ifc.t != nil {
				name = types.TypeString(ifc.t, func(p *types.Package) string { return p.Name() })
			}
			out = append(out, toSstr(name)...)
			continue
		}
		if r, ok := fmtScalar(fr, spec, verb, arg); ok {
			out = append(out, toSstr(r)...)
			continue
		}
		if r, ok := fmtSpec(spec, verb, arg); ok {
			out = append(out, toSstr(r)...)
			continue
		}
		s := fmtValue(fr, arg)
		if verb == 'q' {
			out = append(out, byte('"'))
			out = append(out, toSstr(s)...)
			out = append(out, byte('"'))
		} else {
			out = append(out, toSstr(s)...)
		}
	}
	return normStr(out), wrapped
}

// fmtScalar: a concrete scalar operand goes through the real fmt with the verb and flags as written, unless
// the verb is one that prints through the operand's Error or String method.
func fmtScalar(fr *frame, spec string, verb byte, arg value) (value, bool) {
	if ifc, ok := arg.(iface); ok {
		if ifc.t == nil {
			return nil, false
		}
		if strings.IndexByte("vsqw", verb) >= 0 && (findMethod(fr.i, ifc.t, "Error") != nil || findMethod(fr.i, ifc.t, "String") != nil) {
			return nil, false
		}
		arg = ifc.v
	}
	if verb == 'w' {
		verb = 'v'
	}
	switch x := arg.(type) {
	case int, int8, int16, int32, int64, uint, uint8, uint16, uint32, uint64, uintptr, float32, float64, string, bool:
		return fmt.Sprintf("%"+spec+string(verb), x), true
	}
	return nil, false
}

// fmtSpec handles verbs with flags/width on scalars: concrete values go through the real fmt, a symbolic
// integer under %0Nx (N = its number of nibbles) becomes its N hex digits, under %d its decimal text.
func fmtSpec(spec string, verb byte, arg value) (value, bool) {
	if ifc, ok := arg.(iface); ok {
		arg = ifc.v
	}
	if sy, ok := arg.(*sym); ok && sy.k == symBV {
		switch {
		case verb == 'x' && spec == fmt.Sprintf("0%d", sy.w/4):
			out := make(sstr, 0, sy.w/4)
			for k := sy.w/4 - 1; k >= 0; k-- {
				nib := fmt.Sprintf("((_ zero_extend 4) ((_ extract %d %d) %s))", 4*k+3, 4*k, sy.e)
				out = append(out, &sym{e: fmt.Sprintf("(ite (bvult %s #x0a) (bvadd %s #x30) (bvadd %s #x57))", nib, nib, nib), k: symBV, w: 8, gk: types.Uint8})
			}
			return out, true
		case verb == 'd' && spec == "":
			return numstr{n: sy}, true
		}
		panic(unsupported(fmt.Sprintf("formatting a symbolic integer with %%%s%c", spec, verb)))
	}
	if spec == "" {
		return nil, false
	}
	switch x := arg.(type) {
	case int, int8, int16, int32, int64, uint, uint8, uint16, uint32, uint64, float64, string, bool:
		return fmt.Sprintf("%"+spec+string(verb), x), true
	}
	return nil, false
}

func extSprintf(fr *frame, args []value) value {
	f, ok := args[0].(string)
	if !ok {
		return args[0] // symbolic format text: taken literally (messages are never asserted on)
	}
	s, _ := sprintf(fr, f, args[1].([]value))
	return s
}

// extErrorf builds a *fmt.wrapError (or *errors.errorString) value.
func extErrorf(fr *frame, args []value) value {
	s, wrapped := sprintf(fr, args[0].(string), args[1].([]value))
	if wrapped != nil {
		fmtPkg := fr.i.prog.ImportedPackage("fmt")
		wt := fmtPkg.Type("wrapError").Object().Type()
		var obj value = structure{s, wrapped}
		return iface{t: types.NewPointer(wt), v: &obj}
	}
	errPkg := fr.i.prog.ImportedPackage("errors")
	et := errPkg.Type("errorString").Object().Type()
	var obj value = structure{s}
	return iface{t: types.NewPointer(et), v: &obj}
}

func extErrorsIs(fr *frame, args []value) value {
	return errorsIs(fr, args[0].(iface), args[1].(iface), 0)
}

// errMethod finds a method of the dynamic type of err by name and shape.
func errMethod(fr *frame, err iface, name string, params, results int) *ssa.Function {
	ms := fr.i.prog.MethodSets.MethodSet(err.t)
	for k := 0; k < ms.Len(); k++ {
		if ms.At(k).Obj().Name() == name {
			sig := ms.At(k).Type().(*types.Signature)
			if sig.Params().Len() == params && sig.Results().Len() == results {
				return fr.i.prog.MethodValue(ms.At(k))
			}
		}
	}
	return nil
}

// unwrapAll returns what err wraps: the result of Unwrap() error, or the elements of Unwrap() []error.
func unwrapAll(fr *frame, err iface) []iface {
	f := errMethod(fr, err, "Unwrap", 0, 1)
	if f == nil {
		return nil
	}
	switch r := call(fr.i, fr, token.NoPos, f, []value{err.v}).(type) {
	case iface:
		return []iface{r}
	case []value:
		out := []iface{}
		for _, e := range r {
			if ei, ok := e.(iface); ok {
				out = append(out, ei)
			}
		}
		return out
	}
	return nil
}

// errorsIs follows errors.Is: equality when comparable, an Is(error) bool method, then the wrapped errors
// depth-first.
func errorsIs(fr *frame, err, target iface, depth int) bool {
	if err.t == nil || target.t == nil {
		return err.t == nil && target.t == nil
	}
	if depth > 20 {
		return false
	}
	if sameType(err.t, target.t) && types.Comparable(err.t) {
		if b, ok := equalsV(err.t, err.v, target.v).(bool); ok {
			if b {
				return true
			}
		} else if equals(err.t, err.v, target.v) {
			return true
		}
	}
	if f := errMethod(fr, err, "Is", 1, 1); f != nil {
		if r := call(fr.i, fr, token.NoPos, f, []value{err.v, target}); truth(fr, r) {
			return true
		}
	}
	for _, w := range unwrapAll(fr, err) {
		if w.t != nil && errorsIs(fr, w, target, depth+1) {
			return true
		}
	}
	return false
}

func truth(fr *frame, v value) bool {
	switch b := v.(type) {
	case bool:
		return b
	case *sym:
		return fr.i.cond(b)
	}
	return false
}

func extToUpper(fr *frame, args []value) value {
	switch s := args[0].(type) {
	case string:
		return strings.ToUpper(s)
	case sstr:
		out := make(sstr, len(s))
		for k, c := range s {
			switch b := c.(type) {
			case uint8:
				out[k] = strings.ToUpper(string(rune(b)))[0]
			case *sym:
				// ASCII only: bytes >= 0x80 make ToUpper multi-byte aware; treated as unchanged
				out[k] = &sym{e: fmt.Sprintf("(ite (and (bvuge %s #x61) (bvule %s #x7a)) (bvsub %s #x20) %s)", b.e, b.e, b.e, b.e), k: symBV, w: 8, gk: types.Uint8}
			}
		}
		return out
	}
	panic("ToUpper")
}

func extNative1(f func(string) string) externalFn {
	return func(fr *frame, args []value) value {
		s, ok := args[0].(string)
		if !ok {
			panic(unsupported("symbolic argument to native string function"))
		}
		return f(s)
	}
}

func extJoin(fr *frame, args []value) value {
	elems := args[0].([]value)
	sep := toSstr(args[1])
	out := sstr{}
	for k, e := range elems {
		if k > 0 {
			out = append(out, sep...)
		}
		out = append(out, toSstr(e)...)
	}
	return normStr(out)
}

func isSpaceCond(c value) *sym {
	acc := mkBool("false")
	for _, sp := range []byte{' ', '\t', '\n', '\v', '\f', '\r'} {
		acc = symOr(acc, byteEq(c, uint8(sp)))
	}
	return acc
}

// extTrimSpace: ASCII white space only (bytes >= 0x80 are treated as non-space; harnesses that need
// TrimSpace on symbolic text restrict the alphabet to ASCII).
func extTrimSpace(fr *frame, args []value) value {
	if s, ok := args[0].(string); ok {
		return strings.TrimSpace(s)
	}
	s := toSstr(args[0])
	lo, hi := 0, len(s)
	for lo < hi && fr.i.cond(simplifyBool(isSpaceCond(s[lo]))) {
		lo++
	}
	for hi > lo && fr.i.cond(simplifyBool(isSpaceCond(s[hi-1]))) {
		hi--
	}
	return normStr(append(sstr{}, s[lo:hi]...))
}

func extSplit(fr *frame, args []value) value {
	if sep0, ok := args[1].(string); ok && sep0 == "" {
		// explode into single bytes (ASCII alphabet assumed for symbolic text)
		s := toSstr(args[0])
		res := make([]value, len(s))
		for k, c := range s {
			if sy, isS := c.(*sym); isS {
				if !fr.i.cond(mkBool("(bvult " + sy.e + " #x80)")) {
					panic(unsupported("strings.Split(s, \"\") on non-ASCII symbolic byte"))
				}
			}
			res[k] = normStr(sstr{c})
		}
		return res
	}
	sep, ok := args[1].(string)
	if !ok || len(sep) != 1 {
		if s, ok2 := args[0].(string); ok2 && ok {
			parts := strings.Split(s, sep)
			r := make([]value, len(parts))
			for k, p := range parts {
				r[k] = p
			}
			return r
		}
		panic(unsupported("strings.Split with symbolic/multi-byte separator"))
	}
	s := toSstr(args[0])
	var res []value
	curp := sstr{}
	for _, c := range s {
		if fr.i.cond(simplifyBool(byteEq(c, sep[0]))) {
			res = append(res, normStr(curp))
			curp = sstr{}
		} else {
			curp = append(curp, c)
		}
	}
	res = append(res, normStr(curp))
	return res
}

func extContains(fr *frame, args []value) value {
	s, sub := toSstr(args[0]), toSstr(args[1])
	acc := mkBool("false")
	for off := 0; off+len(sub) <= len(s); off++ {
		acc = symOr(acc, boolVal(strEq(sstr(s[off:off+len(sub)]), sub)))
	}
	return simplifyBool(acc)
}

func extHasPrefix(fr *frame, args []value) value {
	s, p := toSstr(args[0]), toSstr(args[1])
	if len(p) > len(s) {
		return false
	}
	return strEq(sstr(s[:len(p)]), p)
}

func extParseFloat(fr *frame, args []value) value {
	if ns, ok := args[0].(numstr); ok {
		e := ns.n.e
		// to_fp of a sign-extended narrow term equals to_fp of the narrow term (cheaper to bit-blast)
		if mm := sextRe.FindStringSubmatch(e); mm != nil {
			e = mm[1]
		}
		f := withOrigin(&sym{e: "((_ to_fp 11 53) RNE " + e + ")", k: symFP}, ns.n)
		if ns.ow > 0 && ns.ow <= 54 && f.origin == nil {
			f.origin, f.ow = ns.n, ns.ow
		}
		return tuple{f, iface{}}
	}
	if fs, ok := args[0].(fpstr); ok {
		return tuple{fs.f, iface{}}
	}
	if ds, ok := args[0].(decstr); ok {
		e := ds.n.e
		if mm := sextRe.FindStringSubmatch(e); mm != nil {
			e = mm[1]
		}
		pow := 1.0
		for k := 0; k < ds.scale; k++ {
			pow *= 10
		}
		return tuple{&sym{e: "(fp.div RNE ((_ to_fp 11 53) RNE " + e + ") " + fpConst(pow) + ")", k: symFP}, iface{}}
	}
	s, ok := args[0].(string)
	if !ok {
		panic(unsupported("strconv.ParseFloat of symbolic text"))
	}
	f, err := strconv.ParseFloat(s, args[1].(int))
	if err != nil {
		errPkg := fr.i.prog.ImportedPackage("errors")
		et := errPkg.Type("errorString").Object().Type()
		var obj value = structure{err.Error()}
		return tuple{f, iface{t: types.NewPointer(et), v: &obj}}
	}
	return tuple{f, iface{}}
}

var sextWRe = regexp.MustCompile(`^\(\(_ sign_extend (\d+)\) `)

// exactOrigin: if converting the signed integer term n to a double is exact for every value (at most 53
// significant bits) it returns n widened to 64 bits and that number of bits, else nil.
func exactOrigin(n *sym) (*sym, int) {
	if n.k != symBV {
		return nil, 0
	}
	if _, signed := kindWidth(n.gk); !signed {
		return nil, 0
	}
	w := n.w
	if mm := sextWRe.FindStringSubmatch(n.e); mm != nil {
		ext, _ := strconv.Atoi(mm[1])
		w -= ext
	}
	if w > 54 { // a 54-bit two's complement integer has magnitude <= 2^53: exactly representable
		return nil, 0
	}
	o := n
	if o.w < 64 {
		o = symConv(types.Int64, o).(*sym)
	}
	return o, w
}

func withOrigin(f *sym, n *sym) *sym {
	f.origin, f.ow = exactOrigin(n)
	return f
}

func extFormatFloat(fr *frame, args []value) value {
	f, ok := args[0].(*sym)
	if !ok {
		return strconv.FormatFloat(args[0].(float64), args[1].(byte), args[2].(int), args[3].(int))
	}
	if fm, ok1 := args[1].(uint8); ok1 && fm == 'g' && args[3] == 64 && f.origin != nil && f.ow <= 53 {
		if p, okp := args[2].(int); okp && p >= 1 && p <= 17 {
			// %.{p}g of an exactly converted integer: the integer rounded (half to even) to p significant
			// digits. The text is kept as "the numeral of that integer": parsing it back yields it.
			return numstr{n: roundSignificant(f.origin, p), ow: f.ow + 1} // rounding up may need one more bit
		}
	}
	if fm, ok1 := args[1].(uint8); !ok1 || fm != 'f' || args[2] != -1 || args[3] != 64 {
		panic(unsupported("strconv.FormatFloat of a symbolic double in a format other than ('f', -1, 64) or ('g', p, 64) of an integer"))
	}
	if f.origin != nil {
		return numstr{n: f.origin, ow: f.ow} // the text of an exactly converted integer is that integer's decimal text
	}
	return fpstr{f}
}

// roundSignificant: the 64-bit integer term n (|n| < 2^53 < 10^16) rounded half-to-even to p significant
// decimal digits, as an integer term.
func roundSignificant(n *sym, p int) *sym {
	c := func(v uint64) string { return bvConst(v, 64) }
	a := "(ite (bvslt " + n.e + " " + c(0) + ") (bvneg " + n.e + ") " + n.e + ")"
	pow := func(k int) uint64 {
		r := uint64(1)
		for ; k > 0; k-- {
			r *= 10
		}
		return r
	}
	val := a // fewer than p+1 digits: exact
	// build from the largest magnitude down: digits = p+d, d = 16-p .. 1
	expr := ""
	for d := 16 - p; d >= 1; d-- {
		m := pow(d)
		q := "(bvudiv " + a + " " + c(m) + ")"
		r := "(bvurem " + a + " " + c(m) + ")"
		half := c(m / 2)
		up := "(or (bvugt " + r + " " + half + ") (and (= " + r + " " + half + ") (= ((_ extract 0 0) " + q + ") #b1)))"
		rounded := "(bvmul (ite " + up + " (bvadd " + q + " " + c(1) + ") " + q + ") " + c(m) + ")"
		lower := c(pow(p + d - 1))
		if expr == "" {
			expr = rounded // the top region needs no upper bound (|n| < 10^16)
			expr = "(ite (bvuge " + a + " " + lower + ") " + rounded + " @REST@)"
		} else {
			expr = strings.Replace(expr, "@REST@", "(ite (bvuge "+a+" "+lower+") "+rounded+" @REST@)", 1)
		}
	}
	if expr == "" {
		expr = val
	} else {
		expr = strings.Replace(expr, "@REST@", val, 1)
	}
	e := "(ite (bvslt " + n.e + " " + c(0) + ") (bvneg " + expr + ") " + expr + ")"
	return &sym{e: e, k: symBV, w: 64, gk: types.Int64}
}

func extAtoi(fr *frame, args []value) value {
	mkErr := func(msg string) value {
		errPkg := fr.i.prog.ImportedPackage("errors")
		et := errPkg.Type("errorString").Object().Type()
		var obj value = structure{msg}
		return iface{t: types.NewPointer(et), v: &obj}
	}
	switch s := args[0].(type) {
	case string:
		n, err := strconv.Atoi(s)
		if err != nil {
			return tuple{0, mkErr(err.Error())}
		}
		return tuple{n, iface{}}
	case numstr:
		if s.n.w == 64 {
			return tuple{&sym{e: s.n.e, k: symBV, w: 64, gk: types.Int, origin: s.n.origin, ow: s.n.ow}, iface{}}
		}
		panic(unsupported("Atoi of the text of a narrow symbolic integer"))
	case sstr:
		// decide digit-ness bytewise (sign handled only for all-digit strings)
		if len(s) == 0 {
			return tuple{0, mkErr("invalid syntax")}
		}
		val := 0
		allConcrete := true
		for k, c := range s {
			isDigit := symAnd(boolVal(notVal(simplifyBool(byteLt(c, uint8('0'))))), boolVal(notVal(simplifyBool(byteLt(uint8('9'), c)))))
			if k == 0 {
				isSign := symOr(byteEq(c, uint8('+')), byteEq(c, uint8('-')))
				if fr.i.cond(simplifyBool(isSign)) {
					panic(unsupported("Atoi of signed symbolic text"))
				}
			}
			if !fr.i.cond(simplifyBool(isDigit)) {
				return tuple{0, mkErr("invalid syntax")}
			}
			if sy, ok := c.(*sym); ok {
				allConcrete = false
				d := fr.i.concretize(&sym{e: "(bvsub " + sy.e + " #x30)", k: symBV, w: 8, gk: types.Uint8})
				val = val*10 + int(d)
			} else {
				val = val*10 + int(c.(uint8)-'0')
			}
		}
		_ = allConcrete
		return tuple{val, iface{}}
	}
	panic("Atoi")
}

func extBufWriteString(fr *frame, args []value) value {
	p := args[0].(*value)
	old, ok := fr.i.bufs[p]
	if !ok {
		old = ""
	}
	fr.i.bufs[p] = strBinop(token.ADD, old, args[1])
	return tuple{0, iface{}}
}

func extBufString(fr *frame, args []value) value {
	p := args[0].(*value)
	if v, ok := fr.i.bufs[p]; ok {
		return v
	}
	return ""
}

func extSortStrings(fr *frame, args []value) value {
	a := args[0].([]value)
	for i := 1; i < len(a); i++ {
		for j := i; j > 0; j-- {
			if fr.i.cond(strLt(a[j], a[j-1])) {
				a[j], a[j-1] = a[j-1], a[j]
			} else {
				break
			}
		}
	}
	return nil
}

var _ = bytes.MinRead

func extDeepEqual(fr *frame, args []value) value {
	x, y := args[0].(iface), args[1].(iface)
	if x.t == nil || y.t == nil {
		return x.t == nil && y.t == nil
	}
	if !sameType(x.t, y.t) {
		return false
	}
	return simplifyBool(deepEq(fr.i, x.t, x.v, y.v, 0))
}

func deepEq(i *interpreter, t types.Type, x, y value, depth int) *sym {
	if depth > 20 {
		panic(unsupported("DeepEqual: too deep / cyclic"))
	}
	switch u := t.Underlying().(type) {
	case *types.Pointer:
		px, py := x.(*value), y.(*value)
		if px == py {
			return mkBool("true")
		}
		if px == nil || py == nil {
			return mkBool("false")
		}
		return deepEq(i, u.Elem(), load(u.Elem(), px), load(u.Elem(), py), depth+1)
	case *types.Struct:
		sx, sy := x.(structure), y.(structure)
		acc := mkBool("true")
		for k := range sx {
			acc = symAnd(acc, deepEq(i, u.Field(k).Type(), sx[k], sy[k], depth+1))
		}
		return acc
	case *types.Slice:
		ax, ay := x.([]value), y.([]value)
		if (ax == nil) != (ay == nil) || len(ax) != len(ay) {
			return mkBool("false")
		}
		acc := mkBool("true")
		for k := range ax {
			acc = symAnd(acc, deepEq(i, u.Elem(), ax[k], ay[k], depth+1))
		}
		return acc
	case *types.Array:
		ax, ay := x.(array), y.(array)
		acc := mkBool("true")
		for k := range ax {
			acc = symAnd(acc, deepEq(i, u.Elem(), ax[k], ay[k], depth+1))
		}
		return acc
	case *types.Map:
		mx, my := x.(*smap), y.(*smap)
		if (mx == nil) != (my == nil) || mx.length() != my.length() {
			return mkBool("false")
		}
		if mx == nil {
			return mkBool("true")
		}
		acc := mkBool("true")
		for k, key := range mx.keys {
			// each key of x must be present in y with a deeply equal value
			any := mkBool("false")
			for k2, key2 := range my.keys {
				e := boolVal(equalsV(u.Key(), key, key2))
				if e.e == "false" {
					continue
				}
				any = symOr(any, symAnd(e, deepEq(i, u.Elem(), mx.vals[k], my.vals[k2], depth+1)))
			}
			acc = symAnd(acc, any)
		}
		return acc
	case *types.Interface:
		ix, iy := x.(iface), y.(iface)
		if ix.t == nil || iy.t == nil {
			if ix.t == nil && iy.t == nil {
				return mkBool("true")
			}
			return mkBool("false")
		}
		if !sameType(ix.t, iy.t) {
			return mkBool("false")
		}
		return deepEq(i, ix.t, ix.v, iy.v, depth+1)
	case *types.Signature:
		panic(unsupported("DeepEqual on func"))
	}
	return boolVal(equalsV(t, x, y))
}

func extSortSlice(fr *frame, args []value) value {
	a := args[0].(iface).v.([]value)
	less := args[1]
	lt := func(i, j int) bool {
		return fr.i.cond(call(fr.i, fr, token.NoPos, less, []value{i, j}))
	}
	stable := fr.i.sortStable
	for i := 1; i < len(a); i++ {
		for j := i; j > 0; j-- {
			if lt(j, j-1) {
				a[j], a[j-1] = a[j-1], a[j]
				continue
			}
			// sort.Slice is not stable: elements that compare equal may end up in either order (pdqsort does
			// reorder them from 13 elements on). Both orders are explored; sort.SliceStable keeps the order.
			if !stable && !lt(j-1, j) && fr.i.x.decide([]string{"true", "true"}) == 1 {
				a[j], a[j-1] = a[j-1], a[j]
				continue
			}
			break
		}
	}
	return nil
}

func extSortSliceStable(fr *frame, args []value) value {
	old := fr.i.sortStable
	fr.i.sortStable = true
	defer func() { fr.i.sortStable = old }()
	return extSortSlice(fr, args)
}

type nativeObj struct{ v interface{} }

// numstr is the decimal text of a symbolic integer (numeral model); its digits are never materialised.
type numstr struct {
	n  *sym
	ow int // known number of significant bits of n (0 = derive from the term)
}

func ndInt64(fr *frame, args []value) value {
	n := fr.i.x.freshVar(args[0].(string), "(_ BitVec 64)")
	return &sym{e: n, k: symBV, w: 64, gk: types.Int64}
}

func ndItoa(fr *frame, args []value) value {
	switch n := args[0].(type) {
	case int64:
		return strconv.FormatInt(n, 10)
	case *sym:
		return numstr{n: n}
	}
	panic("Itoa")
}

func extErrorsAs(fr *frame, args []value) value {
	err := args[0].(iface)
	tgt := args[1].(iface)
	if tgt.t == nil {
		panic("errors: target cannot be nil")
	}
	pt, ok := tgt.t.Underlying().(*types.Pointer)
	if !ok {
		panic("errors: target must be a non-nil pointer")
	}
	return errorsAs(fr, err, tgt, pt.Elem(), tgt.v.(*value), 0)
}

// errorsAs follows errors.As: assignability, an As(any) bool method, then the wrapped errors depth-first.
func errorsAs(fr *frame, err, tgt iface, T types.Type, dst *value, depth int) bool {
	if err.t == nil || depth > 20 {
		return false
	}
	if it, isI := T.Underlying().(*types.Interface); isI {
		if types.Implements(err.t, it) {
			*dst = err
			return true
		}
	} else if types.Identical(err.t, T) {
		*dst = err.v
		return true
	}
	if f := errMethod(fr, err, "As", 1, 1); f != nil {
		if r := call(fr.i, fr, token.NoPos, f, []value{err.v, tgt}); truth(fr, r) {
			return true
		}
	}
	for _, w := range unwrapAll(fr, err) {
		if errorsAs(fr, w, tgt, T, dst, depth+1) {
			return true
		}
	}
	return false
}

// extFields: ASCII white space only (see extTrimSpace).
func extFields(fr *frame, args []value) value {
	if s, ok := args[0].(string); ok {
		parts := strings.Fields(s)
		r := make([]value, len(parts))
		for k, p := range parts {
			r[k] = p
		}
		return r
	}
	s := toSstr(args[0])
	res := []value{}
	curp := sstr{}
	for _, c := range s {
		if fr.i.cond(simplifyBool(isSpaceCond(c))) {
			if len(curp) > 0 {
				res = append(res, normStr(curp))
				curp = sstr{}
			}
		} else {
			curp = append(curp, c)
		}
	}
	if len(curp) > 0 {
		res = append(res, normStr(curp))
	}
	return res
}

// formatDecimal renders n x 10^-scale: sign, integer digits, and (scale > 0) a point and exactly scale digits.
func formatDecimal(n int64, scale int) string {
	neg := n < 0
	u := uint64(n)
	if neg {
		u = uint64(-n)
	}
	d := strconv.FormatUint(u, 10)
	if scale > 0 {
		for len(d) <= scale {
			d = "0" + d
		}
		d = d[:len(d)-scale] + "." + d[len(d)-scale:]
	}
	if neg {
		d = "-" + d
	}
	return d
}

package interp

import (
	"bufio"
	"os"
	"fmt"
	"io"
	"os/exec"
	"strings"
	"time"
)

// solver drives one incremental SMT solver process over a pipe.
type solver struct {
	oneshot bool       // decide every query with a fresh solver process
	decls   []string   // all declarations so far
	stack   [][]string // assertions per push level
	lastModel string
	cmd     *exec.Cmd
	in      io.WriteCloser
	w       *bufio.Writer
	out     *bufio.Reader
	depth   int
	decl    map[string]bool
	facts   map[string]int // assertions currently on the stack (text -> multiplicity)
	fpN     int            // how many of them contain a floating-point term
	Saved   int            // feasibility questions answered from the facts without a query
	Queries int
	Time    time.Duration
	log     io.Writer
}

func newSolver(log io.Writer) *solver {
	// SYMGO_SOLVER selects the incremental back end: z3 (4.8.12, default), z3-new (5.1.0) or cvc5 (1.0).
	// The second and third exist for the cross-solver diff of tools/cross_solver.sh: a whole check is
	// repeated under another solver and paths / obligations / verdicts must be identical.
	which := os.Getenv("SYMGO_SOLVER")
	// every query has a time limit (SYMGO_QUERY_MS, default 300 s): a query the solver cannot decide in
	// time is answered "unknown", which ends the path as unsupported and makes the run inconclusive -
	// instead of blocking the worker until the whole check is killed from outside
	ms := os.Getenv("SYMGO_QUERY_MS")
	if ms == "" {
		ms = "300000"
	}
	cmd := exec.Command("z3", "-in", "-smt2", "-t:"+ms)
	switch which {
	case "z3-new":
		cmd = exec.Command("z3-new", "-in", "-smt2", "-t:"+ms)
	case "cvc5":
		cmd = exec.Command("cvc5", "--incremental", "--produce-models", "--lang", "smt2", "--tlimit-per="+ms)
	}
	in, _ := cmd.StdinPipe()
	outp, _ := cmd.StdoutPipe()
	if err := cmd.Start(); err != nil {
		panic(err)
	}
	s := &solver{cmd: cmd, in: in, w: bufio.NewWriterSize(in, 1<<16), out: bufio.NewReaderSize(outp, 1<<16), decl: map[string]bool{}, facts: map[string]int{}, log: log, stack: [][]string{nil}}
	s.oneshot = os.Getenv("SYMGO_ONESHOT") != ""
	if which == "cvc5" {
		s.send("(set-logic ALL)")
		s.send("(set-option :global-declarations true)")
	} else {
		s.send("(set-option :global-decls true)")
	}
	s.send("(set-option :produce-models true)")
	return s
}

func (s *solver) send(line string) {
	if s.log != nil {
		fmt.Fprintln(s.log, line)
	}
	s.w.WriteString(line)
	s.w.WriteByte('\n')
}

func (s *solver) declare(name, sort string) {
	if s.decl[name] {
		return
	}
	s.decl[name] = true
	s.decls = append(s.decls, "(declare-const "+name+" "+sort+")")
	s.send("(declare-const " + name + " " + sort + ")")
}

func (s *solver) push() { s.depth++; s.stack = append(s.stack, nil); s.send("(push 1)") }
func (s *solver) pop() {
	s.depth--
	for _, e := range s.stack[len(s.stack)-1] {
		if s.facts[e]--; s.facts[e] <= 0 {
			delete(s.facts, e)
		}
		if isFPTerm(e) {
			s.fpN--
		}
	}
	s.stack = s.stack[:len(s.stack)-1]
	s.send("(pop 1)")
}
func (s *solver) assert(e string) {
	s.send("(assert " + e + ")")
	s.addFact(e)
}

// addFact records e, and the conjuncts of a top-level conjunction, as facts of the current level.
func isFPTerm(e string) bool { return strings.Contains(e, "(fp.") || strings.Contains(e, "to_fp") }

func (s *solver) addFact(e string) {
	s.stack[len(s.stack)-1] = append(s.stack[len(s.stack)-1], e)
	s.facts[e]++
	if isFPTerm(e) {
		s.fpN++
	}
	if strings.HasPrefix(e, "(and ") {
		for _, a := range sexprArgs(e) {
			s.addFact(a)
		}
	}
}

// sexprArgs splits "(op a1 a2 ...)" into its arguments.
func sexprArgs(e string) []string {
	var out []string
	depth, start := 0, -1
	body := e[1 : len(e)-1]
	// skip the operator
	i := strings.IndexByte(body, ' ')
	if i < 0 {
		return nil
	}
	for j := i; j < len(body); j++ {
		switch c := body[j]; {
		case c == '(':
			if depth == 0 && start < 0 {
				start = j
			}
			depth++
		case c == ')':
			depth--
			if depth == 0 && start >= 0 {
				out = append(out, body[start:j+1])
				start = -1
			}
		case c == ' ':
			if depth == 0 && start >= 0 {
				out = append(out, body[start:j])
				start = -1
			}
		default:
			if depth == 0 && start < 0 {
				start = j
			}
		}
	}
	if start >= 0 {
		out = append(out, body[start:])
	}
	return out
}

func swapEq(e string) string {
	if strings.HasPrefix(e, "(= ") {
		if a := sexprArgs(e); len(a) == 2 {
			return "(= " + a[1] + " " + a[0] + ")"
		}
	}
	return ""
}

// implied answers "is e consistent with the stack?" syntactically when e or its negation is literally
// one of the assertions on the stack (the stack itself is known to be satisfiable).
func (s *solver) implied(e string) (known, feasible bool) {
	has := func(f string) bool {
		if s.facts[f] > 0 {
			return true
		}
		if strings.HasPrefix(f, "(not (= ") {
			if sw := swapEq(f[5 : len(f)-1]); sw != "" && s.facts["(not "+sw+")"] > 0 {
				return true
			}
		} else if sw := swapEq(f); sw != "" && s.facts[sw] > 0 {
			return true
		}
		return false
	}
	if has(e) {
		return true, true
	}
	neg := "(not " + e + ")"
	if strings.HasPrefix(e, "(not ") {
		neg = e[5 : len(e)-1]
	}
	if has(neg) {
		return true, false
	}
	return false, false
}

func (s *solver) script(extra string) string {
	var sb strings.Builder
	if os.Getenv("SYMGO_SOLVER") == "cvc5" {
		sb.WriteString("(set-logic ALL)\n")
	}
	sb.WriteString("(set-option :produce-models true)\n")
	for _, d := range s.decls {
		sb.WriteString(d + "\n")
	}
	for _, lvl := range s.stack {
		for _, a := range lvl {
			sb.WriteString("(assert " + a + ")\n")
		}
	}
	sb.WriteString("(check-sat)\n" + extra)
	return sb.String()
}

func (s *solver) runOneShot(extra string) (string, string) {
	f, _ := os.CreateTemp("", "q*.smt2")
	f.WriteString(s.script(extra))
	f.Close()
	defer os.Remove(f.Name())
	bin := os.Getenv("SYMGO_ONESHOT")
	if alt := os.Getenv("SYMGO_SOLVER"); alt != "" {
		bin = alt
	}
	ms := os.Getenv("SYMGO_QUERY_MS")
	if ms == "" {
		ms = "300000"
	}
	args := []string{"-t:" + ms, f.Name()}
	if bin == "cvc5" {
		args = []string{"--produce-models", "--tlimit=" + ms, f.Name()}
	}
	out, _ := exec.Command(bin, args...).CombinedOutput()
	txt := string(out)
	first := strings.TrimSpace(strings.SplitN(txt, "\n", 2)[0])
	rest := ""
	if i := strings.IndexByte(txt, '\n'); i >= 0 {
		rest = txt[i+1:]
	}
	return first, rest
}

func (s *solver) popTo(d int) {
	for s.depth > d {
		s.pop()
	}
}

// check returns "sat", "unsat" or "unknown"/error text.
func (s *solver) check() string {
	t0 := time.Now()
	if s.oneshot {
		r, _ := s.runOneShot("")
		s.Queries++
		s.Time += time.Since(t0)
		return r
	}
	if s.fpOnStack() {
		// a path condition with floating-point terms: z3's incremental core is some 40 times slower on those than
		// a fresh process given the whole script
		bin := os.Getenv("SYMGO_ONESHOT")
		if bin == "" {
			os.Setenv("SYMGO_ONESHOT", "z3")
		}
		r, _ := s.runOneShot("")
		if bin == "" {
			os.Unsetenv("SYMGO_ONESHOT")
		}
		s.Queries++
		s.Time += time.Since(t0)
		return r
	}
	s.send("(check-sat)")
	s.w.Flush()
	line, err := s.out.ReadString('\n')
	s.Queries++
	s.Time += time.Since(t0)
	if err != nil {
		return "error: " + err.Error()
	}
	return strings.TrimSpace(line)
}

// model returns the raw text of (get-value (names...)).
func (s *solver) values(names []string) string {
	if len(names) == 0 {
		return "()"
	}
	if s.oneshot || s.fpOnStack() {
		bin := os.Getenv("SYMGO_ONESHOT")
		if bin == "" {
			os.Setenv("SYMGO_ONESHOT", "z3")
			defer os.Unsetenv("SYMGO_ONESHOT")
		}
		_, m := s.runOneShot("(get-value (" + strings.Join(names, " ") + "))\n")
		return m
	}
	s.send("(get-value (" + strings.Join(names, " ") + "))")
	s.w.Flush()
	var sb strings.Builder
	depth := 0
	started := false
	for {
		line, err := s.out.ReadString('\n')
		if err != nil {
			return sb.String()
		}
		sb.WriteString(line)
		for _, c := range line {
			if c == '(' {
				depth++
				started = true
			} else if c == ')' {
				depth--
			}
		}
		if started && depth <= 0 {
			return sb.String()
		}
	}
}

func (s *solver) close() {
	s.send("(exit)")
	s.w.Flush()
	s.in.Close()
	s.cmd.Wait()
}

// fpOnStack: does an assertion of the current path condition contain a floating-point term?
func (s *solver) fpOnStack() bool { return s.fpN > 0 }

package interp

// A symbolic matcher for the small class of regular expressions the code under test applies to
// symbolic text: fully anchored sequences of atoms, an atom being a literal character or a character class
// [..] (ranges and single characters, no negation), optionally followed by '+' or '*'. The two patterns in
// the clients (^#[A-Za-z0-9_]+$ and ^:[A-Za-z0-9_]+$) are of this form. Anything else on a symbolic subject
// aborts the path as unsupported.

import (
	"fmt"
)

type reAtom struct {
	ranges [][2]byte
	rep    byte // 0, '+', '*'
}

func parseSimpleRegex(src string) ([]reAtom, bool) {
	if len(src) < 2 || src[0] != '^' || src[len(src)-1] != '$' {
		return nil, false
	}
	body := src[1 : len(src)-1]
	var atoms []reAtom
	for i := 0; i < len(body); {
		var a reAtom
		switch c := body[i]; {
		case c == '[':
			j := i + 1
			if j < len(body) && body[j] == '^' {
				return nil, false
			}
			for j < len(body) && body[j] != ']' {
				lo := body[j]
				if lo == '\\' {
					return nil, false
				}
				if j+2 < len(body) && body[j+1] == '-' && body[j+2] != ']' {
					a.ranges = append(a.ranges, [2]byte{lo, body[j+2]})
					j += 3
				} else {
					a.ranges = append(a.ranges, [2]byte{lo, lo})
					j++
				}
			}
			if j >= len(body) {
				return nil, false
			}
			i = j + 1
		case c == '\\' || c == '(' || c == ')' || c == '|' || c == '.' || c == '?' || c == '{' || c == '+' || c == '*' || c == '^' || c == '$':
			return nil, false
		default:
			a.ranges = [][2]byte{{c, c}}
			i++
		}
		if i < len(body) && (body[i] == '+' || body[i] == '*') {
			a.rep = body[i]
			i++
		}
		atoms = append(atoms, a)
	}
	return atoms, true
}

func (a reAtom) accepts(c value) *sym {
	acc := mkBool("false")
	for _, r := range a.ranges {
		if r[0] == r[1] {
			acc = symOr(acc, byteEq(c, r[0]))
		} else {
			acc = symOr(acc, symAnd(boolVal(notVal(simplifyBool(byteLt(c, r[0])))), boolVal(notVal(simplifyBool(byteLt(r[1], c))))))
		}
	}
	return acc
}

// symRegexMatch builds the condition "s matches the anchored pattern".
func symRegexMatch(src string, s sstr) value {
	atoms, ok := parseSimpleRegex(src)
	if !ok {
		panic(unsupported("regexp match on symbolic text with pattern " + src))
	}
	memo := map[string]*sym{}
	var m func(ai, si int, inRep bool) *sym
	m = func(ai, si int, inRep bool) *sym {
		key := fmt.Sprintf("%d.%d.%v", ai, si, inRep)
		if r, ok := memo[key]; ok {
			return r
		}
		var r *sym
		switch {
		case ai == len(atoms):
			if si == len(s) {
				r = mkBool("true")
			} else {
				r = mkBool("false")
			}
		default:
			a := atoms[ai]
			// options: (1) consume one character with this atom, (2) skip the atom (allowed for '*', and for
			// '+' once it has consumed at least one character)
			r = mkBool("false")
			if si < len(s) {
				acc := a.accepts(s[si])
				if a.rep == 0 {
					r = symOr(r, symAnd(acc, m(ai+1, si+1, false)))
				} else {
					r = symOr(r, symAnd(acc, m(ai, si+1, true)))
				}
			}
			if a.rep == '*' || (a.rep == '+' && inRep) {
				r = symOr(r, m(ai+1, si, false))
			}
		}
		memo[key] = r
		return r
	}
	return simplifyBool(m(0, 0, false))
}

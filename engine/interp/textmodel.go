package interp

import (
	"fmt"
	"go/token"
	"go/types"
	"math"
	"strconv"
	"strings"
	"unicode/utf8"
)

// strings.Builder and bytes.Buffer are modelled as one text accumulator keyed by the receiver's address;
// the text may contain symbolic bytes. Only the methods below exist: any other method of the two types
// aborts the path as unsupported (the real method bodies would not see the modelled contents).
func init() {
	contents := func(fr *frame, p value) value {
		if v, ok := fr.i.bufs[p.(*value)]; ok {
			return v
		}
		return ""
	}
	appendText := func(fr *frame, p value, s value) {
		fr.i.bufs[p.(*value)] = strBinop(token.ADD, contents(fr, p), s)
	}
	textLen := func(v value) int {
		switch s := v.(type) {
		case string:
			return len(s)
		case sstr:
			return len(s)
		}
		return len(toSstr(v))
	}
	for _, T := range []string{"(*strings.Builder)", "(*bytes.Buffer)"} {
		T := T
		externals[T+".WriteString"] = func(fr *frame, a []value) value {
			appendText(fr, a[0], a[1])
			return tuple{textLenValue(a[1]), iface{}}
		}
		externals[T+".WriteByte"] = func(fr *frame, a []value) value {
			appendText(fr, a[0], normStr(sstr{a[1]}))
			return iface{}
		}
		externals[T+".WriteRune"] = func(fr *frame, a []value) value {
			if rs, isSym := a[1].(*sym); isSym {
				enc := encodeSymbolicRune(rs)
				appendText(fr, a[0], normStr(enc))
				return tuple{len(enc), iface{}}
			}
			r, ok := a[1].(int32)
			if !ok {
				panic(unsupported(T + ".WriteRune of a symbolic rune"))
			}
			s := string(r)
			appendText(fr, a[0], s)
			return tuple{len(s), iface{}}
		}
		externals[T+".Write"] = func(fr *frame, a []value) value {
			b, _ := a[1].([]value)
			appendText(fr, a[0], normStr(append(sstr{}, b...)))
			return tuple{len(b), iface{}}
		}
		externals[T+".String"] = func(fr *frame, a []value) value {
			if a[0].(*value) == nil {
				return "<nil>"
			}
			return contents(fr, a[0])
		}
		externals[T+".Len"] = func(fr *frame, a []value) value { return textLen(contents(fr, a[0])) }
		externals[T+".Cap"] = func(fr *frame, a []value) value { return textLen(contents(fr, a[0])) }
		externals[T+".Grow"] = func(fr *frame, a []value) value {
			if n, ok := a[1].(int); ok && n < 0 {
				panic(T + ".Grow: negative count")
			}
			return nil
		}
		externals[T+".Reset"] = func(fr *frame, a []value) value {
			delete(fr.i.bufs, a[0].(*value))
			return nil
		}
	}
	externals["(*bytes.Buffer).Bytes"] = func(fr *frame, a []value) value { return bytesOut(toSstr(contents(fr, a[0]))) }
	externals["(*bytes.Buffer).Truncate"] = func(fr *frame, a []value) value {
		n, ok := a[1].(int)
		s := toSstr(contents(fr, a[0]))
		if !ok || n < 0 || n > len(s) {
			panic("bytes.Buffer: truncation out of range")
		}
		fr.i.bufs[a[0].(*value)] = normStr(append(sstr{}, s[:n]...))
		return nil
	}
	externals["bytes.NewBufferString"] = func(fr *frame, a []value) value {
		bufT := fr.i.prog.ImportedPackage("bytes").Type("Buffer").Type()
		cell := zero(bufT)
		fr.i.bufs[&cell] = a[0]
		return &cell
	}
	externals["bytes.NewBuffer"] = func(fr *frame, a []value) value {
		bufT := fr.i.prog.ImportedPackage("bytes").Type("Buffer").Type()
		cell := zero(bufT)
		b, _ := a[0].([]value)
		fr.i.bufs[&cell] = normStr(append(sstr{}, b...))
		return &cell
	}

	// fmt.Fprint* into a modelled accumulator; fmt.Sprint / Sprintln
	writerTarget := func(fr *frame, w value) *value {
		ifc, ok := w.(iface)
		if ok && ifc.t != nil {
			switch types.TypeString(ifc.t, nil) {
			case "*strings.Builder", "*bytes.Buffer":
				return ifc.v.(*value)
			}
		}
		panic(unsupported("fmt.Fprint* to a writer other than *strings.Builder / *bytes.Buffer"))
	}
	externals["fmt.Fprintf"] = func(fr *frame, a []value) value {
		p := writerTarget(fr, a[0])
		s, _ := sprintf(fr, a[1].(string), a[2].([]value))
		appendText(fr, p, s)
		return tuple{textLenValue(s), iface{}}
	}
	sprint := func(fr *frame, args []value, ln bool) value {
		out := sstr{}
		prevString := true
		for k, arg := range args {
			isString := false
			if ifc, ok := arg.(iface); ok && ifc.t != nil {
				if b, ok := ifc.t.Underlying().(*types.Basic); ok && b.Info()&types.IsString != 0 {
					isString = true
				}
			}
			if k > 0 && (ln || (!isString && !prevString)) {
				out = append(out, uint8(' '))
			}
			prevString = isString
			if r, ok := fmtScalar(fr, "", 'v', arg); ok {
				out = append(out, toSstr(r)...)
			} else {
				out = append(out, toSstr(fmtValue(fr, arg))...)
			}
		}
		if ln {
			out = append(out, uint8('\n'))
		}
		return normStr(out)
	}
	externals["fmt.Sprint"] = func(fr *frame, a []value) value { return sprint(fr, a[0].([]value), false) }
	externals["fmt.Sprintln"] = func(fr *frame, a []value) value { return sprint(fr, a[0].([]value), true) }
	externals["fmt.Fprint"] = func(fr *frame, a []value) value {
		s := sprint(fr, a[1].([]value), false)
		appendText(fr, writerTarget(fr, a[0]), s)
		return tuple{textLenValue(s), iface{}}
	}
	externals["fmt.Fprintln"] = func(fr *frame, a []value) value {
		s := sprint(fr, a[1].([]value), true)
		appendText(fr, writerTarget(fr, a[0]), s)
		return tuple{textLenValue(s), iface{}}
	}
	externals["fmt.Println"] = func(fr *frame, a []value) value { return tuple{0, iface{}} }
	externals["fmt.Print"] = func(fr *frame, a []value) value { return tuple{0, iface{}} }

	externals["internal/stringslite.Clone"] = func(fr *frame, a []value) value { return a[0] }
	externals["strings.Clone"] = func(fr *frame, a []value) value { return a[0] }
	externals["sort.SliceStable"] = extSortSliceStable
	parseInt := func(unsigned bool) externalFn {
		return func(fr *frame, a []value) value {
			s, ok1 := a[0].(string)
			base, ok2 := a[1].(int)
			bits, ok3 := a[2].(int)
			if ns, isNum := a[0].(numstr); isNum && ok2 && ok3 && (base == 10 || base == 0) && bits == 64 && ns.n.w == 64 && !unsigned {
				return tuple{&sym{e: ns.n.e, k: symBV, w: 64, gk: types.Int64, origin: ns.n.origin, ow: ns.n.ow}, iface{}}
			}
			if !ok1 || !ok2 || !ok3 {
				panic(unsupported("strconv.ParseInt/ParseUint on symbolic arguments"))
			}
			if unsigned {
				n, err := strconv.ParseUint(s, base, bits)
				if err != nil {
					return tuple{n, mkErrorString(fr, err.Error())}
				}
				return tuple{n, iface{}}
			}
			n, err := strconv.ParseInt(s, base, bits)
			if err != nil {
				return tuple{n, mkErrorString(fr, err.Error())}
			}
			return tuple{n, iface{}}
		}
	}
	externals["strconv.ParseInt"] = parseInt(false)
	externals["strconv.ParseUint"] = parseInt(true)
	externals["internal/abi.NoEscape"] = func(fr *frame, a []value) value { return a[0] }
	externals["internal/abi.Escape"] = func(fr *frame, a []value) value { return a[0] }

	// maps.clone (runtime linkname): a shallow copy of the map
	externals["maps.clone"] = func(fr *frame, a []value) value {
		ifc := a[0].(iface)
		m, _ := ifc.v.(*smap)
		if m == nil {
			return ifc
		}
		mt := ifc.t.Underlying().(*types.Map)
		c := newSmap(m.kt)
		for k := range m.keys {
			key, val := m.keys[k], m.vals[k]
			if isAggregate(mt.Key()) {
				key = load(mt.Key(), &key)
			}
			if isAggregate(mt.Elem()) {
				val = load(mt.Elem(), &val)
			}
			c.insert(fr.i, key, val)
		}
		return iface{t: ifc.t, v: c}
	}

	// math functions that have assembly stubs on some architectures: the pure-Go path of package math
	// calls arch* only when haveArch* is true, which is a constant false in the loaded (amd64) sources
	// for most of them; Max/Min/Floor-family/Sqrt are called unconditionally through arch hooks.
	f1 := func(name string, f func(float64) float64) {
		if _, exists := externals["math."+name]; exists {
			return
		}
		externals["math."+name] = func(fr *frame, a []value) value {
			x, ok := a[0].(float64)
			if !ok {
				panic(unsupported("math." + name + " of a symbolic number"))
			}
			return f(x)
		}
	}
	f2 := func(name string, f func(float64, float64) float64) {
		if _, exists := externals["math."+name]; exists {
			return
		}
		externals["math."+name] = func(fr *frame, a []value) value {
			x, ok1 := a[0].(float64)
			y, ok2 := a[1].(float64)
			if !ok1 || !ok2 {
				panic(unsupported("math." + name + " of a symbolic number"))
			}
			return f(x, y)
		}
	}
	for name, f := range map[string]func(float64) float64{"Sqrt": math.Sqrt, "Exp": math.Exp, "Log": math.Log, "Log2": math.Log2, "Log10": math.Log10,
		"Round": math.Round, "RoundToEven": math.RoundToEven, "Cbrt": math.Cbrt, "Exp2": math.Exp2} {
		f1(name, f)
	}
	for name, f := range map[string]func(float64, float64) float64{"Max": math.Max, "Min": math.Min, "Pow": math.Pow, "Mod": math.Mod, "Hypot": math.Hypot, "Remainder": math.Remainder} {
		f2(name, f)
	}
	_ = strings.Builder{}
	_ = utf8.RuneError
	_ = fmt.Sprint
}

func textLenValue(v value) value {
	switch s := v.(type) {
	case string:
		return len(s)
	case sstr:
		return len(s)
	}
	return len(toSstr(v))
}

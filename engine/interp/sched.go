package interp

// Two-thread symbolic scheduler for the C11 H11b spike: nd.Par(f, g) runs two closures as engine
// threads; a thread may be pre-empted at every mutex operation and at every access to a tracked
// (shared) cell; which thread runs next is a decision of the explorer, so all interleavings within
// the pre-emption bound are explored.

import (
	"go/token"
)

type thread struct {
	id       int
	resume   chan bool // true = run, false = abort
	finished bool
	waitsFor *value // mutex this thread is blocked on
	wantsRead bool
	panicVal interface{}
}

type sched struct {
	i           *interpreter
	threads     []*thread
	back        chan int // a thread hands control back
	running     int
	switches    int
	maxSwitches int
	owner       map[*value]int // mutex -> owning thread
	readers     map[*value]int // RWMutex -> number of read locks held
	writers     map[*value]int // RWMutex -> number of threads blocked in Lock (a pending writer holds back new readers)
}

type abortThread struct{}

func (s *sched) current() *thread { return s.threads[s.running] }

// yield is called by the running thread at a scheduling point.
func (s *sched) yield() {
	t := s.current()
	s.back <- t.id
	if !<-t.resume {
		panic(abortThread{})
	}
}

func (s *sched) lock(mu *value) {
	s.yield()
	t := s.current()
	pending := false
	for {
		if _, held := s.owner[mu]; !held && s.readers[mu] == 0 {
			s.owner[mu] = t.id
			t.waitsFor = nil
			if pending {
				s.writers[mu]--
			}
			return
		}
		if o, held := s.owner[mu]; held && o == t.id {
			panic("fatal error: all goroutines are asleep - deadlock! (re-entrant Lock)")
		}
		if !pending {
			// sync.RWMutex: a blocked Lock excludes new readers until it has been served
			pending = true
			s.writers[mu]++
		}
		t.waitsFor = mu
		s.yield()
	}
}

// rlock / runlock: the read side of a RWMutex
func (s *sched) rlock(mu *value) {
	s.yield()
	t := s.current()
	for {
		if _, held := s.owner[mu]; !held && s.writers[mu] == 0 {
			s.readers[mu]++
			t.waitsFor = nil
			return
		}
		t.waitsFor = mu
		s.yield()
	}
}

func (s *sched) runlock(mu *value) {
	s.readers[mu]--
	s.yield()
}

func (s *sched) unlock(mu *value) {
	delete(s.owner, mu)
	s.yield()
}

func (s *sched) runnable() []int {
	var r []int
	for _, t := range s.threads {
		if t.finished {
			continue
		}
		if t.waitsFor != nil {
			if _, held := s.owner[t.waitsFor]; held {
				continue
			}
			if s.readers[t.waitsFor] > 0 && !t.wantsRead {
				continue
			}
			if t.wantsRead && s.writers[t.waitsFor] > 0 {
				continue
			}
		}
		r = append(r, t.id)
	}
	return r
}

func ndPar(fr *frame, args []value) value {
	i := fr.i
	i.x.usedPar = true
	maxSw := 2
	if v, ok := i.params["preemptions"]; ok {
		maxSw = v
	}
	s := &sched{i: i, back: make(chan int), maxSwitches: maxSw, owner: map[*value]int{}, readers: map[*value]int{}, writers: map[*value]int{}}
	i.sched = s
	defer func() { i.sched = nil }()
	for k := 0; k < 2; k++ {
		t := &thread{id: k, resume: make(chan bool)}
		s.threads = append(s.threads, t)
		fn := args[k]
		go func() {
			defer func() {
				if r := recover(); r != nil {
					if _, ok := r.(abortThread); ok {
						return
					}
					t.panicVal = r
				}
				t.finished = true
				s.back <- t.id
			}()
			if !<-t.resume {
				panic(abortThread{})
			}
			call(i, fr, token.NoPos, fn, nil)
		}()
	}
	abort := func() {
		for _, t := range s.threads {
			if !t.finished {
				t.finished = true
				t.resume <- false
			}
		}
	}
	last := -1
	for {
		run := s.runnable()
		if len(run) == 0 {
			allDone := true
			for _, t := range s.threads {
				if !t.finished {
					allDone = false
				}
			}
			if allDone {
				return nil
			}
			abort()
			panic("fatal error: all goroutines are asleep - deadlock!")
		}
		next := run[0]
		if len(run) > 1 {
			lastRunnable := false
			for _, r := range run {
				if r == last {
					lastRunnable = true
				}
			}
			if lastRunnable && s.switches >= s.maxSwitches {
				next = last // pre-emption budget used up: keep running the same thread
			} else {
				alts := make([]string, len(run))
				for k := range alts {
					alts[k] = "true"
				}
				var c int
				func() {
					defer func() {
						if r := recover(); r != nil {
							abort()
							panic(r)
						}
					}()
					c = i.x.decide(alts)
				}()
				next = run[c]
				if lastRunnable && next != last {
					s.switches++
				}
			}
		}
		last = next
		s.running = next
		s.threads[next].resume <- true
		<-s.back
		if t := s.threads[next]; t.panicVal != nil {
			abort()
			panic(t.panicVal)
		}
	}
}

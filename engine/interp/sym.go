package interp

// Symbolic scalars and byte-sequence strings.

import (
	"fmt"
	"go/token"
	"go/types"
	"math"
	"strings"
)

type symKind int

const (
	symBool symKind = iota
	symBV
	symFP
)

// sym is a symbolic scalar: an SMT-LIB expression with a sort.
type sym struct {
	e  string
	k  symKind
	w  int             // BV width
	gk types.BasicKind // Go kind of an integer term (signedness)
	// origin: for a floating-point term obtained by an exact conversion of a signed integer term of at
	// most 53 significant bits, that integer term (so formatting and converting back need no FP reasoning)
	origin *sym
	ow     int // number of significant bits (sign included) of origin
}

// fpstr is the text strconv.FormatFloat(f, 'f', -1, 64) of a symbolic double: opaque, except that parsing
// it yields f again (shortest-round-trip property of the formatter, trusted) and that two such texts are
// equal iff the doubles are bit-identical.
type fpstr struct{ f *sym }

// decstr is the decimal text of n x 10^-scale for a symbolic integer n and scale >= 1 (nd.Decimal: sign,
// integer digits, '.', exactly scale fraction digits). Opaque like fpstr, except that
//   - strconv.ParseFloat of it is fp.div RNE (to_fp n) (to_fp 10^scale): both operands are exact doubles
//     (|n| < 2^53, scale <= 22), IEEE division rounds the exact quotient correctly, and ParseFloat returns the
//     correctly rounded double of the decimal it reads - the same number;
//   - two such texts are equal iff scale and integer are equal (the rendering is canonical).
type decstr struct {
	n     *sym
	scale int
}

func (s *sym) String() string { return s.e }

// sstr is a string (or the contents of a symbolic string) of concrete length
// whose bytes are uint8 or *sym(BV8).
type sstr []value

func isSym(v value) bool {
	switch v.(type) {
	case *sym, sstr, numstr, fpstr, decstr:
		return true
	}
	return false
}

func mkBool(e string) *sym { return &sym{e: e, k: symBool} }

func bvConst(v uint64, w int) string {
	switch w {
	case 8:
		return fmt.Sprintf("#x%02x", v&0xff)
	case 16:
		return fmt.Sprintf("#x%04x", v&0xffff)
	case 32:
		return fmt.Sprintf("#x%08x", v&0xffffffff)
	case 64:
		return fmt.Sprintf("#x%016x", v)
	}
	return fmt.Sprintf("(_ bv%d %d)", v, w)
}

func kindWidth(k types.BasicKind) (w int, signed bool) {
	switch k {
	case types.Int, types.Int64:
		return 64, true
	case types.Int8:
		return 8, true
	case types.Int16:
		return 16, true
	case types.Int32:
		return 32, true
	case types.Uint, types.Uint64, types.Uintptr:
		return 64, false
	case types.Uint8:
		return 8, false
	case types.Uint16:
		return 16, false
	case types.Uint32:
		return 32, false
	}
	return 0, false
}

func goKindOf(v value) types.BasicKind {
	switch v.(type) {
	case int:
		return types.Int
	case int8:
		return types.Int8
	case int16:
		return types.Int16
	case int32:
		return types.Int32
	case int64:
		return types.Int64
	case uint:
		return types.Uint
	case uint8:
		return types.Uint8
	case uint16:
		return types.Uint16
	case uint32:
		return types.Uint32
	case uint64:
		return types.Uint64
	case uintptr:
		return types.Uintptr
	}
	return types.Invalid
}

// lift turns a concrete scalar into a sym of the same sort as like.
func lift(v value, like *sym) *sym {
	switch x := v.(type) {
	case *sym:
		return x
	case bool:
		if x {
			return mkBool("true")
		}
		return mkBool("false")
	case float64:
		r := &sym{e: fpConst(x), k: symFP}
		if x == math.Trunc(x) && math.Abs(x) < 1<<52 && !(x == 0 && math.Signbit(x)) {
			n := int64(x)
			r.origin = &sym{e: bvConst(uint64(n), 64), k: symBV, w: 64, gk: types.Int64}
			r.ow = bitsNeeded(n)
		}
		return r
	}
	if gk := goKindOf(v); gk != types.Invalid {
		w, _ := kindWidth(gk)
		return &sym{e: bvConst(uint64(asInt64(v)), w), k: symBV, w: w, gk: gk}
	}
	panic(fmt.Sprintf("lift: cannot lift %T", v))
}

func bitsNeeded(n int64) int {
	if n < 0 {
		n = ^n
	}
	w := 1
	for n > 0 {
		w++
		n >>= 1
	}
	return w
}

func fpConst(f float64) string {
	b := math.Float64bits(f)
	return fmt.Sprintf("(fp #b%01b #b%011b #x%013x)", b>>63, (b>>52)&0x7ff, b&((1<<52)-1))
}

func symNot(s *sym) *sym {
	if strings.HasPrefix(s.e, "(not ") {
		return mkBool(s.e[5 : len(s.e)-1])
	}
	if s.e == "true" {
		return mkBool("false")
	}
	if s.e == "false" {
		return mkBool("true")
	}
	return mkBool("(not " + s.e + ")")
}

func symAnd(a, b *sym) *sym {
	if a.e == "true" {
		return b
	}
	if b.e == "true" {
		return a
	}
	if a.e == "false" || b.e == "false" {
		return mkBool("false")
	}
	return mkBool("(and " + a.e + " " + b.e + ")")
}

func symOr(a, b *sym) *sym {
	if a.e == "false" {
		return b
	}
	if b.e == "false" {
		return a
	}
	if a.e == "true" || b.e == "true" {
		return mkBool("true")
	}
	return mkBool("(or " + a.e + " " + b.e + ")")
}

func boolVal(v value) *sym {
	switch x := v.(type) {
	case bool:
		if x {
			return mkBool("true")
		}
		return mkBool("false")
	case *sym:
		return x
	}
	panic(fmt.Sprintf("boolVal: %T", v))
}

// byteEq returns the condition a == b for two byte values.
func byteEq(a, b value) *sym {
	as, aok := a.(*sym)
	bs, bok := b.(*sym)
	if !aok && !bok {
		if a.(uint8) == b.(uint8) {
			return mkBool("true")
		}
		return mkBool("false")
	}
	if !aok {
		as = lift(a, bs)
	}
	if !bok {
		bs = lift(b, as)
	}
	if as.e == bs.e {
		return mkBool("true")
	}
	return mkBool("(= " + as.e + " " + bs.e + ")")
}

func byteLt(a, b value) *sym {
	as, aok := a.(*sym)
	bs, bok := b.(*sym)
	if !aok && !bok {
		if a.(uint8) < b.(uint8) {
			return mkBool("true")
		}
		return mkBool("false")
	}
	if !aok {
		as = lift(a, bs)
	}
	if !bok {
		bs = lift(b, as)
	}
	return mkBool("(bvult " + as.e + " " + bs.e + ")")
}

// toSstr views a string-ish value as a byte sequence.
func toSstr(v value) sstr {
	switch x := v.(type) {
	case sstr:
		return x
	case numstr:
		return materialise(x)
	case fpstr:
		panic(unsupported("text of a formatted symbolic double is needed"))
	case decstr:
		panic(unsupported("the characters of a symbolic decimal numeral are needed"))
	case string:
		r := make(sstr, len(x))
		for i := 0; i < len(x); i++ {
			r[i] = x[i]
		}
		return r
	}
	panic(fmt.Sprintf("toSstr: %T", v))
}

// normStr turns an all-concrete sstr back into a Go string.
func normStr(s sstr) value {
	b := make([]byte, len(s))
	for i, c := range s {
		u, ok := c.(uint8)
		if !ok {
			return s
		}
		b[i] = u
	}
	return string(b)
}

func strEq(a, b value) value {
	if fa, ok := a.(fpstr); ok {
		if fb, ok := b.(fpstr); ok {
			return simplifyBool(mkBool("(= " + fa.f.e + " " + fb.f.e + ")"))
		}
	}
	if da, ok := a.(decstr); ok {
		if db, ok := b.(decstr); ok {
			if da.scale != db.scale {
				return false
			}
			return symBinop(token.EQL, nil, da.n, db.n)
		}
		if _, ok := b.(string); ok && b.(string) == "" {
			return false
		}
	}
	if _, ok := b.(decstr); ok {
		if as, ok := a.(string); ok && as == "" {
			return false
		}
	}
	if na, ok := a.(numstr); ok {
		if nb, ok := b.(numstr); ok {
			return simplifyBool(mkBool("(= " + na.n.e + " " + nb.n.e + ")"))
		}
	}
	x, y := toSstr(a), toSstr(b)
	if len(x) != len(y) {
		return false
	}
	c := mkBool("true")
	for i := range x {
		c = symAnd(c, byteEq(x[i], y[i]))
	}
	return simplifyBool(c)
}

// strLt: bytewise lexicographic a < b.
func strLt(a, b value) value {
	x, y := toSstr(a), toSstr(b)
	// lt(i) = i>=len(y) ? false : i>=len(x) ? true : x[i]<y[i] || (x[i]==y[i] && lt(i+1))
	var rec func(i int) *sym
	rec = func(i int) *sym {
		if i >= len(y) {
			return mkBool("false")
		}
		if i >= len(x) {
			return mkBool("true")
		}
		return symOr(byteLt(x[i], y[i]), symAnd(byteEq(x[i], y[i]), rec(i+1)))
	}
	return simplifyBool(rec(0))
}

func simplifyBool(s *sym) value {
	switch s.e {
	case "true":
		return true
	case "false":
		return false
	}
	return s
}

func strBinop(op token.Token, x, y value) value {
	switch op {
	case token.ADD:
		return normStr(append(append(sstr{}, toSstr(x)...), toSstr(y)...))
	case token.EQL:
		return strEq(x, y)
	case token.NEQ:
		return notVal(strEq(x, y))
	case token.LSS:
		return strLt(x, y)
	case token.GTR:
		return strLt(y, x)
	case token.LEQ:
		return notVal(strLt(y, x))
	case token.GEQ:
		return notVal(strLt(x, y))
	}
	panic("strBinop: " + op.String())
}

func notVal(v value) value {
	switch x := v.(type) {
	case bool:
		return !x
	case *sym:
		return simplifyBool(symNot(x))
	}
	panic("notVal")
}

// symBinop implements binary operators when at least one operand is a *sym.
func symBinop(op token.Token, t types.Type, x, y value) value {
	var like *sym
	if s, ok := x.(*sym); ok {
		like = s
	} else {
		like = y.(*sym)
	}
	a, b := lift(x, like), lift(y, like)
	switch like.k {
	case symBool:
		switch op {
		case token.EQL:
			return simplifyBool(mkBool("(= " + a.e + " " + b.e + ")"))
		case token.NEQ:
			return simplifyBool(mkBool("(not (= " + a.e + " " + b.e + "))"))
		case token.AND:
			return simplifyBool(symAnd(a, b))
		case token.OR:
			return simplifyBool(symOr(a, b))
		}
	case symFP:
		if a.origin != nil && b.origin != nil {
			// both operands are exactly converted integers: decide on the integers, no FP reasoning needed
			cmp := func(f string) value { return simplifyBool(mkBool("(" + f + " " + a.origin.e + " " + b.origin.e + ")")) }
			switch op {
			case token.EQL:
				return cmp("=")
			case token.NEQ:
				return notVal(cmp("="))
			case token.LSS:
				return cmp("bvslt")
			case token.LEQ:
				return cmp("bvsle")
			case token.GTR:
				return cmp("bvsgt")
			case token.GEQ:
				return cmp("bvsge")
			}
		}
		arith := func(fop, bop string) value {
			// x + (-0) = x - (-0) = x and (-0) + x = x for every x that is not itself -0, which an exactly
			// converted integer never is: the identity keeps the integer origin
			if yf, ok := y.(float64); ok && yf == 0 && math.Signbit(yf) && a.origin != nil {
				return a
			}
			if xf, ok := x.(float64); ok && xf == 0 && math.Signbit(xf) && b.origin != nil && fop == "fp.add" {
				return b
			}
			r := &sym{e: "(" + fop + " RNE " + a.e + " " + b.e + ")", k: symFP}
			if a.origin != nil && b.origin != nil {
				ow := a.ow
				if b.ow > ow {
					ow = b.ow
				}
				if ow+1 <= 54 { // a 54-bit two's complement integer (magnitude <= 2^53) is an exact double
					r.origin = &sym{e: "(" + bop + " " + a.origin.e + " " + b.origin.e + ")", k: symBV, w: 64, gk: types.Int64}
					r.ow = ow + 1
				}
			}
			return r
		}
		switch op {
		case token.ADD:
			return arith("fp.add", "bvadd")
		case token.SUB:
			return arith("fp.sub", "bvsub")
		case token.MUL:
			return &sym{e: "(fp.mul RNE " + a.e + " " + b.e + ")", k: symFP}
		case token.QUO:
			return &sym{e: "(fp.div RNE " + a.e + " " + b.e + ")", k: symFP}
		case token.EQL:
			return mkBool("(fp.eq " + a.e + " " + b.e + ")")
		case token.NEQ:
			return mkBool("(not (fp.eq " + a.e + " " + b.e + "))")
		case token.LSS:
			return mkBool("(fp.lt " + a.e + " " + b.e + ")")
		case token.LEQ:
			return mkBool("(fp.leq " + a.e + " " + b.e + ")")
		case token.GTR:
			return mkBool("(fp.gt " + a.e + " " + b.e + ")")
		case token.GEQ:
			return mkBool("(fp.geq " + a.e + " " + b.e + ")")
		}
	case symBV:
		_, signed := kindWidth(like.gk)
		bv := func(f string) *sym { return &sym{e: "(" + f + " " + a.e + " " + b.e + ")", k: symBV, w: like.w, gk: like.gk} }
		cmp := func(fs, fu string) value {
			f := fu
			if signed {
				f = fs
			}
			return mkBool("(" + f + " " + a.e + " " + b.e + ")")
		}
		switch op {
		case token.ADD:
			return bv("bvadd")
		case token.SUB:
			return bv("bvsub")
		case token.MUL:
			return bv("bvmul")
		case token.AND:
			return bv("bvand")
		case token.OR:
			return bv("bvor")
		case token.XOR:
			return bv("bvxor")
		case token.AND_NOT:
			return &sym{e: "(bvand " + a.e + " (bvnot " + b.e + "))", k: symBV, w: like.w, gk: like.gk}
		case token.EQL:
			if a.e == b.e {
				return true
			}
			return mkBool("(= " + a.e + " " + b.e + ")")
		case token.NEQ:
			if a.e == b.e {
				return false
			}
			return mkBool("(not (= " + a.e + " " + b.e + "))")
		case token.LSS:
			return cmp("bvslt", "bvult")
		case token.LEQ:
			return cmp("bvsle", "bvule")
		case token.GTR:
			return cmp("bvsgt", "bvugt")
		case token.GEQ:
			return cmp("bvsge", "bvuge")
		}
	}
	panic(unsupported(fmt.Sprintf("symBinop %s on %v", op, like.k)))
}

// symConv converts a symbolic integer to another integer kind.
func symConv(dst types.BasicKind, x *sym) value {
	if x.k != symBV {
		panic(unsupported("symConv of non-BV"))
	}
	w, _ := kindWidth(dst)
	if w == 0 {
		panic(unsupported("symConv to " + fmt.Sprint(dst)))
	}
	_, srcSigned := kindWidth(x.gk)
	switch {
	case w == x.w:
		return &sym{e: x.e, k: symBV, w: w, gk: dst}
	case w < x.w:
		return &sym{e: fmt.Sprintf("((_ extract %d 0) %s)", w-1, x.e), k: symBV, w: w, gk: dst}
	default:
		ext := "zero_extend"
		if srcSigned {
			ext = "sign_extend"
		}
		return &sym{e: fmt.Sprintf("((_ %s %d) %s)", ext, w-x.w, x.e), k: symBV, w: w, gk: dst}
	}
}

type unsupported string

func (u unsupported) Error() string { return "unsupported: " + string(u) }

// materialise produces the decimal text of a symbolic integer: it forks on the sign and on the number of
// digits (up to 10: every 32-bit magnitude; a wider magnitude is unsupported), the digits are terms.
func materialise(ns numstr) sstr {
	n := ns.n
	w := n.w
	c := func(v uint64) string { return bvConst(v, w) }
	_, signed := kindWidth(n.gk)
	mag := n.e
	var out sstr
	if signed && cur.cond(mkBool("(bvslt "+n.e+" "+c(0)+")")) {
		mag = "(bvneg " + n.e + ")"
		out = append(out, uint8('-'))
	}
	digit := func(e string) value {
		return &sym{e: "(bvadd #x30 ((_ extract 7 0) " + e + "))", k: symBV, w: 8, gk: types.Uint8}
	}
	pow := uint64(10)
	for nd := 1; nd <= 10; nd++ {
		// does the magnitude have at most nd digits?  (unsigned comparison: the magnitude of the most negative
		// value is its own two's complement and still compares correctly as an unsigned number)
		fits := w <= 32 && nd == 10 || w < 64 && pow >= uint64(1)<<uint(w)
		if !fits {
			fits = cur.cond(mkBool("(bvult " + mag + " " + c(pow) + ")"))
		}
		if fits {
			div := uint64(1)
			for k := 1; k < nd; k++ {
				div *= 10
			}
			for ; div >= 1; div /= 10 {
				out = append(out, digit("(bvurem (bvudiv "+mag+" "+c(div)+") "+c(10)+")"))
			}
			return out
		}
		pow *= 10
	}
	panic(unsupported("text of a symbolic numeral of more than 10 digits"))
}

// symShift: x << y and x >> y when at least one operand is a term. Go: the result has x's type; a count of
// at least the width gives 0 (or the sign fill for a signed >>); a negative count panics. SMT-LIB's
// bvshl/bvlshr/bvashr have the same saturation once the count is brought to x's width without wrapping.
func symShift(op token.Token, x, y value) value {
	var xs *sym
	switch v := x.(type) {
	case *sym:
		xs = v
	default:
		gk := goKindOf(x)
		w, _ := kindWidth(gk)
		if w == 0 {
			panic(unsupported("shift of a non-integer operand"))
		}
		xs = &sym{e: bvConst(asUint64(x), w), k: symBV, w: w, gk: gk}
	}
	if xs.k != symBV {
		panic(unsupported("shift of a non-integer term"))
	}
	_, signed := kindWidth(xs.gk)
	f := "bvshl"
	if op == token.SHR {
		f = "bvlshr"
		if signed {
			f = "bvashr"
		}
	}
	var count string
	switch c := y.(type) {
	case *sym:
		if c.k != symBV {
			panic(unsupported("shift by a non-integer term"))
		}
		if _, cs := kindWidth(c.gk); cs {
			// a negative count panics in Go
			if cur.cond(mkBool("(bvslt " + c.e + " " + bvConst(0, c.w) + ")")) {
				panic("runtime error: negative shift amount")
			}
		}
		switch {
		case c.w == xs.w:
			count = c.e
		case c.w < xs.w:
			count = fmt.Sprintf("((_ zero_extend %d) %s)", xs.w-c.w, c.e)
		default:
			// a wider count: saturate instead of truncating
			big := "(bvuge " + c.e + " " + bvConst(uint64(xs.w), c.w) + ")"
			count = fmt.Sprintf("(ite %s %s ((_ extract %d 0) %s))", big, bvConst(uint64(xs.w), xs.w), xs.w-1, c.e)
		}
	default:
		n := asInt64(y)
		if n < 0 {
			panic("runtime error: negative shift amount")
		}
		if n > int64(xs.w) {
			n = int64(xs.w)
		}
		count = bvConst(uint64(n), xs.w)
	}
	return &sym{e: "(" + f + " " + xs.e + " " + count + ")", k: symBV, w: xs.w, gk: xs.gk}
}

// symDiv: x / y and x % y on integer terms (Go truncates towards zero and the remainder has the dividend's
// sign, as bvsdiv / bvsrem do); a zero divisor is Go's run-time panic.
func symDiv(op token.Token, t types.Type, x, y value) value {
	var like *sym
	if s, ok := x.(*sym); ok {
		like = s
	} else {
		like = y.(*sym)
	}
	if like.k != symBV {
		return symBinopNoDiv(op, t, x, y)
	}
	a, b := lift(x, like), lift(y, like)
	if cur.cond(simplifyBool(mkBool("(= " + b.e + " " + bvConst(0, like.w) + ")"))) {
		panic("runtime error: integer divide by zero")
	}
	_, signed := kindWidth(like.gk)
	f := map[bool]map[token.Token]string{true: {token.QUO: "bvsdiv", token.REM: "bvsrem"}, false: {token.QUO: "bvudiv", token.REM: "bvurem"}}[signed][op]
	return &sym{e: "(" + f + " " + a.e + " " + b.e + ")", k: symBV, w: like.w, gk: like.gk}
}

func symBinopNoDiv(op token.Token, t types.Type, x, y value) value { return symBinop(op, t, x, y) }

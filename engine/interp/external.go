// Copyright 2013 The Go Authors. All rights reserved.
// Use of this source code is governed by a BSD-style
// license that can be found in the LICENSE file.

package interp

// Emulated functions that we cannot interpret because they are
// external or because they use "unsafe" or "reflect" operations.

import (
	"go/types"
	"bytes"
	"math"
	"os"
	"runtime"
	"sort"
	"strconv"
	"strings"
	"time"
	"unicode/utf8"
)

type externalFn func(fr *frame, args []value) value

// TODO(adonovan): fix: reflect.Value abstracts an lvalue or an
// rvalue; Set() causes mutations that can be observed via aliases.
// We have not captured that correctly here.

// Key strings are from Function.String().
var externals = make(map[string]externalFn)

func init() {
	// That little dot ۰ is an Arabic zero numeral (U+06F0), categories [Nd].
	for k, v := range map[string]externalFn{
		"(reflect.Value).Bool":            ext۰reflect۰Value۰Bool,
		"(reflect.Value).CanAddr":         ext۰reflect۰Value۰CanAddr,
		"(reflect.Value).CanInterface":    ext۰reflect۰Value۰CanInterface,
		"(reflect.Value).Elem":            ext۰reflect۰Value۰Elem,
		"(reflect.Value).Field":           ext۰reflect۰Value۰Field,
		"(reflect.Value).Float":           ext۰reflect۰Value۰Float,
		"(reflect.Value).Index":           ext۰reflect۰Value۰Index,
		"(reflect.Value).Int":             ext۰reflect۰Value۰Int,
		"(reflect.Value).Interface":       ext۰reflect۰Value۰Interface,
		"(reflect.Value).IsNil":           ext۰reflect۰Value۰IsNil,
		"(reflect.Value).IsValid":         ext۰reflect۰Value۰IsValid,
		"(reflect.Value).Kind":            ext۰reflect۰Value۰Kind,
		"(reflect.Value).Len":             ext۰reflect۰Value۰Len,
		"(reflect.Value).MapIndex":        ext۰reflect۰Value۰MapIndex,
		"(reflect.Value).MapKeys":         ext۰reflect۰Value۰MapKeys,
		"(reflect.Value).NumField":        ext۰reflect۰Value۰NumField,
		"(reflect.Value).NumMethod":       ext۰reflect۰Value۰NumMethod,
		"(reflect.Value).Pointer":         ext۰reflect۰Value۰Pointer,
		"(reflect.Value).Set":             ext۰reflect۰Value۰Set,
		"(reflect.Value).String":          ext۰reflect۰Value۰String,
		"(reflect.Value).Type":            ext۰reflect۰Value۰Type,
		"(reflect.Value).Uint":            ext۰reflect۰Value۰Uint,
		"(reflect.error).Error":           ext۰reflect۰error۰Error,
		"(reflect.rtype).Bits":            ext۰reflect۰rtype۰Bits,
		"(reflect.rtype).Elem":            ext۰reflect۰rtype۰Elem,
		"(reflect.rtype).Field":           ext۰reflect۰rtype۰Field,
		"(reflect.rtype).In":              ext۰reflect۰rtype۰In,
		"(reflect.rtype).Kind":            ext۰reflect۰rtype۰Kind,
		"(reflect.rtype).NumField":        ext۰reflect۰rtype۰NumField,
		"(reflect.rtype).NumIn":           ext۰reflect۰rtype۰NumIn,
		"(reflect.rtype).NumMethod":       ext۰reflect۰rtype۰NumMethod,
		"(reflect.rtype).NumOut":          ext۰reflect۰rtype۰NumOut,
		"(reflect.rtype).Out":             ext۰reflect۰rtype۰Out,
		"(reflect.rtype).Size":            ext۰reflect۰rtype۰Size,
		"(reflect.rtype).String":          ext۰reflect۰rtype۰String,
		"bytes.Equal":                     ext۰bytes۰Equal,
		"bytes.IndexByte":                 ext۰bytes۰IndexByte,
		"fmt.Sprint":                      ext۰fmt۰Sprint,
		"math.Abs":                        ext۰math۰Abs,
		"math.Copysign":                   ext۰math۰Copysign,
		"math.Exp":                        ext۰math۰Exp,
		"math.Float32bits":                ext۰math۰Float32bits,
		"math.Float32frombits":            ext۰math۰Float32frombits,
		"math.Float64bits":                ext۰math۰Float64bits,
		"math.Float64frombits":            ext۰math۰Float64frombits,
		"math.Inf":                        ext۰math۰Inf,
		"math.IsNaN":                      ext۰math۰IsNaN,
		"math.Ldexp":                      ext۰math۰Ldexp,
		"math.Log":                        ext۰math۰Log,
		"math.Min":                        ext۰math۰Min,
		"math.NaN":                        ext۰math۰NaN,
		"math.Sqrt":                       ext۰math۰Sqrt,
		"os.Exit":                         ext۰os۰Exit,
		"os.Getenv":                       ext۰os۰Getenv,
		"reflect.New":                     ext۰reflect۰New,
		"reflect.SliceOf":                 ext۰reflect۰SliceOf,
		"reflect.TypeOf":                  ext۰reflect۰TypeOf,
		"reflect.ValueOf":                 ext۰reflect۰ValueOf,
		"reflect.Zero":                    ext۰reflect۰Zero,
		"runtime.Breakpoint":              ext۰runtime۰Breakpoint,
		"runtime.GC":                      ext۰runtime۰GC,
		"runtime.GOMAXPROCS":              ext۰runtime۰GOMAXPROCS,
		"runtime.GOROOT":                  ext۰runtime۰GOROOT,
		"runtime.Goexit":                  ext۰runtime۰Goexit,
		"runtime.Gosched":                 ext۰runtime۰Gosched,
		"runtime.NumCPU":                  ext۰runtime۰NumCPU,
		"sort.Float64s":                   ext۰sort۰Float64s,
		"sort.Ints":                       ext۰sort۰Ints,
		"sort.Strings":                    ext۰sort۰Strings,
		"strconv.Atoi":                    ext۰strconv۰Atoi,
		"strconv.Itoa":                    ext۰strconv۰Itoa,
		"strconv.FormatFloat":             ext۰strconv۰FormatFloat,
		"strings.Count":                   ext۰strings۰Count,
		"strings.EqualFold":               ext۰strings۰EqualFold,
		"strings.Index":                   ext۰strings۰Index,
		"strings.IndexByte":               ext۰strings۰IndexByte,
		"strings.Replace":                 ext۰strings۰Replace,
		"strings.ToLower":                 ext۰strings۰ToLower,
		"time.Sleep":                      ext۰time۰Sleep,
		"unicode/utf8.DecodeRuneInString": ext۰unicode۰utf8۰DecodeRuneInString,
	} {
		externals[k] = v
	}
}

func ext۰bytes۰Equal(fr *frame, args []value) value {
	// func Equal(a, b []byte) bool
	a := args[0].([]value)
	b := args[1].([]value)
	if len(a) != len(b) {
		return false
	}
	for i := range a {
		if a[i] != b[i] {
			return false
		}
	}
	return true
}

func ext۰bytes۰IndexByte(fr *frame, args []value) value {
	// func IndexByte(s []byte, c byte) int
	s := args[0].([]value)
	c := args[1].(byte)
	for i, b := range s {
		if b.(byte) == c {
			return i
		}
	}
	return -1
}

func ext۰math۰Float64frombits(fr *frame, args []value) value {
	return math.Float64frombits(args[0].(uint64))
}

func ext۰math۰Float64bits(fr *frame, args []value) value {
	if sy, ok := args[0].(*sym); ok {
		// z3's fp.to_ieee_bv; NaN payloads are not modelled (no NaN arises from decimal numerals)
		return &sym{e: "(fp.to_ieee_bv " + sy.e + ")", k: symBV, w: 64, gk: types.Uint64}
	}
	return math.Float64bits(args[0].(float64))
}

func ext۰math۰Float32frombits(fr *frame, args []value) value {
	return math.Float32frombits(args[0].(uint32))
}

func ext۰math۰Abs(fr *frame, args []value) value {
	return math.Abs(args[0].(float64))
}

func ext۰math۰Copysign(fr *frame, args []value) value {
	return math.Copysign(args[0].(float64), args[1].(float64))
}

func ext۰math۰Exp(fr *frame, args []value) value {
	return math.Exp(args[0].(float64))
}

func ext۰math۰Float32bits(fr *frame, args []value) value {
	return math.Float32bits(args[0].(float32))
}

func ext۰math۰Min(fr *frame, args []value) value {
	return math.Min(args[0].(float64), args[1].(float64))
}

func ext۰math۰NaN(fr *frame, args []value) value {
	return math.NaN()
}

func ext۰math۰IsNaN(fr *frame, args []value) value {
	return math.IsNaN(args[0].(float64))
}

func ext۰math۰Inf(fr *frame, args []value) value {
	return math.Inf(args[0].(int))
}

func ext۰math۰Ldexp(fr *frame, args []value) value {
	return math.Ldexp(args[0].(float64), args[1].(int))
}

func ext۰math۰Log(fr *frame, args []value) value {
	return math.Log(args[0].(float64))
}

func ext۰math۰Sqrt(fr *frame, args []value) value {
	return math.Sqrt(args[0].(float64))
}

func ext۰runtime۰Breakpoint(fr *frame, args []value) value {
	runtime.Breakpoint()
	return nil
}

func ext۰sort۰Ints(fr *frame, args []value) value {
	x := args[0].([]value)
	sort.Slice(x, func(i, j int) bool {
		return x[i].(int) < x[j].(int)
	})
	return nil
}
func ext۰sort۰Strings(fr *frame, args []value) value {
	x := args[0].([]value)
	sort.Slice(x, func(i, j int) bool {
		return x[i].(string) < x[j].(string)
	})
	return nil
}
func ext۰sort۰Float64s(fr *frame, args []value) value {
	x := args[0].([]value)
	sort.Slice(x, func(i, j int) bool {
		return x[i].(float64) < x[j].(float64)
	})
	return nil
}

func ext۰strconv۰Atoi(fr *frame, args []value) value {
	i, e := strconv.Atoi(args[0].(string))
	if e != nil {
		return tuple{i, iface{fr.i.runtimeErrorString, e.Error()}}
	}
	return tuple{i, iface{}}
}
func ext۰strconv۰Itoa(fr *frame, args []value) value {
	return strconv.Itoa(args[0].(int))
}
func ext۰strconv۰FormatFloat(fr *frame, args []value) value {
	return strconv.FormatFloat(args[0].(float64), args[1].(byte), args[2].(int), args[3].(int))
}

func ext۰strings۰Count(fr *frame, args []value) value {
	return strings.Count(args[0].(string), args[1].(string))
}

func ext۰strings۰EqualFold(fr *frame, args []value) value {
	return strings.EqualFold(args[0].(string), args[1].(string))
}
func ext۰strings۰IndexByte(fr *frame, args []value) value {
	return strings.IndexByte(args[0].(string), args[1].(byte))
}

func ext۰strings۰Index(fr *frame, args []value) value {
	return strings.Index(args[0].(string), args[1].(string))
}

func ext۰strings۰Replace(fr *frame, args []value) value {
	// func Replace(s, old, new string, n int) string
	s := args[0].(string)
	new := args[1].(string)
	old := args[2].(string)
	n := args[3].(int)
	return strings.Replace(s, old, new, n)
}

func ext۰strings۰ToLower(fr *frame, args []value) value {
	return strings.ToLower(args[0].(string))
}

func ext۰runtime۰GOMAXPROCS(fr *frame, args []value) value {
	// Ignore args[0]; don't let the interpreted program
	// set the interpreter's GOMAXPROCS!
	return runtime.GOMAXPROCS(0)
}

func ext۰runtime۰Goexit(fr *frame, args []value) value {
	// TODO(adonovan): don't kill the interpreter's main goroutine.
	runtime.Goexit()
	return nil
}

func ext۰runtime۰GOROOT(fr *frame, args []value) value {
	return runtime.GOROOT()
}

func ext۰runtime۰GC(fr *frame, args []value) value {
	runtime.GC()
	return nil
}

func ext۰runtime۰Gosched(fr *frame, args []value) value {
	runtime.Gosched()
	return nil
}

func ext۰runtime۰NumCPU(fr *frame, args []value) value {
	return runtime.NumCPU()
}

func ext۰time۰Sleep(fr *frame, args []value) value {
	time.Sleep(time.Duration(args[0].(int64)))
	return nil
}

func ext۰os۰Getenv(fr *frame, args []value) value {
	name := args[0].(string)
	switch name {
	case "GOSSAINTERP":
		return "1"
	}
	return os.Getenv(name)
}

func ext۰os۰Exit(fr *frame, args []value) value {
	panic(exitPanic(args[0].(int)))
}

func ext۰unicode۰utf8۰DecodeRuneInString(fr *frame, args []value) value {
	r, n := utf8.DecodeRuneInString(args[0].(string))
	return tuple{r, n}
}

// A fake function for turning an arbitrary value into a string.
// Handles only the cases needed by the tests.
// Uses same logic as 'print' built-in.
func ext۰fmt۰Sprint(fr *frame, args []value) value {
	buf := new(bytes.Buffer)
	wasStr := false
	for i, arg := range args[0].([]value) {
		x := arg.(iface).v
		_, isStr := x.(string)
		if i > 0 && !wasStr && !isStr {
			buf.WriteByte(' ')
		}
		wasStr = isStr
		buf.WriteString(toString(x))
	}
	return buf.String()
}

// extMathRound models math.Trunc / Floor / Ceil: an exactly converted integer is its own rounding; any other
// symbolic double is rounded by the solver's fp.roundToIntegral.
func extMathRound(mode string, concrete func(float64) float64) externalFn {
	return func(fr *frame, args []value) value {
		sy, ok := args[0].(*sym)
		if !ok {
			return concrete(args[0].(float64))
		}
		if sy.origin != nil {
			return sy
		}
		return &sym{e: "(fp.roundToIntegral " + mode + " " + sy.e + ")", k: symFP}
	}
}

// fpTerm views a float64 operand (concrete or symbolic) as an SMT floating-point term.
func fpTerm(v value) (string, bool) {
	switch x := v.(type) {
	case float64:
		return fpConst(x), true
	case *sym:
		if x.k == symFP {
			return x.e, true
		}
	}
	return "", false
}

func init() {
	// math functions on symbolic doubles, as IEEE terms (concrete operands use the host functions)
	concrete1 := func(name string, f func(float64) float64, term func(x string) string) {
		externals["math."+name] = func(fr *frame, args []value) value {
			if x, ok := args[0].(float64); ok {
				return f(x)
			}
			if x, ok := fpTerm(args[0]); ok {
				return &sym{e: term(x), k: symFP}
			}
			panic(unsupported("math." + name + " of a non-double operand"))
		}
	}
	concrete1("Abs", math.Abs, func(x string) string { return "(fp.abs " + x + ")" })
	concrete1("Sqrt", math.Sqrt, func(x string) string { return "(fp.sqrt RNE " + x + ")" })
	concrete1("Round", math.Round, func(x string) string { return "(fp.roundToIntegral RNA " + x + ")" })
	concrete1("RoundToEven", math.RoundToEven, func(x string) string { return "(fp.roundToIntegral RNE " + x + ")" })
	nan := "(_ NaN 11 53)"
	minmax := func(name string, f func(a, b float64) float64, pick func(x, y string) string) {
		externals["math."+name] = func(fr *frame, args []value) value {
			a, ok1 := args[0].(float64)
			b, ok2 := args[1].(float64)
			if ok1 && ok2 {
				return f(a, b)
			}
			x, okx := fpTerm(args[0])
			y, oky := fpTerm(args[1])
			if !okx || !oky {
				panic(unsupported("math." + name + " of a non-double operand"))
			}
			return &sym{e: "(ite (or (fp.isNaN " + x + ") (fp.isNaN " + y + ")) " + nan + " " + pick(x, y) + ")", k: symFP}
		}
	}
	// equal operands differ at most in the sign of zero: Max prefers +0, Min prefers -0
	minmax("Max", math.Max, func(x, y string) string {
		return "(ite (fp.gt " + x + " " + y + ") " + x + " (ite (fp.gt " + y + " " + x + ") " + y + " (ite (fp.isNegative " + x + ") " + y + " " + x + ")))"
	})
	minmax("Min", math.Min, func(x, y string) string {
		return "(ite (fp.lt " + x + " " + y + ") " + x + " (ite (fp.lt " + y + " " + x + ") " + y + " (ite (fp.isNegative " + x + ") " + x + " " + y + ")))"
	})
	for name, pred := range map[string]string{"IsNaN": "fp.isNaN", "Signbit": "fp.isNegative"} {
		name, pred := name, pred
		externals["math."+name] = func(fr *frame, args []value) value {
			if x, ok := args[0].(float64); ok {
				if name == "IsNaN" {
					return math.IsNaN(x)
				}
				return math.Signbit(x)
			}
			if x, ok := fpTerm(args[0]); ok {
				return mkBool("(" + pred + " " + x + ")")
			}
			panic(unsupported("math." + name + " of a non-double operand"))
		}
	}
	externals["math.IsInf"] = func(fr *frame, args []value) value {
		sign, oks := args[1].(int)
		if x, ok := args[0].(float64); ok && oks {
			return math.IsInf(x, sign)
		}
		x, ok := fpTerm(args[0])
		if !ok || !oks {
			panic(unsupported("math.IsInf of a non-double operand"))
		}
		switch {
		case sign > 0:
			return mkBool("(and (fp.isInfinite " + x + ") (fp.isPositive " + x + "))")
		case sign < 0:
			return mkBool("(and (fp.isInfinite " + x + ") (fp.isNegative " + x + "))")
		}
		return mkBool("(fp.isInfinite " + x + ")")
	}
	externals["math.Trunc"] = extMathRound("RTZ", math.Trunc)
	externals["math.Floor"] = extMathRound("RTN", math.Floor)
	externals["math.Ceil"] = extMathRound("RTP", math.Ceil)
}

package interp

import (
	"fmt"
	"strings"
)

type decision struct {
	alts    []string // nil for a decision imported with a work-item prefix until it has been re-executed
	choice  int
	payload uint64 // e.g. the concretised value this decision is about
	nalts   int
	limit   int  // alternatives [choice+1, limit) are still to be tried by this explorer
	unchecked bool // imported decision whose feasibility has not been established yet
}

// PrefixDecision is the serialisable form of a decision (work items handed between processes).
type PrefixDecision struct {
	C int    `json:"c"`
	P uint64 `json:"p,omitempty"`
	N int    `json:"n"`
	U bool   `json:"u,omitempty"`
}

type pathInfeasible struct{}

type pendingAssert struct {
	cond *sym
	id   string
}

// flush decides the assertions accumulated since the last decision. They all share one path condition
// pc, and "c1 holds under pc, c2 under pc&c1, ..." is equivalent to the validity of c1&...&ck under pc, so
// one query settles the batch; only if that query is sat are the assertions examined one by one.
func (x *Explorer) flush() {
	if len(x.pending) == 0 || x.flushing {
		return
	}
	x.flushing = true
	defer func() { x.flushing = false }()
	p := x.pending
	x.pending = nil
	x.onFlush(p)
}

// assumeUnchecked records c as a single-alternative decision without asking the solver (the caller
// knows pc&c is satisfiable).
func (x *Explorer) assumeUnchecked(c string) {
	x.S.push()
	x.S.assert(c)
	x.trail = append(x.trail, decision{alts: []string{c}, choice: 0, nalts: 1, limit: 1})
	x.pos++
	if len(x.trail) > x.MaxTrail {
		x.MaxTrail = len(x.trail)
	}
}

// Explorer enumerates all feasible paths depth-first by re-execution.
type Explorer struct {
	S       *solver
	trail   []decision
	pos     int
	fresh   map[string]int
	ndVars  []ndVar // nondet values created on the current path
	nextPayload uint64
	ShardI, ShardW, ShardDepth int
	locked  int // decisions [0,locked) belong to the work item's prefix and are never backtracked
	pending []pendingAssert // assertions made since the last decision, decided together in one query
	flushing bool
	usedPar  bool // the current path ran two engine threads (nd.Par)
	onFlush func(p []pendingAssert)
	inconclusive map[string]int
	Skipped int
	Paths   int
	Forks   int
	MaxTrail int
}

type ndVar struct {
	name string // harness-level name
	term string // solver constant (or concrete rendering)
	sort string
}

func NewExplorer(s *solver) *Explorer { return &Explorer{S: s, fresh: map[string]int{}} }

func (x *Explorer) startPath() {
	x.pending = nil
	x.usedPar = false
	x.pos = 0
	x.fresh = map[string]int{}
	x.ndVars = x.ndVars[:0]
}

// freshVar declares (once, globally) a solver constant for the k-th use of name on this path.
func (x *Explorer) freshVar(name, sort string) string {
	k := x.fresh[name]
	x.fresh[name] = k + 1
	n := fmt.Sprintf("%s!%d", sanitize(name), k)
	x.S.declare(n, sort)
	x.ndVars = append(x.ndVars, ndVar{name: name, term: n, sort: sort})
	return n
}

func sanitize(s string) string {
	return strings.Map(func(r rune) rune {
		if r >= 'a' && r <= 'z' || r >= 'A' && r <= 'Z' || r >= '0' && r <= '9' || r == '_' || r == '.' {
			return r
		}
		return '_'
	}, s)
}

func (x *Explorer) tryAlt(alt string) bool {
	x.S.push()
	if alt == "true" {
		return true
	}
	if alt == "false" {
		x.S.pop()
		return false
	}
	if known, feasible := x.S.implied(alt); known && !x.S.oneshot {
		x.S.Saved++
		if feasible {
			x.S.assert(alt)
			return true
		}
		x.S.pop()
		return false
	}
	x.S.assert(alt)
	r := x.S.check()
	if r == "sat" {
		return true
	}
	if r != "unsat" {
		panic(unsupported("solver said " + r))
	}
	x.S.pop()
	return false
}

// decide picks one of alts (SMT Bool expressions), consistent with the path condition.
func (x *Explorer) decide(alts []string) int {
	x.flush()
	if x.pos < len(x.trail) && x.trail[x.pos].alts == nil {
		// imported prefix decision: rebuild the solver stack while following it
		d := &x.trail[x.pos]
		if d.nalts != len(alts) || d.choice >= len(alts) {
			panic(fmt.Sprintf("work-item prefix does not match re-execution at decision %d: %d alts vs %d", x.pos, d.nalts, len(alts)))
		}
		d.alts = alts
		if d.unchecked {
			d.unchecked = false
			if !x.tryAlt(alts[d.choice]) {
				panic(pathInfeasible{})
			}
		} else {
			x.S.push()
			if a := alts[d.choice]; a != "true" {
				x.S.assert(a)
			}
		}
		x.pos++
		return d.choice
	}
	if x.pos < len(x.trail) {
		d := x.trail[x.pos]
		if len(d.alts) != len(alts) || d.alts[d.choice] != alts[d.choice] {
			panic(fmt.Sprintf("non-deterministic re-execution at decision %d: %v vs %v", x.pos, d.alts, alts))
		}
		x.pos++
		return d.choice
	}
	for k, alt := range alts {
		if x.tryAlt(alt) {
			x.trail = append(x.trail, decision{alts: alts, choice: k, payload: x.nextPayload, nalts: len(alts), limit: len(alts)})
			x.pos++
			if len(alts) > 1 {
				x.Forks++
			}
			x.shardCheck()
			if len(x.trail) > x.MaxTrail {
				x.MaxTrail = len(x.trail)
			}
			return k
		}
	}
	panic(pathInfeasible{})
}

// next backtracks to the next unexplored alternative; false when exhausted.
func (x *Explorer) next() bool {
	for len(x.trail) > x.locked {
		n := len(x.trail)
		d := &x.trail[n-1]
		x.S.popTo(n - 1)
		for k := d.choice + 1; k < d.limit; k++ {
			if x.tryAlt(d.alts[k]) {
				d.choice = k
				if !x.mine() {
					x.S.pop()
					x.Skipped++
					continue
				}
				return true
			}
		}
		x.trail = x.trail[:n-1]
	}
	x.S.popTo(0)
	return false
}

// SetPrefix starts a new work item: the exploration is confined to the subtree below prefix.
func (x *Explorer) SetPrefix(prefix []PrefixDecision) {
	x.S.popTo(0)
	x.trail = x.trail[:0]
	for _, d := range prefix {
		x.trail = append(x.trail, decision{choice: d.C, payload: d.P, nalts: d.N, limit: d.C + 1, unchecked: d.U})
	}
	x.locked = len(prefix)
}

// Shed gives away every not yet tried alternative of the current trail (above the locked prefix) as
// work-item prefixes; afterwards nothing remains to this explorer but the path it has just finished.
func (x *Explorer) Shed() [][]PrefixDecision {
	var out [][]PrefixDecision
	for lvl := x.locked; lvl < len(x.trail); lvl++ {
		d := &x.trail[lvl]
		for k := d.choice + 1; k < d.limit; k++ {
			if d.alts[k] == "false" {
				continue
			}
			p := make([]PrefixDecision, 0, lvl+1)
			for _, e := range x.trail[:lvl] {
				p = append(p, PrefixDecision{C: e.choice, P: e.payload, N: e.nalts})
			}
			p = append(p, PrefixDecision{C: k, P: d.payload, N: d.nalts, U: true})
			out = append(out, p)
		}
		d.limit = d.choice + 1 // this level is exhausted for this explorer
	}
	return out
}

// checkSat asks whether extra is satisfiable together with the path condition.
func (x *Explorer) checkSat(extra string) (bool, string) {
	x.flush()
	x.S.push()
	x.S.assert(extra)
	r := x.S.check()
	model := ""
	if r == "sat" {
		model = x.S.values(x.termNames())
	}
	x.S.pop()
	if r != "sat" && r != "unsat" {
		panic(unsupported("solver said " + r))
	}
	return r == "sat", model
}

func (x *Explorer) termNames() []string {
	names := []string{}
	for _, v := range x.ndVars {
		if v.sort != "choice" {
			names = append(names, v.term)
		}
	}
	return names
}

type pathSkipped struct{}

// mine reports whether the current trail lies in a subtree assigned to this worker; a subtree is
// identified by the choices of the first ShardDepth forking decisions.
func (x *Explorer) mine() bool {
	if x.ShardW <= 1 {
		return true
	}
	forks, h := 0, uint64(1469598103934665603)
	for _, d := range x.trail {
		if len(d.alts) > 1 {
			forks++
			h = (h ^ uint64(d.choice+1)) * 1099511628211
			if forks == x.ShardDepth {
				return int(h%uint64(x.ShardW)) == x.ShardI
			}
		}
	}
	return true
}

func (x *Explorer) shardCheck() {
	if !x.mine() {
		panic(pathSkipped{})
	}
}

package interp

// smap: insertion-ordered map supporting symbolic keys.

import (
	"fmt"
	"go/types"
)

type smap struct {
	kt      types.Type
	keys    []value
	vals    []value
	idx     map[value]int // concrete basic keys -> position
	symKeys int
}

func newSmap(kt types.Type) *smap { return &smap{kt: kt, idx: map[value]int{}} }

func hashableConcrete(k value) bool {
	switch k.(type) {
	case bool, int, int8, int16, int32, int64, uint, uint8, uint16, uint32, uint64, uintptr, float32, float64, string, *value:
		return true
	}
	return false
}

func (m *smap) length() int {
	if m == nil {
		return 0
	}
	return len(m.keys)
}

// find returns the position of key, or -1; may fork.
func (m *smap) find(i *interpreter, key value) int {
	if m == nil {
		return -1
	}
	if hashableConcrete(key) && m.symKeys == 0 && len(m.idx) == len(m.keys) {
		if p, ok := m.idx[key]; ok {
			return p
		}
		return -1
	}
	var alts []string
	var pos []int
	none := mkBool("true")
	for j, k := range m.keys {
		eq := equalsV(m.kt, key, k)
		switch e := eq.(type) {
		case bool:
			if e {
				return j
			}
		case *sym:
			alts = append(alts, e.e)
			pos = append(pos, j)
			none = symAnd(none, symNot(e))
		}
	}
	if len(alts) == 0 {
		return -1
	}
	alts = append(alts, none.e)
	pos = append(pos, -1)
	return pos[i.x.decide(alts)]
}

// lookupBoolMerged handles map[K]bool with concrete entries and a symbolic probe without forking.
func (m *smap) lookupMerged(key value) (v, ok value, done bool) {
	if m == nil || m.symKeys != 0 || !isSym(key) {
		return nil, nil, false
	}
	for _, x := range m.vals {
		if _, isb := x.(bool); !isb {
			return nil, nil, false
		}
	}
	okS, vS := mkBool("false"), mkBool("false")
	for j, k := range m.keys {
		eq := equalsV(m.kt, key, k)
		var e *sym
		switch q := eq.(type) {
		case bool:
			if !q {
				continue
			}
			e = mkBool("true")
		case *sym:
			e = q
		}
		okS = symOr(okS, e)
		if m.vals[j].(bool) {
			vS = symOr(vS, e)
		}
	}
	return simplifyBool(vS), simplifyBool(okS), true
}

func (m *smap) insert(i *interpreter, key, val value) {
	p := m.find(i, key)
	if p >= 0 {
		m.vals[p] = val
		return
	}
	m.keys = append(m.keys, key)
	m.vals = append(m.vals, val)
	if hashableConcrete(key) {
		m.idx[key] = len(m.keys) - 1
	} else if isSym(key) {
		m.symKeys++
	}
}

func (m *smap) remove(i *interpreter, key value) {
	p := m.find(i, key)
	if p < 0 {
		return
	}
	if isSym(m.keys[p]) {
		m.symKeys--
	}
	m.keys = append(m.keys[:p:p], m.keys[p+1:]...)
	m.vals = append(m.vals[:p:p], m.vals[p+1:]...)
	m.idx = map[value]int{}
	for j, k := range m.keys {
		if hashableConcrete(k) {
			m.idx[k] = j
		}
	}
}

type smapIter struct {
	keys, vals []value
	i          int
}

func (it *smapIter) next() tuple {
	if it.i >= len(it.keys) {
		return []value{false, nil, nil}
	}
	k, v := it.keys[it.i], it.vals[it.i]
	it.i++
	return []value{true, k, v}
}

func (m *smap) iter() iter {
	if m == nil {
		return &smapIter{}
	}
	return &smapIter{keys: append([]value{}, m.keys...), vals: append([]value{}, m.vals...)}
}

func (m *smap) String() string { return fmt.Sprintf("smap[%d]", m.length()) }

package interp

// Lock-set recording for the C11 spike: accesses to tracked (shared) cells are logged with the set of
// mutexes held; two recordings conflict if they touch the same cell, one writes, and no lock is common.

import (
	"fmt"
	"go/token"
)

type access struct {
	addr  interface{} // *value or *smap
	write bool
	locks map[*value]bool
	rlocks map[*value]bool // read locks of RWMutexes: they exclude writers only
	pos   token.Pos
	fn    string
}

type lockState struct {
	held    map[*value]bool
	heldR   map[*value]int // RWMutex read locks held
	tracked map[interface{}]bool
	recs    map[string][]access
	cur     string
}

func newLockState() *lockState {
	return &lockState{held: map[*value]bool{}, heldR: map[*value]int{}, tracked: map[interface{}]bool{}, recs: map[string][]access{}}
}

func (i *interpreter) recordAccess(addr interface{}, write bool, fr *frame, pos token.Pos) {
	ls := i.locks
	if ls == nil {
		return
	}
	switch addr.(type) {
	case *value, *smap:
	default:
		return // strings and other values are not shared cells
	}
	if !ls.tracked[addr] {
		return
	}
	if i.sched != nil {
		// a shared access outside any lock is a scheduling point
		if len(ls.held) == 0 {
			// (a read lock does not keep other readers out: still a scheduling point)
			i.sched.yield()
		}
		return
	}
	if ls.cur == "" {
		return
	}
	lk := map[*value]bool{}
	for k := range ls.held {
		lk[k] = true
	}
	rlk := map[*value]bool{}
	for k, n := range ls.heldR {
		if n > 0 {
			rlk[k] = true
		}
	}
	fn := ""
	if fr != nil {
		fn = fr.fn.String()
	}
	ls.recs[ls.cur] = append(ls.recs[ls.cur], access{addr: addr, write: write, locks: lk, rlocks: rlk, pos: pos, fn: fn})
}

// track walks the object graph from v and marks every cell as shared.
func (ls *lockState) track(v value, depth int) {
	if depth > 12 {
		return
	}
	switch x := v.(type) {
	case *value:
		if x == nil || ls.tracked[x] {
			return
		}
		ls.tracked[x] = true
		ls.trackInline(x, depth)
	case []value:
		for k := range x {
			if !ls.tracked[&x[k]] {
				ls.tracked[&x[k]] = true
				ls.trackInline(&x[k], depth)
			}
		}
	case *smap:
		if x == nil || ls.tracked[x] {
			return
		}
		ls.tracked[x] = true
		for k := range x.keys {
			ls.track(x.keys[k], depth+1)
			ls.track(x.vals[k], depth+1)
		}
	case iface:
		ls.track(x.v, depth+1)
	case structure:
		for k := range x {
			ls.track(x[k], depth+1)
		}
	case *closure:
		for _, e := range x.Env {
			ls.track(e, depth+1)
		}
	}
}

// trackInline marks the slots stored inline in *p (struct fields, array elements) and follows references.
func (ls *lockState) trackInline(p *value, depth int) {
	switch s := (*p).(type) {
	case structure:
		for k := range s {
			ls.tracked[&s[k]] = true
			ls.trackInline(&s[k], depth+1)
		}
	case array:
		for k := range s {
			ls.tracked[&s[k]] = true
			ls.trackInline(&s[k], depth+1)
		}
	default:
		ls.track(*p, depth+1)
	}
}

func (ls *lockState) conflicts(a, b string) []string {
	var out []string
	seen := map[string]bool{}
	for _, x := range ls.recs[a] {
		for _, y := range ls.recs[b] {
			if x.addr != y.addr || !(x.write || y.write) {
				continue
			}
			common := false
			for k := range x.locks {
				if y.locks[k] || y.rlocks[k] {
					common = true
				}
			}
			for k := range x.rlocks {
				if y.locks[k] { // two read locks do not exclude each other
					common = true
				}
			}
			if common {
				continue
			}
			key := fmt.Sprintf("%s[%v] / %s[%v]", x.fn, x.write, y.fn, y.write)
			if !seen[key] {
				seen[key] = true
				out = append(out, key)
			}
		}
	}
	return out
}

package interp

import "strings"

// strings.Replacer over byte-sequence strings. The replacer is kept as its list of (old, new) pairs;
// Replace scans left to right and at every offset forks over "the first pair, in argument order, whose
// old text matches here" (the semantics documented for strings.Replacer: comparisons are done in
// argument order, replacements do not overlap). Restrictions: concrete pairs, no empty old text.
type replacerModel struct {
	olds, news []string
	real       *strings.Replacer
}

func init() {
	externals["strings.NewReplacer"] = func(fr *frame, a []value) value {
		args := a[0].([]value)
		if len(args)%2 == 1 {
			panic("strings.NewReplacer: odd argument count")
		}
		m := &replacerModel{}
		flat := make([]string, len(args))
		for k, v := range args {
			s, ok := v.(string)
			if !ok {
				panic(unsupported("strings.NewReplacer with symbolic arguments"))
			}
			flat[k] = s
			if k%2 == 0 {
				m.olds = append(m.olds, s)
			} else {
				m.news = append(m.news, s)
			}
		}
		m.real = strings.NewReplacer(flat...)
		var obj value = nativeObj{m}
		return &obj
	}
	externals["(*strings.Replacer).Replace"] = func(fr *frame, a []value) value {
		m := (*a[0].(*value)).(nativeObj).v.(*replacerModel)
		if s, ok := a[1].(string); ok {
			return m.real.Replace(s)
		}
		for _, o := range m.olds {
			if o == "" {
				panic(unsupported("strings.Replacer with an empty old text on a symbolic string"))
			}
		}
		s := toSstr(a[1])
		out := sstr{}
		for off := 0; off < len(s); {
			conds := make([]*sym, len(m.olds))
			for k, o := range m.olds {
				conds[k] = matchAt(s, off, toSstr(o))
			}
			k := fr.i.firstTrue(conds)
			if k < 0 {
				out = append(out, s[off])
				off++
				continue
			}
			out = append(out, toSstr(m.news[k])...)
			off += len(m.olds[k])
		}
		return normStr(out)
	}
}

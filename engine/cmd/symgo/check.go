package main

import (
	"bufio"
	"crypto/sha256"
	"encoding/hex"
	"encoding/json"
	"flag"
	"fmt"
	"io"
	"os"
	"os/exec"
	"path/filepath"
	"sort"
	"strconv"
	"strings"
	"sync"
	"time"

	"symgo/interp"
)

// ---------------------------------------------------------------- specification of the checks

type tierSpec struct {
	Params  map[string]int `json:"params"`
	Skip    bool           `json:"skip,omitempty"`
	Workers int            `json:"workers,omitempty"`
}

type harnessSpec struct {
	Pkg       string              `json:"pkg"`
	Fn        string              `json:"fn"`
	What      string              `json:"what"`
	Reach     []string            `json:"reach"`
	Tiers     map[string]tierSpec `json:"tiers"`
	StepLimit int64               `json:"steplimit,omitempty"`
	OneShot   string              `json:"oneshot,omitempty"` // decide every query with a fresh solver process (floating point)
}

type checkSpec struct {
	Title       string        `json:"title"`
	Bounds      string        `json:"bounds"`
	Outside     string        `json:"outside"`
	Assumptions []string      `json:"assumptions"`
	Harnesses   []harnessSpec `json:"harnesses"`
}

type knownFinding struct {
	Property string `json:"property"`
	ID       string `json:"id"`
	Witness  string `json:"witness"` // replay file, relative to /verif
	What     string `json:"what"`
	// AlsoIn lists other properties whose harnesses meet the same defect and exclude the same region
	AlsoIn []string `json:"also_in,omitempty"`
}

type knownFile struct {
	Known []knownFinding `json:"known"`
	Fixed []string       `json:"fixed"`
}

// replayDoc is a counterexample (or a known-finding witness) in the form the native nd package reads.
type replayDoc struct {
	Property string            `json:"property"`
	Harness  string            `json:"harness"`
	Pkg      string            `json:"pkg"`
	Kind     string            `json:"kind"`
	Msg      string            `json:"msg"`
	Values   map[string]uint64 `json:"values"`
	Params   map[string]int    `json:"params"`
	Known    []string          `json:"known"`
	Model    string            `json:"model,omitempty"`
	// Stress > 0: the counterexample includes a thread schedule the native run cannot impose; the native
	// replay repeats the harness up to Stress times and confirms the violation if any repetition shows it
	Stress int `json:"stress,omitempty"`
	// cross-check samples (Kind "sample"): the digest the engine computed on this path
	TraceSum uint64 `json:"trace_sum,omitempty"`
	TraceN   int    `json:"trace_n,omitempty"`
}

// ---------------------------------------------------------------- one harness exploration

type harnessResult struct {
	Spec         harnessSpec
	Params       map[string]int
	Paths        int
	Infeasible   int
	Nontrivial   int
	Obligations  int
	Discharged   int
	Queries      int
	SolverS      float64
	Steps        int64
	WallS        float64
	LoadS        float64
	Items        int
	Workers      int
	Violations   []interp.Violation
	Unsupported  map[string]int
	Panics       map[string]int
	Reached      map[string]int
	Samples      []string
	PathSamples  []interp.PathSample
	Funcs        []funcInfo
	Errors       []string
	MissingReach []string
}

type worker struct {
	cmd *exec.Cmd
	in  io.WriteCloser
	out *bufio.Reader
	id  int
}

func startWorker(id int, hs harnessSpec, params map[string]int, known []string) (*worker, error) {
	self, _ := os.Executable()
	pj, _ := json.Marshal(params)
	args := []string{"worker", "-pkg", hs.Pkg, "-fn", hs.Fn, "-params", string(pj), "-known", strings.Join(known, ","), "-samples", envOr("VERIF_SAMPLES", "4")}
	if hs.StepLimit > 0 {
		args = append(args, "-steplimit", strconv.FormatInt(hs.StepLimit, 10))
	}
	cmd := exec.Command(self, args...)
	cmd.Env = append(os.Environ(), "GOMAXPROCS=2", "GOGC="+envOr("SYMGO_GOGC", "200"), "GODEBUG=disablethp=1")
	if hs.OneShot != "" {
		cmd.Env = append(cmd.Env, "SYMGO_ONESHOT="+hs.OneShot)
	}
	cmd.Stderr = os.Stderr
	in, _ := cmd.StdinPipe()
	outp, _ := cmd.StdoutPipe()
	if err := cmd.Start(); err != nil {
		return nil, err
	}
	return &worker{cmd: cmd, in: in, out: bufio.NewReaderSize(outp, 1<<20), id: id}, nil
}

func (w *worker) recv() (workReply, error) {
	var r workReply
	line, err := w.out.ReadBytes('\n')
	if err != nil {
		return r, fmt.Errorf("worker %d ended unexpectedly: %v", w.id, err)
	}
	if err := json.Unmarshal(line, &r); err != nil {
		return r, fmt.Errorf("worker %d: bad reply: %v", w.id, err)
	}
	return r, nil
}

func (w *worker) send(it workItem) {
	b, _ := json.Marshal(it)
	w.in.Write(append(b, '\n'))
}

// exploreHarness explores the whole decision tree of one harness with a pool of worker processes that
// pull sub-trees (decision prefixes) from a shared queue; a worker that has spent its time slice on an
// item gives the unexplored remainder back. The union of the items is exactly the tree.
func exploreHarness(hs harnessSpec, tier string, known []string) *harnessResult {
	ts := hs.Tiers[tier]
	hr := &harnessResult{Spec: hs, Params: ts.Params, Unsupported: map[string]int{}, Panics: map[string]int{}, Reached: map[string]int{}}
	nw := ts.Workers
	if nw == 0 {
		nw = 8
	}
	if v := os.Getenv("VERIF_WORKERS"); v != "" {
		nw, _ = strconv.Atoi(v)
	}
	hr.Workers = nw
	t0 := time.Now()

	type event struct {
		w   *worker
		r   workReply
		err error
	}
	events := make(chan event, nw*2)
	var workers []*worker
	for k := 0; k < nw; k++ {
		w, err := startWorker(k, hs, ts.Params, known)
		if err != nil {
			hr.Errors = append(hr.Errors, err.Error())
			continue
		}
		workers = append(workers, w)
		go func(w *worker) {
			for {
				r, err := w.recv()
				events <- event{w, r, err}
				if err != nil {
					return
				}
			}
		}(w)
	}
	queue := [][]interp.PrefixDecision{{}}
	var idle []*worker
	busy := 0
	alive := len(workers)
	seenViol := map[string]bool{}
	funcs := map[string]funcInfo{}
	totalItems := 0
	dispatch := func() {
		for len(queue) > 0 && len(idle) > 0 {
			w := idle[len(idle)-1]
			idle = idle[:len(idle)-1]
			it := queue[len(queue)-1] // deepest first keeps the queue short
			queue = queue[:len(queue)-1]
			slice := 2500
			if totalItems < 6*nw {
				slice = 150 // spread the tree over the pool quickly
			}
			w.send(workItem{Cmd: "explore", Prefix: it, SliceMs: slice})
			busy++
			totalItems++
		}
	}
	finishing := false
	// a time budget per harness (VERIF_HARNESS_BUDGET_S; default 30 min in the quick tier, 3 h in the thorough
	// tier): a change to the code under test can make a harness many times more expensive than it is on the
	// unchanged tree; when the budget is used up the harness is abandoned and the run is inconclusive - a defined
	// outcome instead of being killed from outside
	budget := 1800
	if tier == "thorough" {
		budget = 3 * 3600
	}
	if v, err := strconv.Atoi(os.Getenv("VERIF_HARNESS_BUDGET_S")); err == nil && v > 0 {
		budget = v
	}
	deadline := time.After(time.Duration(budget) * time.Second)
	for alive > 0 {
		var ev event
		select {
		case ev = <-events:
		case <-deadline:
			hr.Errors = append(hr.Errors, fmt.Sprintf("time budget of %d s used up after %d work items (%d still queued): the exploration of this harness was abandoned", budget, totalItems, len(queue)))
			finishing = true
			for _, w := range workers {
				w.cmd.Process.Kill()
			}
			deadline = nil
			continue
		}
		if ev.err != nil {
			alive--
			if !finishing {
				hr.Errors = append(hr.Errors, ev.err.Error())
			}
			continue
		}
		r := ev.r
		switch {
		case r.Error != "":
			hr.Errors = append(hr.Errors, r.Error)
			if busy > 0 && !strings.HasPrefix(r.Error, "load:") && !strings.HasPrefix(r.Error, "no such harness") {
				busy--
			}
		case r.Ready:
			if r.LoadS > hr.LoadS {
				hr.LoadS = r.LoadS
			}
			idle = append(idle, ev.w)
		case r.Result != nil:
			busy--
			res := r.Result
			hr.Paths += res.Paths
			hr.Infeasible += res.Infeasible
			hr.Nontrivial += res.Nontrivial
			hr.Obligations += res.Obligations
			hr.Discharged += res.Discharged
			hr.Queries += res.Queries
			hr.SolverS += res.SolverTime.Seconds()
			hr.Steps += res.Steps
			for k, v := range res.Unsupported {
				hr.Unsupported[k] += v
			}
			for k, v := range res.Panics {
				hr.Panics[k] += v
			}
			for k, v := range res.Reached {
				hr.Reached[k] += v
			}
			for _, v := range res.Violations {
				key := v.Kind + "|" + v.Msg
				if !seenViol[key] {
					seenViol[key] = true
					hr.Violations = append(hr.Violations, v)
				}
			}
			if len(hr.Samples) < 6 {
				hr.Samples = append(hr.Samples, res.Samples...)
			}
			hr.PathSamples = append(hr.PathSamples, res.PathSamples...)
			queue = append(queue, res.Open...)
			idle = append(idle, ev.w)
		case r.Funcs != nil || finishing:
			for _, f := range r.Funcs {
				funcs[f.Name] = f
			}
		}
		if len(hr.Errors) > 0 && !finishing {
			// an engine failure makes the run inconclusive; stop early
			finishing = true
			for _, w := range workers {
				w.in.Close()
			}
			continue
		}
		if finishing {
			continue
		}
		dispatch()
		if busy == 0 && len(queue) == 0 && len(idle) == alive {
			finishing = true
			for _, w := range workers {
				w.send(workItem{Cmd: "finish"})
				w.in.Close()
			}
		}
	}
	for _, w := range workers {
		w.cmd.Wait()
	}
	hr.Items = totalItems
	for _, f := range funcs {
		hr.Funcs = append(hr.Funcs, f)
	}
	sort.Slice(hr.Funcs, func(i, j int) bool { return hr.Funcs[i].Name < hr.Funcs[j].Name })
	want := append([]string{"end"}, hs.Reach...)
	for _, lbl := range want {
		if hr.Reached[lbl] == 0 {
			hr.MissingReach = append(hr.MissingReach, lbl)
		}
	}
	hr.WallS = time.Since(t0).Seconds()
	return hr
}

// ---------------------------------------------------------------- native replay

type replayOutcome struct {
	TraceSum uint64   `json:"trace_sum"` // digest of the nd.Assert / nd.Reach calls of the native run
	TraceN   int      `json:"trace_n"`
	File     string   `json:"file"`
	Failed   []string `json:"failed"`   // assertion ids that failed natively
	Panic    string   `json:"panic"`    // uncaught panic (message + in-module frames)
	Assume   bool     `json:"assume"`   // the inputs violate an assumption of the harness
	Finished bool     `json:"finished"` // the harness ran to its end
	Hang     bool     `json:"hang"`     // the harness did not return within the hang limit
}

func relPkgDir(pkg string) string { return strings.TrimPrefix(pkg, "./") }

// pkgNameOf reads the package clause of the (real or virtual) package directory.
func pkgNameOf(pkg string) string {
	dir := filepath.Join(repoRoot, relPkgDir(pkg))
	files, _ := filepath.Glob(filepath.Join(dir, "*.go"))
	for v, r := range overlayFiles() {
		if filepath.Dir(v) == dir {
			files = append(files, r)
		}
	}
	for _, f := range files {
		b, err := os.ReadFile(f)
		if err != nil {
			continue
		}
		for _, line := range strings.Split(string(b), "\n") {
			if strings.HasPrefix(line, "package ") {
				return strings.Fields(line)[1]
			}
		}
	}
	return filepath.Base(dir)
}

// replayNative runs the harnesses named in docs with the ordinary Go toolchain (one `go test -overlay`
// build per package), nd.* reading the solver's values. It returns one outcome per replay file.
func replayNative(pkg string, files []string, race bool) (map[string]replayOutcome, string, error) {
	outcomes := map[string]replayOutcome{}
	if len(files) == 0 {
		return outcomes, "", nil
	}
	tmp, err := os.MkdirTemp(filepath.Join(verifRoot, ".cache"), "replay")
	if err != nil {
		os.MkdirAll(filepath.Join(verifRoot, ".cache"), 0o755)
		tmp, err = os.MkdirTemp(filepath.Join(verifRoot, ".cache"), "replay")
		if err != nil {
			return nil, "", err
		}
	}
	defer os.RemoveAll(tmp)
	names := map[string]bool{}
	for _, f := range files {
		var d replayDoc
		b, err := os.ReadFile(f)
		if err != nil {
			return nil, "", err
		}
		if err := json.Unmarshal(b, &d); err != nil {
			return nil, "", fmt.Errorf("%s: %v", f, err)
		}
		names[d.Harness] = true
	}
	var sb strings.Builder
	fmt.Fprintf(&sb, "//go:build verif\n\npackage %s\n\nimport (\n\t\"testing\"\n\n\t\"github.com/truora/minidyn/internal/nd\"\n)\n\nfunc TestVerifReplay(t *testing.T) {\n\tnd.ReplayAll(map[string]func(){\n", pkgNameOf(pkg))
	var hn []string
	for n := range names {
		hn = append(hn, n)
	}
	sort.Strings(hn)
	for _, n := range hn {
		fmt.Fprintf(&sb, "\t\t%q: %s,\n", n, n)
	}
	sb.WriteString("\t})\n}\n")
	testFile := filepath.Join(tmp, "replay_test.go")
	os.WriteFile(testFile, []byte(sb.String()), 0o644)
	ov := overlayFiles()
	ov[filepath.Join(repoRoot, relPkgDir(pkg), "zz_verif_replay_test.go")] = testFile
	ob, _ := json.Marshal(map[string]interface{}{"Replace": ov})
	ovFile := filepath.Join(tmp, "overlay.json")
	os.WriteFile(ovFile, ob, 0o644)
	listFile := filepath.Join(tmp, "list.txt")
	os.WriteFile(listFile, []byte(strings.Join(files, "\n")+"\n"), 0o644)
	// build the test binary (the package directory may exist in the overlay only, so `go test` cannot
	// chdir into it) and run it from the scratch directory
	bin := filepath.Join(tmp, "replay.test")
	args := []string{"test", "-c", "-o", bin, "-vet=off", "-tags", "verif", "-overlay", ovFile}
	if race {
		args = append(args, "-race")
	}
	args = append(args, pkg)
	cmd := exec.Command("go", args...)
	cmd.Dir = repoRoot
	cmd.Env = goEnv()
	out, err := cmd.CombinedOutput()
	if err != nil {
		return outcomes, string(out), fmt.Errorf("building the native replay failed: %v", err)
	}
	run := exec.Command(bin, "-test.run", "^TestVerifReplay$", "-test.v", "-test.timeout", "600s")
	run.Dir = tmp
	run.Env = append(goEnv(), "VERIF_REPLAY_LIST="+listFile)
	out, _ = run.CombinedOutput()
	txt := string(out)
	for _, line := range strings.Split(txt, "\n") {
		if i := strings.Index(line, "NDRESULT "); i >= 0 {
			var o replayOutcome
			if err := json.Unmarshal([]byte(line[i+9:]), &o); err == nil {
				outcomes[o.File] = o
			}
		}
	}
	if len(outcomes) != len(files) {
		// the test binary ended early: a fatal error of the Go runtime (stack overflow, concurrent map writes)
		// ends the process whatever recover() is in place. The files without a result are run one by one; a run
		// that ends in such a fatal error is that file's outcome.
		for _, f := range files {
			if _, ok := outcomes[f]; ok {
				continue
			}
			one := filepath.Join(tmp, "one.txt")
			os.WriteFile(one, []byte(f+"\n"), 0o644)
			r1 := exec.Command(bin, "-test.run", "^TestVerifReplay$", "-test.v", "-test.timeout", "600s")
			r1.Dir = tmp
			r1.Env = append(goEnv(), "VERIF_REPLAY_LIST="+one)
			o1, _ := r1.CombinedOutput()
			t1 := string(o1)
			got := false
			for _, line := range strings.Split(t1, "\n") {
				if i := strings.Index(line, "NDRESULT "); i >= 0 {
					var o replayOutcome
					if err := json.Unmarshal([]byte(line[i+9:]), &o); err == nil {
						outcomes[o.File] = o
						got = true
					}
				}
			}
			if !got {
				if i := strings.Index(t1, "fatal error: "); i >= 0 {
					outcomes[f] = replayOutcome{File: f, Failed: []string{}, Panic: firstLines(t1[i:], 1) + " (the Go runtime ended the process)"}
				}
			}
			txt += t1
		}
	}
	if len(outcomes) != len(files) {
		return outcomes, txt, fmt.Errorf("native replay produced %d of %d results", len(outcomes), len(files))
	}
	return outcomes, txt, nil
}

// reproduces reports whether the native outcome confirms the engine's violation.
func reproduces(v replayDoc, o replayOutcome) bool {
	if o.Assume && v.Kind != "assert" {
		return false
	}
	switch v.Kind {
	case "assert":
		// An assertion that failed natively failed before any later assumption was evaluated (a violated
		// assumption ends the native run): the engine checked it under the same, earlier path condition.
		for _, id := range o.Failed {
			if id == v.Msg {
				return true
			}
		}
		return false
	case "crash":
		if o.Hang {
			// the engine reports a deadlock as a crash; natively the run blocks for good
			return strings.Contains(v.Msg, "deadlock")
		}
		return o.Panic != ""
	case "race":
		for _, id := range o.Failed {
			if id == "DATA RACE" {
				return true
			}
		}
		return false
	}
	return false
}

// ---------------------------------------------------------------- the check

func loadChecks() (map[string]checkSpec, error) {
	var m map[string]checkSpec
	b, err := os.ReadFile(filepath.Join(verifRoot, "checks.json"))
	if err != nil {
		return nil, err
	}
	return m, json.Unmarshal(b, &m)
}

func loadKnown() knownFile {
	var k knownFile
	b, err := os.ReadFile(filepath.Join(verifRoot, "known_findings.json"))
	if err == nil {
		json.Unmarshal(b, &k)
	}
	return k
}

func checkMain(args []string) int {
	fs := flag.NewFlagSet("check", flag.ExitOnError)
	tier := fs.String("tier", envOr("VERIF_TIER", "quick"), "quick | thorough")
	only := fs.String("only", "", "run only this harness function")
	keep := fs.Bool("noevidence", false, "do not write the evidence file (debugging)")
	var prop string
	if len(args) > 0 && !strings.HasPrefix(args[0], "-") {
		prop, args = args[0], args[1:]
	}
	fs.Parse(args)
	if prop == "" && fs.NArg() > 0 {
		prop = fs.Arg(0)
	}
	if *tier != "thorough" {
		*tier = "quick"
	}
	seed, _ := strconv.Atoi(envOr("VERIF_SEED", "0"))
	t0 := time.Now()
	checks, err := loadChecks()
	if err != nil {
		fmt.Println("INCONCLUSIVE: cannot read checks.json:", err)
		return 2
	}
	spec, ok := checks[prop]
	if !ok {
		fmt.Println("INCONCLUSIVE: no check registered for", prop)
		return 2
	}
	os.MkdirAll(filepath.Join(verifRoot, ".cache"), 0o755)

	// 1. known findings: replay each stored witness natively; only those that still fail are "known".
	kf := loadKnown()
	var mine []knownFinding
	for _, k := range kf.Known {
		if k.Property == prop {
			mine = append(mine, k)
			continue
		}
		for _, p := range k.AlsoIn {
			if p == prop {
				mine = append(mine, k)
			}
		}
	}
	confirmed := []string{}
	var knownLines []string
	inconclusive := []string{}
	if len(mine) > 0 {
		byPkg := map[string][]string{}
		docs := map[string]replayDoc{}
		kfOf := map[string]knownFinding{}
		for _, k := range mine {
			path := filepath.Join(verifRoot, k.Witness)
			var d replayDoc
			b, err := os.ReadFile(path)
			if err != nil || json.Unmarshal(b, &d) != nil {
				inconclusive = append(inconclusive, "known finding "+k.ID+": unreadable witness "+k.Witness)
				continue
			}
			byPkg[d.Pkg] = append(byPkg[d.Pkg], path)
			docs[path] = d
			kfOf[path] = k
		}
		var mu sync.Mutex
		var wg sync.WaitGroup
		for pkg, files := range byPkg {
			wg.Add(1)
			go func(pkg string, files []string) {
				defer wg.Done()
				outs, txt, err := replayNative(pkg, files, false)
				mu.Lock()
				defer mu.Unlock()
				if err != nil {
					inconclusive = append(inconclusive, fmt.Sprintf("replay of known-finding witnesses in %s failed: %v\n%s", pkg, err, tailOf(txt, 30)))
					return
				}
				for _, f := range files {
					if reproduces(docs[f], outs[f]) {
						confirmed = append(confirmed, kfOf[f].ID)
						knownLines = append(knownLines, fmt.Sprintf("KNOWN-FINDING: property=%s %s [%s]", prop, kfOf[f].What, kfOf[f].ID))
					} else {
						fmt.Printf("note: known finding %s no longer reproduces; its region is checked like any other\n", kfOf[f].ID)
					}
				}
			}(pkg, files)
		}
		wg.Wait()
	}
	sort.Strings(confirmed)
	sort.Strings(knownLines)
	for _, l := range knownLines {
		fmt.Println(l)
	}
	if len(inconclusive) > 0 {
		// the witnesses of the known findings could not be replayed at all (the native build failed):
		// which findings still hold is unknown, so nothing that follows could be classified
		for _, l := range inconclusive {
			fmt.Println("INCONCLUSIVE:", l)
		}
		return 2
	}

	// 3. (after every harness) replay its counterexamples against the real build. Once a violation is
	// confirmed the remaining harnesses are not explored (VERIF_ALL=1 explores them all): the check's verdict
	// is already "violated", and a change that breaks the property can also make the larger harnesses far
	// more expensive than they are on the unchanged tree.
	nViol := 0
	var violLines []string
	var violSamples []interface{}
	replayOf := func(hrs []*harnessResult) {
		type pending struct {
			doc  replayDoc
			path string
		}
		byPkg := map[string][]pending{}
		for _, hr := range hrs {
			for _, v := range hr.Violations {
				d := replayDoc{Property: prop, Harness: hr.Spec.Fn, Pkg: hr.Spec.Pkg, Kind: v.Kind, Msg: v.Msg, Values: v.Values, Params: hr.Params, Known: confirmed, Model: strings.Join(strings.Fields(v.Model), " ")}
				if v.Par {
					d.Stress = 4000
					if v.Kind == "crash" && strings.Contains(v.Msg, "deadlock") {
						// a deadlock needs one particular interleaving of two short calls: many cheap rounds; the
						// first round that blocks ends the replay after the hang limit
						d.Stress = 300000
					}
				}
				b, _ := json.MarshalIndent(d, "", " ")
				h := sha256.Sum256(b)
				dir := filepath.Join(verifRoot, "replays", prop)
				os.MkdirAll(dir, 0o755)
				path := filepath.Join(dir, hr.Spec.Fn+"-"+hex.EncodeToString(h[:6])+".json")
				os.WriteFile(path, b, 0o644)
				byPkg[hr.Spec.Pkg] = append(byPkg[hr.Spec.Pkg], pending{d, path})
			}
		}
		for pkg, ps := range byPkg {
			var files []string
			for _, p := range ps {
				files = append(files, p.path)
			}
			// data-race witnesses are confirmed by the race detector, one `go test -race` run each
			var plain []string
			outs := map[string]replayOutcome{}
			failed := false
			for _, p := range ps {
				if p.doc.Kind != "race" {
					plain = append(plain, p.path)
					continue
				}
				o, txt, _ := replayNative(pkg, []string{p.path}, true)
				ro := o[p.path]
				ro.File = p.path
				if strings.Contains(txt, "WARNING: DATA RACE") {
					ro.Failed = append(ro.Failed, "DATA RACE")
				}
				outs[p.path] = ro
			}
			o2, txt, err := replayNative(pkg, plain, false)
			if err != nil {
				inconclusive = append(inconclusive, fmt.Sprintf("native replay in %s failed: %v\n%s", pkg, err, tailOf(txt, 40)))
				failed = true
			}
			for k, v := range o2 {
				outs[k] = v
			}
			if failed {
				continue
			}
			_ = files
			for _, p := range ps {
				o := outs[p.path]
				if reproduces(p.doc, o) {
					nViol++
					violLines = append(violLines, fmt.Sprintf("VIOLATION property=%s replay=%s", prop, p.path))
					fmt.Printf("  counterexample: harness=%s %s=%q values=%v\n", p.doc.Harness, p.doc.Kind, p.doc.Msg, compactValues(p.doc.Values))
					if o.Panic != "" {
						fmt.Printf("  native panic: %s\n", firstLines(o.Panic, 6))
					}
					violSamples = append(violSamples, map[string]interface{}{"harness": p.doc.Harness, "kind": p.doc.Kind, "id": p.doc.Msg, "values": p.doc.Values, "replay": p.path})
				} else {
					inconclusive = append(inconclusive, fmt.Sprintf("ENGINE-MISMATCH: %s %s=%q was not reproduced by the native build (replay %s; native: failed=%v panic=%q assume=%v)", p.doc.Harness, p.doc.Kind, p.doc.Msg, p.path, o.Failed, firstLines(o.Panic, 2), o.Assume))
				}
			}
		}
	}

	// 2. explore every harness of this property
	var results []*harnessResult
	for hi, hs := range spec.Harnesses {
		if *only != "" && hs.Fn != *only {
			continue
		}
		ts, ok := hs.Tiers[*tier]
		if !ok || ts.Skip {
			continue
		}
		hr := exploreHarness(hs, *tier, confirmed)
		results = append(results, hr)
		fmt.Printf("harness %s %v: paths=%d obligations=%d discharged=%d queries=%d solver=%.1fs wall=%.1fs items=%d violations=%d\n",
			hs.Fn, ts.Params, hr.Paths, hr.Obligations, hr.Discharged, hr.Queries, hr.SolverS, hr.WallS, hr.Items, len(hr.Violations))
		for _, e := range hr.Errors {
			inconclusive = append(inconclusive, hs.Fn+": "+firstLines(e, 12))
		}
		for k, n := range hr.Unsupported {
			inconclusive = append(inconclusive, fmt.Sprintf("%s: %d path(s) aborted: %s", hs.Fn, n, k))
		}
		for _, l := range hr.MissingReach {
			inconclusive = append(inconclusive, fmt.Sprintf("%s: reach witness %q was not reached by any feasible path (vacuous harness?)", hs.Fn, l))
		}
		replayOf([]*harnessResult{hr})
		if nViol > 0 && os.Getenv("VERIF_ALL") == "" {
			skipped := 0
			for _, rest := range spec.Harnesses[hi+1:] {
				if ts2, ok := rest.Tiers[*tier]; ok && !ts2.Skip && (*only == "" || rest.Fn == *only) {
					skipped++
				}
			}
			if skipped > 0 {
				fmt.Printf("note: a violation is confirmed; %d further harness(es) of this check were not explored (VERIF_ALL=1 explores all)\n", skipped)
			}
			break
		}
	}

	// 3. translator cross-check: sampled violation-free paths, made concrete by the solver, are run natively
	cross := crossCheck(prop, results, confirmed)
	if cross.Replayed > 0 || len(cross.Mismatches) > 0 || cross.Error != "" {
		fmt.Printf("cross-check: %d sampled paths replayed natively, %d identical (same assertions and reach labels executed, none failed), %d mismatches %s\n",
			cross.Replayed, cross.Identical, len(cross.Mismatches), cross.Error)
	}
	for _, mm := range cross.Mismatches {
		fmt.Println("SAMPLE-MISMATCH:", mm)
		if os.Getenv("VERIF_STRICT_SAMPLES") != "" {
			inconclusive = append(inconclusive, "SAMPLE-MISMATCH: "+mm)
		}
	}

	// 4. evidence
	wall := time.Since(t0).Seconds()
	if !*keep {
		writeEvidence(prop, *tier, seed, spec, results, confirmed, nViol, violSamples, inconclusive, wall, cross)
	}
	sort.Strings(violLines)
	for _, l := range violLines {
		fmt.Println(l)
	}
	if nViol > 0 {
		for _, l := range inconclusive {
			fmt.Println("note (also inconclusive):", l)
		}
		return 1
	}
	if len(inconclusive) > 0 {
		for _, l := range inconclusive {
			fmt.Println("INCONCLUSIVE:", l)
		}
		return 2
	}
	fmt.Printf("OK property=%s tier=%s: held on everything explored (%.1fs)\n", prop, *tier, wall)
	return 0
}

func tailOf(s string, n int) string {
	lines := strings.Split(strings.TrimRight(s, "\n"), "\n")
	if len(lines) > n {
		lines = lines[len(lines)-n:]
	}
	return strings.Join(lines, "\n")
}

func compactValues(v map[string]uint64) string {
	keys := make([]string, 0, len(v))
	for k := range v {
		keys = append(keys, k)
	}
	sort.Strings(keys)
	var sb strings.Builder
	for _, k := range keys {
		fmt.Fprintf(&sb, "%s=%d ", strings.TrimSuffix(k, "#0"), v[k])
	}
	return strings.TrimSpace(sb.String())
}

// crossResult: outcome of the native replay of sampled paths.
type crossResult struct {
	Replayed   int      `json:"sampled_paths_replayed_natively"`
	Identical  int      `json:"identical"`
	Mismatches []string `json:"mismatches"`
	Error      string   `json:"error,omitempty"`
	What       string   `json:"what"`
}

// crossCheck writes the sampled paths of every harness as replay files, runs them natively (one build per
// package) and compares: the native run must finish, fail no assertion, violate no assumption and execute
// the same multiset of nd.Assert / nd.Reach calls as the engine did on that path.
func crossCheck(prop string, results []*harnessResult, known []string) crossResult {
	cr := crossResult{Mismatches: []string{}, What: "differential test of the engine against the compiled code: completed violation-free paths (the 1st, 2nd, 4th, 8th ... of every worker) are made concrete with a solver model and the harness is run natively on those inputs; identical = it finished, no assertion failed, no assumption was violated and the same multiset of nd.Assert / nd.Reach calls was executed"}
	if os.Getenv("VERIF_SAMPLES") == "0" {
		return cr
	}
	dir := filepath.Join(verifRoot, "replays", "samples", prop)
	os.RemoveAll(dir)
	os.MkdirAll(dir, 0o755)
	byPkg := map[string][]string{}
	docs := map[string]replayDoc{}
	for hi, hr := range results {
		for i, ps := range hr.PathSamples {
			d := replayDoc{Property: prop, Harness: hr.Spec.Fn, Pkg: hr.Spec.Pkg, Kind: "sample", Values: ps.Values, Params: hr.Params, Known: known, TraceSum: ps.Sum, TraceN: ps.N}
			if d.Known == nil {
				d.Known = []string{}
			}
			b, _ := json.MarshalIndent(d, "", " ")
			path := filepath.Join(dir, fmt.Sprintf("%s-%d-%03d.json", hr.Spec.Fn, hi, i))
			os.WriteFile(path, b, 0o644)
			byPkg[hr.Spec.Pkg] = append(byPkg[hr.Spec.Pkg], path)
			docs[path] = d
		}
	}
	var mu sync.Mutex
	var wg sync.WaitGroup
	for pkg, files := range byPkg {
		wg.Add(1)
		go func(pkg string, files []string) {
			defer wg.Done()
			outs, txt, err := replayNative(pkg, files, false)
			mu.Lock()
			defer mu.Unlock()
			if err != nil {
				logf := filepath.Join(verifRoot, ".cache", "crosscheck_"+strings.ReplaceAll(relPkgDir(pkg), "/", "_")+".log")
				os.WriteFile(logf, []byte(txt), 0o644)
				cr.Error += fmt.Sprintf("(native build/run in %s failed: %v; output in %s) ", pkg, err, logf)
				return
			}
			for _, f := range files {
				d, o := docs[f], outs[f]
				cr.Replayed++
				switch {
				case !o.Finished || o.Panic != "" || o.Assume || o.Hang || len(o.Failed) > 0:
					cr.Mismatches = append(cr.Mismatches, fmt.Sprintf("%s %s: native run finished=%v failed=%v assume-violated=%v panic=%q", d.Harness, filepath.Base(f), o.Finished, o.Failed, o.Assume, firstLines(o.Panic, 2)))
				case o.TraceSum != d.TraceSum || o.TraceN != d.TraceN:
					cr.Mismatches = append(cr.Mismatches, fmt.Sprintf("%s %s: the engine executed %d nd.Assert/nd.Reach calls (digest %x), the native run %d (digest %x)", d.Harness, filepath.Base(f), d.TraceN, d.TraceSum, o.TraceN, o.TraceSum))
				default:
					cr.Identical++
				}
			}
		}(pkg, files)
	}
	wg.Wait()
	sort.Strings(cr.Mismatches)
	return cr
}

func writeEvidence(prop, tier string, seed int, spec checkSpec, results []*harnessResult, confirmed []string, nViol int, violSamples []interface{}, inconclusive []string, wall float64, cross crossResult) {
	paths, nontriv, obl, dis, queries := 0, 0, 0, 0, 0
	solver := 0.0
	var perHarness []interface{}
	var samples []interface{}
	funcSet := map[string]funcInfo{}
	for _, hr := range results {
		paths += hr.Paths
		nontriv += hr.Nontrivial
		obl += hr.Obligations
		dis += hr.Discharged
		queries += hr.Queries
		solver += hr.SolverS
		perHarness = append(perHarness, map[string]interface{}{
			"harness": hr.Spec.Fn, "package": hr.Spec.Pkg, "what": hr.Spec.What, "params": hr.Params,
			"paths": hr.Paths, "paths_ended_by_assumption": hr.Infeasible, "obligations": hr.Obligations, "discharged": hr.Discharged,
			"feasibility_and_assertion_queries": hr.Queries, "solver_s": round2(hr.SolverS), "wall_s": round2(hr.WallS), "load_and_ssa_build_s": round2(hr.LoadS),
			"ssa_instructions_executed": hr.Steps, "work_items": hr.Items, "workers": hr.Workers,
			"reach_witnesses": hr.Reached, "uncaught_panics": hr.Panics, "unsupported_aborts": hr.Unsupported,
			"violations": len(hr.Violations),
		})
		for _, s := range hr.Samples {
			if len(samples) < 8 {
				samples = append(samples, map[string]interface{}{"harness": hr.Spec.Fn, "path": s})
			}
		}
		for _, f := range hr.Funcs {
			funcSet[f.Name] = f
		}
	}
	samples = append(samples, violSamples...)
	var funcs []interface{}
	names := make([]string, 0, len(funcSet))
	for n := range funcSet {
		names = append(names, n)
	}
	sort.Strings(names)
	hashes := map[string]string{}
	for _, n := range names {
		f := funcSet[n]
		if _, ok := hashes[f.File]; !ok {
			hashes[f.File] = fileHash(f.File)
		}
		funcs = append(funcs, map[string]interface{}{"name": f.Name, "ssa_instructions": f.Instrs, "file": strings.TrimPrefix(f.File, repoRoot+"/"), "file_sha256_8": hashes[f.File]})
	}
	if len(samples) == 0 {
		samples = append(samples, "no path was explored")
	}
	ev := map[string]interface{}{
		"property_id": prop, "tier": tier, "seed": seed, "level": "other", "wall_s": round2(wall), "violations": nViol,
		"assumptions": append(append([]string{}, spec.Assumptions...),
			"engine: own symbolic executor for go/ssa (fork of x/tools/go/ssa/interp); library models listed in DESIGN.md 2.5 are trusted",
			"solver: z3 4.8.12 over one pipe per worker; any answer other than sat/unsat makes the run inconclusive",
			"every counterexample is replayed against the native build before it is reported"),
		"coverage": map[string]interface{}{
			"explanation": "Bounded symbolic execution of the real code (SSA built from /repo's working tree on this run) + SMT. " +
				"Every feasible path of each harness within the stated bounds was executed; each assertion became the query pathcond AND NOT(assertion); " +
				"unsat = holds for every value on that path. " + spec.Title + ". Bounds: " + spec.Bounds + ". Outside the claim: " + spec.Outside,
			"evaluations": paths, "distinct_nontrivial": nontriv,
			"rule":        "one evaluation = one feasible path of a harness (a distinct decision sequence, so all are distinct); non-trivial = the path's condition constrains at least one symbolic input (a solver-decided branch) or the path executed an assertion whose condition is a solver term",
			"obligations": obl, "discharged": dis,
			"solver_queries": queries, "solver_s": round2(solver),
			"exhaustive":          len(inconclusive) == 0,
			"harnesses":           perHarness,
			"functions_encoded":   funcs,
			"known_findings_confirmed_and_excluded": confirmed,
			"inconclusive":        inconclusive,
			"translator_cross_check": cross,
			"samples":             samples,
			"checker_cmd":         "/verif/bin/symgo check " + prop + " --tier " + tier,
			"trusted_base":        []string{"symgo engine + library models", "z3 4.8.12", "go/ssa builder (x/tools v0.29.0)", "reference models in /verif/harness/vspec"},
		},
	}
	os.MkdirAll(filepath.Join(verifRoot, "evidence"), 0o755)
	b, _ := json.MarshalIndent(ev, "", " ")
	os.WriteFile(filepath.Join(verifRoot, "evidence", prop+".json"), append(b, '\n'), 0o644)
}

func round2(f float64) float64 { return float64(int64(f*100+0.5)) / 100 }

// replayMain: `symgo replay <file>` re-runs one stored counterexample natively.
func replayMain(args []string) int {
	if len(args) != 1 {
		fmt.Println("usage: symgo replay <replay.json>")
		return 2
	}
	path, _ := filepath.Abs(args[0])
	var d replayDoc
	b, err := os.ReadFile(path)
	if err != nil || json.Unmarshal(b, &d) != nil {
		fmt.Println("cannot read", path)
		return 2
	}
	outs, txt, err := replayNative(d.Pkg, []string{path}, d.Kind == "race")
	if err != nil {
		fmt.Println(tailOf(txt, 60))
		fmt.Println("replay failed:", err)
		return 2
	}
	o := outs[path]
	fmt.Printf("harness=%s %s=%q native: failed=%v panic=%q assume-violated=%v\n", d.Harness, d.Kind, d.Msg, o.Failed, firstLines(o.Panic, 8), o.Assume)
	if reproduces(d, o) {
		fmt.Printf("VIOLATION property=%s replay=%s\n", d.Property, path)
		return 1
	}
	fmt.Println("not reproduced")
	return 0
}

package main

import (
	"bufio"
	"encoding/json"
	"flag"
	"fmt"
	"os"
	"runtime/debug"
	"sort"
	"strings"
	"time"

	"golang.org/x/tools/go/ssa"

	"symgo/interp"
)

// workItem is one request to a worker process.
type workItem struct {
	Cmd     string                  `json:"cmd"` // "explore" | "finish"
	Prefix  []interp.PrefixDecision `json:"prefix"`
	SliceMs int                     `json:"slice_ms"`
}

type funcInfo = interp.FuncInfo

type workReply struct {
	Ready  bool           `json:"ready,omitempty"`
	LoadS  float64        `json:"load_s,omitempty"`
	Error  string         `json:"error,omitempty"`
	Result *interp.Result `json:"result,omitempty"`
	Funcs  []funcInfo     `json:"funcs,omitempty"`
}

// workerMain: load the tree once, then explore the sub-trees handed over on stdin.
func workerMain(args []string) {
	fs := flag.NewFlagSet("worker", flag.ExitOnError)
	pkg := fs.String("pkg", "", "package pattern")
	fnName := fs.String("fn", "", "harness function")
	params := fs.String("params", "{}", "JSON harness parameters")
	known := fs.String("known", "", "comma separated confirmed known findings")
	stepLimit := fs.Int64("steplimit", 20_000_000, "SSA instructions per path")
	samples := fs.Int("samples", 0, "completed paths this worker makes concrete for the native cross-check")
	fs.Parse(args)

	out := bufio.NewWriter(os.Stdout)
	enc := json.NewEncoder(out)
	reply := func(r workReply) { enc.Encode(r); out.Flush() }

	t0 := time.Now()
	l, err := load(*pkg)
	if err != nil {
		reply(workReply{Error: "load: " + err.Error()})
		return
	}
	hp, fn := l.harness(*fnName)
	if fn == nil {
		reply(workReply{Error: "no such harness function: " + *fnName})
		return
	}
	m := interp.NewMachine(l.prog, []*ssa.Package{hp}, nil)
	m.StepLimit = *stepLimit
	m.MaxSamples = *samples
	p := map[string]int{}
	json.Unmarshal([]byte(*params), &p)
	m.SetParams(p)
	k := map[string]bool{}
	for _, id := range strings.Split(*known, ",") {
		if id != "" {
			k[id] = true
		}
	}
	m.SetKnown(k)
	reply(workReply{Ready: true, LoadS: time.Since(t0).Seconds()})

	in := bufio.NewReaderSize(os.Stdin, 1<<20)
	touched := map[string]funcInfo{}
	for {
		line, err := in.ReadBytes('\n')
		if err != nil {
			return
		}
		var it workItem
		if err := json.Unmarshal(line, &it); err != nil {
			reply(workReply{Error: "bad work item: " + err.Error()})
			continue
		}
		if it.Cmd == "finish" {
			reply(workReply{Funcs: describeFuncs(l.prog, touched)})
			m.Close()
			return
		}
		m.Slice = time.Duration(it.SliceMs) * time.Millisecond
		var res *interp.Result
		func() {
			defer func() {
				if r := recover(); r != nil {
					reply(workReply{Error: fmt.Sprintf("engine failure: %v\n%s", r, firstLines(string(debug.Stack()), 30))})
					res = nil
				}
			}()
			res = m.ExploreItem(fn, it.Prefix)
		}()
		if res == nil {
			return // the solver stack is in an unknown state: this worker is done
		}
		for f, info := range res.FuncsTouched {
			touched[f] = info
		}
		res.FuncsTouched = nil
		reply(workReply{Result: res})
	}
}

func firstLines(s string, n int) string {
	parts := strings.SplitN(s, "\n", n+1)
	if len(parts) > n {
		parts = parts[:n]
	}
	return strings.Join(parts, "\n")
}

func describeFuncs(prog *ssa.Program, touched map[string]funcInfo) []funcInfo {
	out := []funcInfo{}
	for _, f := range touched {
		out = append(out, f)
	}
	sort.Slice(out, func(i, j int) bool { return out[i].Name < out[j].Name })
	return out
}

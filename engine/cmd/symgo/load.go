package main

import (
	"go/ast"
	"go/parser"
	"go/token"
	"crypto/sha256"
	"encoding/hex"
	"fmt"
	"os"
	"path/filepath"
	"sort"
	"strings"

	"golang.org/x/tools/go/packages"
	"golang.org/x/tools/go/ssa"
	"golang.org/x/tools/go/ssa/ssautil"
)

func envOr(k, d string) string {
	if v := os.Getenv(k); v != "" {
		return v
	}
	return d
}

var (
	verifRoot = envOr("VERIF_ROOT", "/verif")
	repoRoot  = envOr("VERIF_REPO", "/repo")
)

// harnessDirs maps a directory under /verif/harness to the package directory (relative to the
// repository root) into which its files are injected. Nothing is ever written into the repository:
// the files exist only in the go/packages overlay and in the `go test -overlay` of the replay.
var harnessDirs = map[string]string{
	"nd":          "internal/nd",
	"vspec":       "internal/vspec",
	"core":        "core",
	"language":    "interpreter/language",
	"interpreter": "interpreter",
	"v2":          "aws-v2/client",
	"v1":          "aws-v1/client",
	"both":        "internal/vboth",
}

// overlayFiles returns virtual path -> real path for every harness file.
func overlayFiles() map[string]string {
	m := map[string]string{}
	for d, target := range harnessDirs {
		files, _ := filepath.Glob(filepath.Join(verifRoot, "harness", d, "*.go"))
		sort.Strings(files)
		for _, f := range files {
			base := filepath.Base(f)
			name := base
			if d != "nd" && d != "vspec" && d != "both" {
				name = "zz_verif_" + base
			}
			m[filepath.Join(repoRoot, target, name)] = f
		}
	}
	return m
}

func goEnv() []string {
	return append(os.Environ(), "GOFLAGS=-mod=mod", "GOPROXY=off", "GOSUMDB=off", "GOTOOLCHAIN=local")
}

type loaded struct {
	prog *ssa.Program
	pkgs []*ssa.Package
}

// load builds SSA for pattern (and its dependencies) from the repository's current working tree.
func load(pattern string) (*loaded, error) {
	ov := map[string][]byte{}
	for v, r := range overlayFiles() {
		c, err := os.ReadFile(r)
		if err != nil {
			return nil, err
		}
		ov[v] = c
	}
	cfg := &packages.Config{Mode: packages.LoadAllSyntax, Dir: repoRoot, Overlay: ov, BuildFlags: []string{"-tags=verif"}, Env: goEnv(), ParseFile: parseFile}
	pkgs, err := packages.Load(cfg, pattern, "runtime")
	if err != nil {
		return nil, err
	}
	var errs []string
	packages.Visit(pkgs, nil, func(p *packages.Package) {
		for _, e := range p.Errors {
			errs = append(errs, e.Error())
		}
		if p.IllTyped && len(p.Errors) == 0 {
			errs = append(errs, p.PkgPath+": ill-typed")
		}
	})
	if len(errs) > 0 {
		if len(errs) > 10 {
			errs = errs[:10]
		}
		return nil, fmt.Errorf("the tree (with the harness overlay) does not compile:\n  %s", strings.Join(errs, "\n  "))
	}
	prog, spkgs := ssautil.AllPackages(pkgs, ssa.InstantiateGenerics)
	// function bodies: the module under test now, dependency packages on first use (interp builds them)
	for _, p := range prog.AllPackages() {
		if strings.HasPrefix(p.Pkg.Path(), "github.com/truora/minidyn") || p.Pkg.Path() == "runtime" || p.Pkg.Path() == "errors" {
			p.Build()
		}
	}
	return &loaded{prog: prog, pkgs: spkgs}, nil
}

// keepBodies: function bodies are kept (and so can be executed symbolically) for the module under test,
// the harness overlay, and the small helper packages the code under test really calls; every other
// dependency file is parsed with its function bodies removed, which keeps type information intact but
// shrinks load time and the live heap several-fold. A call into a stripped function aborts the path as
// "unsupported" (inconclusive), it can never make a check pass.
func keepBodies(filename string) bool {
	if strings.HasPrefix(filename, repoRoot+"/") {
		return true
	}
	dir := filepath.Dir(filename)
	has := func(sub string) bool { return strings.Contains(filename, sub) }
	switch {
	case has("/aws-sdk-go-v2@") && strings.HasSuffix(dir, "/aws"):
		return true
	case has("/aws-sdk-go-v2/service/dynamodb@") && strings.HasSuffix(dir, "/types"):
		return true
	case has("/smithy-go@") && (strings.HasSuffix(filepath.Base(dir), "smithy-go@"+afterAt(dir)) || strings.HasSuffix(dir, "/ptr")):
		return true
	case has("/aws-sdk-go@"):
		for _, d := range []string{"/aws", "/aws/awserr", "/aws/awsutil", "/aws/request", "/service/dynamodb"} {
			if strings.HasSuffix(dir, d) {
				return true
			}
		}
		return false
	}
	if strings.HasSuffix(filename, "/src/fmt/errors.go") {
		return true // wrapError.Error/Unwrap
	}
	if i := strings.Index(filename, "/src/"); i >= 0 && !has("/pkg/mod/") {
		pkg := filepath.Dir(filename[i+5:])
		switch pkg {
		case "errors", "strings", "sort", "strconv", "bytes", "unicode", "unicode/utf8", "math", "math/bits",
			"sync", "sync/atomic", "context", "slices", "maps", "cmp", "iter", "internal/stringslite", "internal/bytealg", "internal/itoa",
			"encoding/hex", "encoding/base64", "encoding/binary", "unicode/utf16", "path", "container/list", "container/heap":
			return true
		}
	}
	return false
}

func afterAt(dir string) string {
	if i := strings.LastIndex(dir, "@"); i >= 0 {
		return dir[i+1:]
	}
	return ""
}

func parseFile(fset *token.FileSet, filename string, src []byte) (*ast.File, error) {
	f, err := parser.ParseFile(fset, filename, src, parser.SkipObjectResolution)
	if err != nil || keepBodies(filename) {
		return f, err
	}
	for _, d := range f.Decls {
		if fd, ok := d.(*ast.FuncDecl); ok && fd.Body != nil {
			// the engine turns this panic into an "unsupported" abort of the path
			fd.Body = &ast.BlockStmt{Lbrace: fd.Body.Lbrace, Rbrace: fd.Body.Rbrace, List: []ast.Stmt{&ast.ExprStmt{X: &ast.CallExpr{
				Fun: ast.NewIdent("panic"), Args: []ast.Expr{&ast.BasicLit{Kind: token.STRING, Value: `"symgo: stripped function body"`}}}}}}
		}
	}
	// imports that only the removed bodies used must go, or the package would be ill-typed
	used := map[string]bool{}
	ast.Inspect(f, func(n ast.Node) bool {
		if se, ok := n.(*ast.SelectorExpr); ok {
			if id, ok := se.X.(*ast.Ident); ok {
				used[id.Name] = true
			}
		}
		return true
	})
	for _, im := range f.Imports {
		if im.Name != nil {
			if im.Name.Name != "_" && im.Name.Name != "." && !used[im.Name.Name] {
				im.Name.Name = "_"
			}
			continue
		}
		path := strings.Trim(im.Path.Value, "\"")
		keep := false
		for _, c := range importNameCandidates(path) {
			if used[c] {
				keep = true
			}
		}
		if !keep {
			im.Name = ast.NewIdent("_")
		}
	}
	return f, nil
}

func importNameCandidates(path string) []string {
	parts := strings.Split(path, "/")
	var out []string
	add := func(s string) {
		out = append(out, s, strings.TrimSuffix(s, "-go"), strings.TrimPrefix(s, "go-"), strings.ReplaceAll(s, "-", "_"), strings.ReplaceAll(s, "-", ""))
		if i := strings.Index(s, "."); i > 0 {
			out = append(out, s[:i])
		}
	}
	last := parts[len(parts)-1]
	add(last)
	if len(parts) > 1 && len(last) > 1 && last[0] == 'v' && last[1] >= '0' && last[1] <= '9' {
		add(parts[len(parts)-2])
	}
	return out
}

func (l *loaded) harness(name string) (*ssa.Package, *ssa.Function) {
	for _, p := range l.pkgs {
		if p != nil && p.Func(name) != nil {
			return p, p.Func(name)
		}
	}
	return nil, nil
}

func fileHash(path string) string {
	b, err := os.ReadFile(path)
	if err != nil {
		return ""
	}
	h := sha256.Sum256(b)
	return hex.EncodeToString(h[:8])
}

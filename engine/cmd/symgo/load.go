package main

import (
	"crypto/sha256"
	"encoding/hex"
	"fmt"
	"os"
	"path/filepath"
	"sort"
	"strings"

	"golang.org/x/tools/go/packages"
	"golang.org/x/tools/go/ssa"
	"golang.org/x/tools/go/ssa/ssautil"
)

func envOr(k, d string) string {
	if v := os.Getenv(k); v != "" {
		return v
	}
	return d
}

var (
	verifRoot = envOr("VERIF_ROOT", "/verif")
	repoRoot  = envOr("VERIF_REPO", "/repo")
)

// harnessDirs maps a directory under /verif/harness to the package directory (relative to the
// repository root) into which its files are injected. Nothing is ever written into the repository:
// the files exist only in the go/packages overlay and in the `go test -overlay` of the replay.
var harnessDirs = map[string]string{
	"nd":          "internal/nd",
	"vspec":       "internal/vspec",
	"core":        "core",
	"language":    "interpreter/language",
	"interpreter": "interpreter",
	"v2":          "aws-v2/client",
	"v1":          "aws-v1/client",
	"both":        "internal/vboth",
}

// overlayFiles returns virtual path -> real path for every harness file.
func overlayFiles() map[string]string {
	m := map[string]string{}
	for d, target := range harnessDirs {
		files, _ := filepath.Glob(filepath.Join(verifRoot, "harness", d, "*.go"))
		sort.Strings(files)
		for _, f := range files {
			base := filepath.Base(f)
			name := base
			if d != "nd" && d != "vspec" && d != "both" {
				name = "zz_verif_" + base
			}
			m[filepath.Join(repoRoot, target, name)] = f
		}
	}
	return m
}

func goEnv() []string {
	return append(os.Environ(), "GOFLAGS=-mod=mod", "GOPROXY=off", "GOSUMDB=off", "GOTOOLCHAIN=local")
}

type loaded struct {
	prog *ssa.Program
	pkgs []*ssa.Package
}

// load builds SSA for pattern (and its dependencies) from the repository's current working tree.
func load(pattern string) (*loaded, error) {
	ov := map[string][]byte{}
	for v, r := range overlayFiles() {
		c, err := os.ReadFile(r)
		if err != nil {
			return nil, err
		}
		ov[v] = c
	}
	cfg := &packages.Config{Mode: packages.LoadAllSyntax, Dir: repoRoot, Overlay: ov, BuildFlags: []string{"-tags=verif"}, Env: goEnv()}
	pkgs, err := packages.Load(cfg, pattern, "runtime")
	if err != nil {
		return nil, err
	}
	var errs []string
	packages.Visit(pkgs, nil, func(p *packages.Package) {
		for _, e := range p.Errors {
			errs = append(errs, e.Error())
		}
	})
	if len(errs) > 0 {
		if len(errs) > 10 {
			errs = errs[:10]
		}
		return nil, fmt.Errorf("the tree (with the harness overlay) does not compile:\n  %s", strings.Join(errs, "\n  "))
	}
	prog, spkgs := ssautil.AllPackages(pkgs, ssa.InstantiateGenerics)
	prog.Build()
	return &loaded{prog: prog, pkgs: spkgs}, nil
}

func (l *loaded) harness(name string) (*ssa.Package, *ssa.Function) {
	for _, p := range l.pkgs {
		if p != nil && p.Func(name) != nil {
			return p, p.Func(name)
		}
	}
	return nil, nil
}

func fileHash(path string) string {
	b, err := os.ReadFile(path)
	if err != nil {
		return ""
	}
	h := sha256.Sum256(b)
	return hex.EncodeToString(h[:8])
}

// symgo: bounded symbolic execution of Go SSA + SMT, for the minidyn properties.
//
//	symgo check <PROPERTY> [--tier quick|thorough]   decide a property (reads /verif/checks.json)
//	symgo replay <file.json>                         re-run one counterexample against the native build
//	symgo run -pkg ./core -fn VerifX [-p k=v,...]    explore one harness in this process (debugging)
//	symgo worker ...                                 (internal) exploration worker
package main

import (
	"runtime"
	"runtime/pprof"
	"flag"
	"fmt"
	"os"
	"strconv"
	"strings"
	"time"

	"golang.org/x/tools/go/ssa"

	"symgo/interp"
)

func main() {
	if len(os.Args) < 2 {
		fmt.Println("usage: symgo check|replay|run|worker ...")
		os.Exit(2)
	}
	switch os.Args[1] {
	case "check":
		os.Exit(checkMain(os.Args[2:]))
	case "replay":
		os.Exit(replayMain(os.Args[2:]))
	case "worker":
		workerMain(os.Args[2:])
	case "run":
		runMain(os.Args[2:])
	default:
		fmt.Println("unknown command", os.Args[1])
		os.Exit(2)
	}
}

func runMain(args []string) {
	fs := flag.NewFlagSet("run", flag.ExitOnError)
	pkgPat := fs.String("pkg", "./core", "package containing the harness")
	harness := fs.String("fn", "", "harness function name")
	maxPaths := fs.Int("maxpaths", 1<<30, "path cap")
	slog := fs.String("solverlog", "", "file for solver script")
	params := fs.String("p", "", "k=v,... harness parameters")
	known := fs.String("known", "", "comma separated known findings")
	fs.Parse(args)
	t0 := time.Now()
	l, err := load(*pkgPat)
	if err != nil {
		fmt.Println(err)
		os.Exit(2)
	}
	tLoad := time.Since(t0)
	if os.Getenv("SYMGO_DEBUG") != "" {
		var ms runtime.MemStats
		runtime.GC()
		runtime.ReadMemStats(&ms)
		fmt.Printf("heap after load+GC: %d MB\n", ms.HeapAlloc>>20)
	}
	hp, fn := l.harness(*harness)
	if fn == nil {
		fmt.Println("no such harness", *harness)
		os.Exit(2)
	}
	var lf *os.File
	if *slog != "" {
		lf, _ = os.Create(*slog)
	}
	m := interp.NewMachine(l.prog, []*ssa.Package{hp}, lf)
	m.MaxPaths = *maxPaths
	p := map[string]int{}
	for _, kv := range strings.Split(*params, ",") {
		if k, v, ok := strings.Cut(kv, "="); ok {
			p[k], _ = strconv.Atoi(v)
		}
	}
	m.SetParams(p)
	kn := map[string]bool{}
	for _, k := range strings.Split(*known, ",") {
		if k != "" {
			kn[k] = true
		}
	}
	m.SetKnown(kn)
	if pf := os.Getenv("SYMGO_PROF"); pf != "" {
		f, _ := os.Create(pf)
		pprof.StartCPUProfile(f)
		defer pprof.StopCPUProfile()
	}
	t1 := time.Now()
	res := m.Explore(fn)
	tRun := time.Since(t1)
	fmt.Printf("load=%.1fs run=%.2fs paths=%d infeasible=%d obligations=%d discharged=%d queries=%d solver=%.2fs steps=%d maxtrail=%d\n",
		tLoad.Seconds(), tRun.Seconds(), res.Paths, res.Infeasible, res.Obligations, res.Discharged, res.Queries, res.SolverTime.Seconds(), res.Steps, res.MaxTrail)
	fmt.Println("reached:", res.Reached)
	fmt.Println("unsupported:", res.Unsupported)
	fmt.Println("panics:", res.Panics)
	for i, v := range res.Violations {
		if i >= 200 {
			fmt.Printf("... %d more\n", len(res.Violations)-i)
			break
		}
		fmt.Printf("VIOLATION kind=%s msg=%q model=%s values=%s\n", v.Kind, v.Msg, strings.Join(strings.Fields(v.Model), " "), compactValues(v.Values))
	}
}

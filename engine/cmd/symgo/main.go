package main

import (
	"encoding/json"
	"os/exec"
	"flag"
	"fmt"
	"os"
	"strings"
	"time"

	"golang.org/x/tools/go/packages"
	"golang.org/x/tools/go/ssa"
	"golang.org/x/tools/go/ssa/ssautil"

	"symgo/interp"
)

func main() {
	repo := flag.String("repo", "/repo", "repository root")
	pkgPat := flag.String("pkg", "./interpreter", "package containing the harness")
	harness := flag.String("harness", "", "harness function name")
	overlay := flag.String("overlay", "", "overlay JSON {virtual: real}")
	maxPaths := flag.Int("maxpaths", 1<<30, "path cap")
	slog := flag.String("solverlog", "", "file for solver script")
	shard := flag.String("shard", "", "i/W: explore only the subtrees assigned to worker i of W")
	shardDepth := flag.Int("sharddepth", 3, "number of leading forks that identify a subtree")
	replayDir := flag.String("replaydir", "", "if set, replay each violation natively using this scratch dir")
	flag.Parse()

	ov := map[string][]byte{}
	if *overlay != "" {
		var m map[string]string
		b, err := os.ReadFile(*overlay)
		if err != nil {
			panic(err)
		}
		if err := json.Unmarshal(b, &m); err != nil {
			panic(err)
		}
		for v, r := range m {
			c, err := os.ReadFile(r)
			if err != nil {
				panic(err)
			}
			ov[v] = c
		}
	}
	t0 := time.Now()
	cfg := &packages.Config{Mode: packages.LoadAllSyntax, Dir: *repo, Overlay: ov, BuildFlags: []string{"-tags=verif"},
		Env: append(os.Environ(), "GOFLAGS=-mod=mod", "GOPROXY=off", "GOSUMDB=off")}
	pkgs, err := packages.Load(cfg, *pkgPat, "runtime")
	if err != nil {
		panic(err)
	}
	if packages.PrintErrors(pkgs) > 0 {
		os.Exit(2)
	}
	prog, spkgs := ssautil.AllPackages(pkgs, ssa.InstantiateGenerics|ssa.SanityCheckFunctions)
	prog.Build()
	tLoad := time.Since(t0)

	var inits []*ssa.Package
	for _, p := range prog.AllPackages() {
		if strings.HasPrefix(p.Pkg.Path(), "github.com/truora/minidyn") || p.Pkg.Path() == "errors" {
			inits = append(inits, p)
		}
	}
	// order: dependencies first (init of a package calls its imports' init itself in SSA, guarded by init$guard)
	var main *ssa.Package
	var fn *ssa.Function
	for _, p := range spkgs {
		if p != nil && p.Func(*harness) != nil {
			main, fn = p, p.Func(*harness)
		}
	}
	if fn == nil {
		fmt.Println("no such harness", *harness)
		os.Exit(2)
	}
	var lf *os.File
	if *slog != "" {
		lf, _ = os.Create(*slog)
	}
	m := interp.NewMachine(prog, []*ssa.Package{main}, lf)
	m.MaxPaths = *maxPaths
	if *shard != "" {
		var i, w int
		fmt.Sscanf(*shard, "%d/%d", &i, &w)
		m.SetShard(i, w, *shardDepth)
	}
	t1 := time.Now()
	res := m.Explore(fn)
	tRun := time.Since(t1)
	fmt.Printf("load=%.1fs run=%.2fs paths=%d skipped=%d infeasible=%d queries=%d solver=%.2fs steps=%d maxtrail=%d\n",
		tLoad.Seconds(), tRun.Seconds(), res.Paths, res.Skipped, res.Infeasible, res.Queries, res.SolverTime.Seconds(), res.Steps, res.MaxTrail)
	fmt.Println("reached:", res.Reached)
	fmt.Println("unsupported:", res.Unsupported)
	fmt.Println("panics:", res.Panics)
	if *replayDir != "" {
		os.MkdirAll(*replayDir, 0o755)
		for i, v := range res.Violations {
			if i >= 8 {
				break
			}
			ok, out := replay(*repo, *pkgPat, main.Pkg.Name(), *harness, *overlay, *replayDir, i, v)
			fmt.Printf("REPLAY %d kind=%s msg=%q reproduced=%v\n", i, v.Kind, firstN(v.Msg, 80), ok)
			if !ok {
				fmt.Println(firstN(out, 600))
			}
		}
		return
	}
	for i, v := range res.Violations {
		if i >= 2000 {
			fmt.Printf("... %d more\n", len(res.Violations)-i)
			break
		}
		fmt.Printf("VIOLATION kind=%s msg=%q model=%s\n", v.Kind, v.Msg, strings.Join(strings.Fields(v.Model), " "))
	}
}

func firstN(s string, n int) string {
	if len(s) > n {
		return s[:n]
	}
	return s
}

// replay compiles the same harness natively (go test -overlay) with nd reading the model.
func replay(repo, pkgPat, pkgName, harness, overlayFile, dir string, idx int, v interp.Violation) (bool, string) {
	var m map[string]string
	b, _ := os.ReadFile(overlayFile)
	json.Unmarshal(b, &m)
	valFile := fmt.Sprintf("%s/replay_%d.json", dir, idx)
	vb, _ := json.MarshalIndent(map[string]interface{}{"harness": harness, "kind": v.Kind, "msg": v.Msg, "values": v.Values}, "", " ")
	os.WriteFile(valFile, vb, 0o644)
	testSrc := fmt.Sprintf(`//go:build verif

package %s

import "testing"

func TestVerifReplay(t *testing.T) { %s() }
`, pkgName, harness)
	testFile := fmt.Sprintf("%s/replay_%d_test.go", dir, idx)
	os.WriteFile(testFile, []byte(testSrc), 0o644)
	rel := strings.TrimPrefix(pkgPat, "./")
	m[repo+"/"+rel+"/zz_verif_replay_test.go"] = testFile
	ovFile := fmt.Sprintf("%s/overlay_%d.json", dir, idx)
	ob, _ := json.Marshal(map[string]interface{}{"Replace": m})
	os.WriteFile(ovFile, ob, 0o644)
	cmd := exec.Command("go", "test", "-vet=off", "-count=1", "-tags", "verif", "-overlay", ovFile, "-run", "^TestVerifReplay$", pkgPat)
	cmd.Dir = repo
	cmd.Env = append(os.Environ(), "VERIF_REPLAY="+valFile, "GOFLAGS=-mod=mod", "GOPROXY=off", "GOSUMDB=off")
	out, err := cmd.CombinedOutput()
	// reproduced == the native run failed (assertion panic or runtime panic)
	return err != nil && strings.Contains(string(out), "FAIL"), string(out)
}

#!/bin/bash
# usage: trymutant.sh <mutant-dir> <tier> <property>...
# Applies the seeded change to a scratch worktree of /repo (never to /repo itself), runs the named checks
# against it (VERIF_REPO), prints one line per check, removes the worktree.
set -u
mdir=$1; tier=$2; shift 2
name=$(basename "$mdir")
wt=/root/mut/wt-$name-$$
git -C /repo worktree add -q --detach "$wt" HEAD || exit 9
if ! git -C "$wt" apply "$mdir/patch.diff"; then echo "$name: PATCH DOES NOT APPLY"; git -C /repo worktree remove --force "$wt"; exit 9; fi
mkdir -p /verif/.cache/mutants
for prop in "$@"; do
  out=/verif/.cache/mutants/$name.$prop.$tier.txt
  start=$(date +%s)
  VERIF_REPO=$wt VERIF_WORKERS=${VERIF_WORKERS:-6} timeout ${MUT_TIMEOUT:-900} /verif/bin/symgo check "$prop" --tier "$tier" --noevidence > "$out" 2>&1
  rc=$?
  end=$(date +%s)
  verdict=MISSED
  [ $rc -eq 1 ] && verdict=CAUGHT
  [ $rc -eq 2 ] && verdict=INCONCLUSIVE
  [ $rc -eq 124 ] && verdict=TIMEOUT
  ids=$(grep -o 'assert="[^"]*"\|crash="[^"]\{0,60\}' "$out" | head -3 | tr '\n' ' ')
  echo "$name $prop $tier $verdict rc=$rc $((end-start))s $ids"
done
git -C /repo worktree remove --force "$wt"

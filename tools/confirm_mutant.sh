#!/bin/bash
# usage: confirm_mutant.sh <mutant-dir>
# Confirms in a scratch worktree of /repo HEAD that the seeded change (1) applies, (2) keeps the whole test suite
# green, (3) makes its demonstration test fail, and that (4) the demonstration passes without the change.
set -u
mdir=$1; name=$(basename "$mdir")
wt=/root/mut/cf-$name-$$
export GOFLAGS=-mod=mod GOPROXY=off GOSUMDB=off
git -C /repo worktree add -q --detach "$wt" HEAD || exit 9
res="applies=no"
if git -C "$wt" apply "$mdir/patch.diff" 2>/dev/null; then
  res="applies=yes"
  if (cd "$wt" && go build ./... && go test -vet=off -count=1 ./... ) > "$wt/.suite.log" 2>&1; then res="$res suite=pass"; else res="$res suite=FAIL"; fi
  place=$(head -1 "$mdir/demo_test.go" | sed -n 's#^// place at: *##p' | tr -d '\r ')
  pkgdir=$(dirname "$place")
  extra=""
  grep -qi "race" "$mdir/notes.txt" 2>/dev/null && extra="-race"
  cp "$mdir/demo_test.go" "$wt/$place"
  if (cd "$wt" && go test -vet=off -count=1 $extra ./$pkgdir -run 'Demo|demo|Zz|C[0-9][0-9]' ) > "$wt/.demo1.log" 2>&1; then res="$res demo_with_change=PASS(!)"; else res="$res demo_with_change=fail"; fi
  git -C "$wt" checkout -q -- . 
  if (cd "$wt" && go test -vet=off -count=1 $extra ./$pkgdir -run 'Demo|demo|Zz|C[0-9][0-9]' ) > "$wt/.demo2.log" 2>&1; then res="$res demo_without=pass"; else res="$res demo_without=FAIL(!)"; fi
fi
echo "$name $res"
git -C /repo worktree remove --force "$wt"

#!/usr/bin/env python3
import json, glob, os
rows = []
for f in sorted(glob.glob('/verif/seeded/*/meta.json')):
    m = json.load(open(f))
    desc = m['notes'].split('\n')[0]
    desc = desc[:230] + ('...' if len(desc) > 230 else '')
    caught = [f"{r['check']} {r['tier']}" for r in m['check_runs'] if r['verdict'] == 'caught']
    other = [f"{r['check']} {r['tier']}: {r['verdict']}" for r in m['check_runs'] if r['verdict'] != 'caught']
    rows.append((m['id'], m['property'], desc, ', '.join(caught) or '-', '; '.join(other) or '-'))
out = ["# Seeded changes", "",
       "Each directory holds `patch.diff` (applies to /repo HEAD), `demo_test.go` (first line says where to place it) and `meta.json`.",
       "Every change was written by an independent sub-agent that saw only the property text and a scratch worktree, and was",
       "re-confirmed here with `tools/confirm_mutant.sh` (patch applies; whole suite passes with it; demo fails with it and passes without).",
       "Check runs were made with `tools/trymutant.sh` against a scratch worktree carrying the patch (never /repo itself).",
       "`caught` = the check exited 1 with a natively replayed VIOLATION. Runs listed under *other* are the remaining recorded runs",
       "(for a few changes the first runs were misses that led to the harness extensions described in DESIGN.md section 8; the",
       "recorded run of the same check and tier is always the latest).", "",
       "| id | property | change (first line of the author's notes) | caught by | other recorded runs |", "|---|---|---|---|---|"]
for r in rows:
    out.append("| " + " | ".join(x.replace('|', '/').replace('\n', ' ') for x in r) + " |")
open('/verif/seeded/README.md', 'w').write('\n'.join(out) + '\n')
print(len(rows), "rows")

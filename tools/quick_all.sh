#!/bin/bash
# usage: tools/quick_all.sh [--evidence] : runs every registered quick check against /repo
cd /verif
flag="--noevidence"; [ "${1:-}" = "--evidence" ] && flag=""
for p in $(python3 -c "import json;print(' '.join(json.load(open('/verif/registered.json'))))"); do
  s=$(date +%s); out=.cache/quick.$p.txt
  VERIF_WORKERS=${VERIF_WORKERS:-8} timeout 1800 ./bin/symgo check $p --tier quick $flag > $out 2>&1; rc=$?
  e=$(date +%s)
  echo "$p rc=$rc $((e-s))s $(grep -c '^KNOWN-FINDING' $out) known; paths=$(grep -o 'paths=[0-9]*' $out | cut -d= -f2 | paste -sd+ | bc) $(grep -m1 'INCONCLUSIVE\|VIOLATION' $out | cut -c1-200)"
done

#!/bin/bash
# usage: tools/cross_solver.sh <solver: z3-new|cvc5> [property...]
# Cross-solver diff of the encoding: every named quick check (default: all registered) is run once under the
# default back end (z3 4.8.12) and once under the named one (SYMGO_SOLVER). The number of solver queries per
# harness is a deterministic function of the verdicts (a different sat/unsat answer changes the tree that is
# explored), so equal query counts + equal violation counts + equal exit codes = the two solvers agreed on
# every feasibility and assertion query of the run. Prints one line per harness and DIFF lines on disagreement;
# writes /verif/crosscheck/<solver>.txt.
cd /verif
alt=$1; shift
props="$@"; [ -z "$props" ] && props=$(python3 -c "import json;print(' '.join(json.load(open('/verif/registered.json'))))")
mkdir -p crosscheck .cache/cross
out=crosscheck/$alt.txt; : > $out.tmp
bad=0
for p in $props; do
  VERIF_WORKERS=${VERIF_WORKERS:-8} timeout 3600 ./bin/symgo check $p --tier quick --noevidence > .cache/cross/$p.z3.txt 2>&1; rc1=$?
  SYMGO_SOLVER=$alt VERIF_WORKERS=${VERIF_WORKERS:-8} timeout 7200 ./bin/symgo check $p --tier quick --noevidence > .cache/cross/$p.$alt.txt 2>&1; rc2=$?
  a=$(grep '^harness' .cache/cross/$p.z3.txt | sed 's/: paths=[0-9]* obligations=[0-9]* discharged=[0-9]*//; s/ solver=.*violations=/ violations=/')
  b=$(grep '^harness' .cache/cross/$p.$alt.txt | sed 's/: paths=[0-9]* obligations=[0-9]* discharged=[0-9]*//; s/ solver=.*violations=/ violations=/')
  ta=$(grep -o 'solver=[0-9.]*s' .cache/cross/$p.z3.txt | tr -d 'solver=s' | paste -sd+ | bc)
  tb=$(grep -o 'solver=[0-9.]*s' .cache/cross/$p.$alt.txt | tr -d 'solver=s' | paste -sd+ | bc)
  if [ "$a" = "$b" ] && [ $rc1 = $rc2 ]; then
    echo "$p AGREE rc=$rc1 harnesses=$(echo "$a" | wc -l) queries=$(echo "$a" | grep -o 'queries=[0-9]*' | cut -d= -f2 | paste -sd+ | bc) solver_s z3=$ta $alt=$tb" | tee -a $out.tmp
  else
    bad=1
    echo "$p DIFF rc z3=$rc1 $alt=$rc2" | tee -a $out.tmp
    diff <(echo "$a") <(echo "$b") | tee -a $out.tmp
  fi
done
mv $out.tmp $out
exit $bad

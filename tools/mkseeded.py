#!/usr/bin/env python3
"""mkseeded.py <mutant-name> ... : copies a confirmed seeded change from /root/mut/out into /verif/seeded/<name>/ and
writes meta.json from its notes, the confirmation run and the recorded check runs (/verif/.cache/mutants/*.txt)."""
import json, os, re, shutil, subprocess, sys, glob
for name in sys.argv[1:]:
    src = f'/root/mut/out/{name}'
    dst = f'/verif/seeded/{name}'
    os.makedirs(dst, exist_ok=True)
    shutil.copy(f'{src}/patch.diff', f'{dst}/patch.diff')
    shutil.copy(f'{src}/demo_test.go', f'{dst}/demo_test.go')
    notes = open(f'{src}/notes.txt').read()
    conf = ''
    for log in glob.glob('/verif/.cache/confirm_*.log'):
        for line in open(log):
            if line.startswith(name + ' '):
                conf = line.strip()
    if not conf:
        conf = subprocess.run(['/verif/tools/confirm_mutant.sh', src], capture_output=True, text=True).stdout.strip()
    runs = []
    for f in sorted(glob.glob(f'/verif/.cache/mutants/{name}.*.txt')):
        _, prop, tier, _ = os.path.basename(f).split('.')
        txt = open(f).read()
        if re.search(r'^VIOLATION', txt, re.M):
            verdict = 'caught'
        elif 'INCONCLUSIVE' in txt:
            verdict = 'inconclusive'
        elif re.search(r'^OK property', txt, re.M):
            verdict = 'missed'
        else:
            verdict = 'no result (timeout)'
        ids = sorted(set(re.findall(r'(?:assert|crash|race)="([^"]{0,110})', txt)))[:6]
        runs.append({"check": prop, "tier": tier, "verdict": verdict, "violated": ids})
    m = re.match(r'(C\d+)-', name)
    meta = {
        "id": name,
        "property": m.group(1),
        "written_by": "independent sub-agent given only the property text and a scratch worktree",
        "notes": notes.strip(),
        "confirmed_here": conf,
        "confirmation_procedure": "tools/confirm_mutant.sh: scratch worktree of /repo HEAD; git apply patch.diff; go build ./... && go test -vet=off -count=1 ./... (must pass); demo placed as its first line says, must fail with the change and pass after git checkout",
        "check_runs": runs,
        "how_run": "tools/trymutant.sh <dir> <tier> <property...>: patch applied to a scratch worktree (VERIF_REPO), /verif/bin/symgo check <property> --tier <tier>; exit 1 + VIOLATION line = caught",
    }
    json.dump(meta, open(f'{dst}/meta.json', 'w'), indent=1)
    print(name, conf, [(r['check'], r['tier'], r['verdict']) for r in runs])

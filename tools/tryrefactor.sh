#!/bin/bash
# usage: tryrefactor.sh <refactor-dir> [property...]
# Applies a behaviour-preserving change to a scratch worktree of /repo and runs the quick tier of the named
# checks (default: all registered) against it. Every check is expected to exit 0: exit 1 is a false alarm,
# exit 2 an engine gap (something the change uses is not supported).
set -u
mdir=$1; shift
name=$(basename "$mdir")
props="$@"
[ -z "$props" ] && props=$(python3 -c "import json;print(' '.join(json.load(open('/verif/registered.json'))))")
wt=/root/mut/wt-$name-$$
git -C /repo worktree add -q --detach "$wt" HEAD || exit 9
if ! git -C "$wt" apply "$mdir/patch.diff"; then echo "$name: PATCH DOES NOT APPLY"; git -C /repo worktree remove --force "$wt"; exit 9; fi
mkdir -p /verif/.cache/refactors
for prop in $props; do
  out=/verif/.cache/refactors/$name.$prop.txt
  start=$(date +%s)
  VERIF_REPO=$wt VERIF_WORKERS=${VERIF_WORKERS:-8} timeout ${MUT_TIMEOUT:-1200} /verif/bin/symgo check "$prop" --tier quick --noevidence > "$out" 2>&1
  rc=$?
  end=$(date +%s)
  verdict=ok
  [ $rc -eq 1 ] && verdict=FALSE-ALARM
  [ $rc -eq 2 ] && verdict=INCONCLUSIVE
  [ $rc -eq 124 ] && verdict=TIMEOUT
  why=$(grep -m2 -o 'assert="[^"]*"\|crash="[^"]\{0,60\}\|INCONCLUSIVE.\{0,160\}' "$out" | tr '\n' ' ')
  echo "$name $prop $verdict rc=$rc $((end-start))s $why"
done
git -C /repo worktree remove --force "$wt"

#!/usr/bin/env python3
"""mkharmless.py: tabulates the recorded check runs (tools/tryrefactor.sh; latest run per change and check; logs in
/verif/harmless/runs/ and /verif/.cache/rf_round*.log) of the behaviour-preserving changes in /verif/harmless/<id>/."""
import glob, os, re, shutil
runs = {}
for log in sorted(glob.glob('/verif/harmless/runs/*.log')) + sorted(glob.glob('/verif/.cache/rf_round*.log'), key=os.path.getmtime):
    for line in open(log):
        m = re.match(r'^(RF[A-Z]-\d+) (C\d+) (\S+) rc=(\d+) (\d+)s ?(.*)$', line.strip())
        if m:
            runs[(m.group(1), m.group(2))] = (m.group(3), m.group(5), m.group(6)[:160])
rows = []
for src in sorted(glob.glob('/verif/harmless/RF*')):
    name = os.path.basename(src)
    desc = open(f'{src}/notes.txt').read().strip().split('\n')[0][:200]
    rs = sorted((c, v) for (n, c), v in runs.items() if n == name)
    ok = [c for c, v in rs if v[0] == 'ok']
    other = [f"{c}: {v[0]} ({v[2]})" for c, v in rs if v[0] != 'ok']
    rows.append((name, desc, ' '.join(ok) or '-', '; '.join(other) or '-'))
out = ["# Behaviour-preserving changes", "",
       "Refactorings written by sub-agents that were asked for changes which must not alter any observable behaviour.",
       "Each was applied to a scratch worktree and the quick tier of the checks most exposed to it was run",
       "(`tools/tryrefactor.sh`); the expected outcome is exit 0. An exit 2 (inconclusive) names something the engine",
       "did not support at that time; the table shows the latest recorded run per change and check.", "",
       "| id | change (first line of the author's notes) | checks that passed (exit 0) | other outcomes |", "|---|---|---|---|"]
for r in rows:
    out.append("| " + " | ".join(x.replace('|', '/').replace('\n', ' ') for x in r) + " |")
open('/verif/harmless/README.md', 'w').write('\n'.join(out) + '\n')
print(len(rows), 'changes')

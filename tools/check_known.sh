#!/bin/bash
# every stored known-finding witness must still reproduce on the unchanged tree (a harness edit that renumbers
# choices silently invalidates a witness; then the region would no longer be excluded)
rc=0
for f in /verif/known/*.json; do
  if /verif/bin/symgo replay "$f" 2>&1 | tail -1 | grep -q '^VIOLATION'; then echo "ok   $(basename $f)"; else echo "STALE $(basename $f)"; rc=1; fi
done
exit $rc

#!/bin/bash
# runs the thorough tier of every registered check, one after the other, and prints a timing line per check
for p in "$@"; do
  s=$(date +%s)
  timeout ${TH_TIMEOUT:-2700} /verif/bin/symgo check $p --tier thorough --noevidence > /verif/.cache/thorough.$p.log 2>&1
  rc=$?
  e=$(date +%s)
  echo "$p rc=$rc $((e-s))s $(grep -c '^harness' /verif/.cache/thorough.$p.log) harnesses; $(grep -E '^harness' /verif/.cache/thorough.$p.log | sed 's/.*paths=\([0-9]*\).*/\1/' | paste -sd+ | bc) paths"
done

#!/usr/bin/env python3
"""Regenerates /verif/MANIFEST.json from checks.json (registered checks) and na.json (properties not claimed)."""
import json, sys
root = '/verif'
checks = json.load(open(f'{root}/checks.json'))
props = [json.loads(l) for l in open(f'{root}/properties.jsonl')]
try:
    na = json.load(open(f'{root}/na.json'))
except FileNotFoundError:
    na = {}
reg = json.load(open(f'{root}/registered.json'))  # list of property ids whose check runs clean on the unchanged tree
m = {
 "version": 1,
 "setup_cmd": "cd /verif/engine && GOFLAGS=-mod=mod GOPROXY=off GOSUMDB=off GOTOOLCHAIN=local go build -o /verif/bin/symgo ./cmd/symgo",
 "hooks": {
  "guard": "verif",
  "enable": "harness files carry //go:build verif and are injected through the go/packages overlay (engine) and `go test -overlay -tags verif` (native replay); nothing is written into /repo, so there are no hook commits",
  "baseline_off_cmd": "cd /repo && GOFLAGS=-mod=mod go test -vet=off -count=1 ./...",
  "source_commits": [],
  "add_only": True
 },
 "engines": [{
  "name": "symgo", "path": "/verif/engine", "serves_properties": sorted(reg),
  "kind_free_text": "own symbolic executor for Go SSA (fork of golang.org/x/tools/go/ssa/interp v0.29.0): symbolic scalars and byte strings, forking maps, path exploration by re-execution over z3 4.8.12 (one `z3 -in` pipe per worker, push/pop), work-queue parallelism, native replay of every counterexample through `go test -overlay`"
 }],
 "checks": [],
 "not_applicable": [],
 "notes": "All checks are decided by solver-based checking of the real code (DESIGN.md). Exit codes of `symgo check`: 0 = held on everything explored (KNOWN-FINDING lines possible), 1 = VIOLATION (replayed natively), 2 = inconclusive (unsupported operation, bound hit, solver unknown, or a counterexample that did not reproduce) - never reported as success."
}
for p in props:
    pid = p['id']
    if pid in reg and pid in checks:
        c = checks[pid]
        m['checks'].append({
         "property_id": pid,
         "quick_cmd": f"/verif/bin/symgo check {pid} --tier quick",
         "thorough_cmd": f"/verif/bin/symgo check {pid} --tier thorough",
         "evidence_file": f"/verif/evidence/{pid}.json",
         "replay_cmd_template": "/verif/bin/symgo replay {path}",
         "engine": "symgo",
         "technique": "bounded symbolic execution of the Go SSA of the real code + SMT (z3): each harness assertion is discharged as `path condition AND NOT assertion` on every feasible path within the stated bounds; counterexamples replayed natively",
         "level_claimed": {
          "category": "other",
          "text": "Bounded, solver-decided verdict over the real code: " + c['title'] + ". Within the bounds (" + c['bounds'] + ") every feasible path is executed symbolically and every assertion holds for all values on it (unsat), or a concrete counterexample is produced and replayed against the native build. Not a proof: nothing is claimed outside the bounds (" + c['outside'] + ").",
          "design_ref": "DESIGN.md section 4 " + pid
         },
         "level_note": "Trusted: the symgo engine and its library models (DESIGN.md 2.5), z3 4.8.12, the go/ssa builder, the reference model written in the harness. Assumptions: " + ("; ".join(c.get('assumptions', [])) or "none beyond the bounds") + "."
        })
    else:
        m['not_applicable'].append({"property_id": pid, "reason": na.get(pid, "check under construction in this build round; not yet registered")})
json.dump(m, open(f'{root}/MANIFEST.json', 'w'), indent=1)
print("checks:", [c['property_id'] for c in m['checks']], "n/a:", [n['property_id'] for n in m['not_applicable']])
